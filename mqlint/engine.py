"""Check driver: extracts facts from /repo's working tree (every run), evaluates the obligations of one
property in every configuration, writes evidence, prints verdict lines."""
import fcntl
import glob
import hashlib
import importlib
import json
import os
import shutil
import subprocess
import sys
import time
import traceback

from . import core

VERIF = os.path.dirname(os.path.dirname(os.path.abspath(__file__)))
REPO = os.environ.get("MQ_REPO", "/repo")
CACHE = os.path.join(VERIF, ".cache")
DRIVER = os.path.join(VERIF, "driver", "target", "release", "mqfacts")

CONFIGS = {
    "default": [],
    "nodefault": ["--no-default-features"],
    "fuzzing": ["--features", "fuzzing"],
}
QUICK_CONFIGS = ["default", "nodefault"]
THOROUGH_CONFIGS = ["default", "nodefault", "fuzzing"]


class BuildFailed(Exception):
    pass


def sysroot():
    return subprocess.check_output(["rustc", "+nightly", "--print", "sysroot"], text=True).strip()


def ensure_driver():
    if os.path.exists(DRIVER):
        return
    env = dict(os.environ, CARGO_NET_OFFLINE="true")
    subprocess.check_call(["cargo", "build", "--release", "--offline"], cwd=os.path.join(VERIF, "driver"), env=env,
                          stdout=subprocess.DEVNULL, stderr=subprocess.DEVNULL)


def extract(cfg, repo=None, target_tag=""):
    """run the fact extractor on `repo` (default /repo) for one cargo feature configuration and
    return the path of the fresh fact file"""
    repo = repo or REPO
    ensure_driver()
    os.makedirs(CACHE, exist_ok=True)
    tdir = os.path.join(CACHE, "target-%s%s" % (cfg, target_tag))
    lock = open(os.path.join(CACHE, "lock-%s%s" % (cfg, target_tag)), "w")
    fcntl.flock(lock, fcntl.LOCK_EX)
    try:
        nonce = "%d-%d" % (os.getpid(), time.time_ns())
        out = os.path.join(CACHE, "facts", nonce)
        os.makedirs(out, exist_ok=True)
        # defeat cargo's freshness cache for the crate under analysis (dependencies stay warm)
        for p in glob.glob(os.path.join(tdir, "debug", ".fingerprint", "minimq-*")):
            shutil.rmtree(p, ignore_errors=True)
        env = dict(os.environ)
        env.update({
            "LD_LIBRARY_PATH": os.path.join(sysroot(), "lib") + (":" + env["LD_LIBRARY_PATH"] if env.get("LD_LIBRARY_PATH") else ""),
            "RUSTFLAGS": "-Zmir-opt-level=0 -Awarnings",
            "RUSTC_WORKSPACE_WRAPPER": DRIVER,
            "CARGO_TARGET_DIR": tdir,
            "CARGO_NET_OFFLINE": "true",
            "MQFACTS_OUT": out,
            "MQFACTS_NONCE": nonce,
            "MQFACTS_CFG": cfg,
            "MQFACTS_CRATE": "minimq",
            # a driver failure (e.g. disk full) must not leave a rustc-ice-*.txt dump in the analysed tree
            "RUSTC_ICE": "0",
        })
        env.pop("RUSTC_WRAPPER", None)
        cmd = ["cargo", "+nightly", "check", "--offline", "--lib", "-j", "16"] + CONFIGS[cfg]
        p = subprocess.run(cmd, cwd=repo, env=env, stdout=subprocess.PIPE, stderr=subprocess.STDOUT, text=True)
        fpath = os.path.join(out, "minimq-%s.json" % cfg)
        if p.returncode != 0:
            raise BuildFailed("cargo check failed for configuration %s:\n%s" % (cfg, p.stdout[-4000:]))
        if not os.path.exists(fpath):
            raise BuildFailed("fact file was not produced for configuration %s (driver skipped?)\n%s" % (cfg, p.stdout[-2000:]))
        return fpath, nonce
    finally:
        fcntl.flock(lock, fcntl.LOCK_UN)
        lock.close()


def load_facts(cfg, repo=None, target_tag=""):
    dev = os.environ.get("MQ_DEV_FACTS")  # development only: reuse a previously extracted fact file
    if dev and os.path.exists(os.path.join(dev, "%s.json" % cfg)):
        f = core.load(os.path.join(dev, "%s.json" % cfg))
        f.cfgname = cfg
        return f
    fpath, nonce = extract(cfg, repo, target_tag)
    f = core.load(fpath)
    if f.nonce != nonce:
        raise BuildFailed("stale fact file (nonce mismatch)")
    f.cfgname = cfg
    shutil.rmtree(os.path.dirname(fpath), ignore_errors=True)
    return f


# ----------------------------------------------------------------------------------------------


class Ob:
    __slots__ = ("key", "ok", "msg", "where", "cfg", "nontrivial", "detail", "rule")

    def __init__(self, key, ok, msg, where, cfg, nontrivial, detail, rule):
        self.key = key
        self.ok = bool(ok)
        self.msg = msg
        self.where = where
        self.cfg = cfg
        self.nontrivial = nontrivial
        self.detail = detail
        self.rule = rule


class Run:
    """obligation sink for one property in one configuration"""

    def __init__(self, prop, facts, cfg):
        self.prop = prop
        self.f = facts
        self.cfg = cfg
        self.obs = []
        self.stats = {"functions": set(), "call_sites": 0, "paths": 0}
        self.roles = {}
        self.undecided = []
        self._rule = None

    def ob(self, key, ok, msg, where=None, detail=None, nontrivial=True):
        full = "%s/%s" % (self.prop, key)
        self.obs.append(Ob(full, ok, msg, where, self.cfg, nontrivial, detail, self._rule or key.split("/")[0]))
        return bool(ok)

    def floor(self, rule, n, minimum, what):
        self.ob("%s/FLOOR" % rule, n >= minimum,
                "rule %s matched %d %s, expected at least %d (a rule that matches nothing passes vacuously)"
                % (rule, n, what, minimum), nontrivial=False)

    def exact(self, rule, n, expected, what):
        self.ob("%s/COUNT" % rule, n == expected,
                "rule %s matched %d %s, expected exactly %d" % (rule, n, what, expected), nontrivial=False)

    def touch(self, body):
        self.stats["functions"].add(body.name if hasattr(body, "name") else body)

    def undecide(self, key, why):
        self.undecided.append({"key": "%s/%s" % (self.prop, key), "why": why, "cfg": self.cfg})

    def rule(self, name, fn, *a, **kw):
        """run one rule group fail-closed"""
        self._rule = name
        try:
            fn(self, *a, **kw)
        except core.AnchorLost as e:
            self.ob("ANCHOR-LOST/%s/%s" % (name, e.role), False,
                    "anchor lost while evaluating %s: %s %s" % (name, e.role, e.why), nontrivial=False)
        except Exception as e:  # fail closed, never crash silently
            tb = traceback.format_exc()
            self.ob("INTERNAL/%s" % name, False, "internal error in rule %s: %r\n%s" % (name, e, tb[-1500:]),
                    nontrivial=False)
        finally:
            self._rule = None


def load_known():
    p = os.path.join(VERIF, "known_findings.json")
    if not os.path.exists(p):
        return {}, []
    d = json.load(open(p))
    known = {}
    for e in d.get("known", []):
        known[e["key"]] = e
    return known, d.get("fixed", [])


def run_property(prop, tier, facts_by_cfg):
    mod = importlib.import_module("mqlint.rules.%s" % prop.lower())
    runs = []
    for cfg, f in facts_by_cfg.items():
        r = Run(prop, f, cfg)
        try:
            mod.run(r)
        except Exception as e:
            r.ob("INTERNAL/run", False, "internal error: %r\n%s" % (e, traceback.format_exc()[-1500:]), nontrivial=False)
        runs.append(r)
    return mod, runs


def _norm_summary(f):
    """what the normal-form pass (mqlint/normalize.py) did to this fact base: differences from the reference tree"""
    n = getattr(f, "normalization", None) or {}
    short = lambda x: x.rsplit("::", 1)[-1]
    return {
        "renamed_functions": {short(a): short(b) for a, b in (n.get("renamed") or {}).items()},
        "renamed_types": {short(a): short(b) for a, b in (n.get("renamed_types") or {}).items()},
        "renamed_variants": n.get("renamed_variants") or {},
        "renamed_fields": n.get("renamed_fields") or {},
        "renamed_params": {short(a): b for a, b in (n.get("renamed_params") or {}).items()},
        "new_functions": [short(x) for x in n.get("new_functions") or []],
        "inlined_into_callers": len(n.get("inlined") or []),
        "absorbed": [short(x) for x in n.get("absorbed") or []],
        "missing_reference_functions": [short(x) for x in n.get("missing_functions") or []],
        "inlined_consts": [short(x) for x in n.get("inlined_consts") or []],
    }


def summarize(prop, tier, mod, runs, t0, extra_cov=None, extra_fail=None):
    known, fixed = load_known()
    by_key = {}
    order = []
    evaluations = 0
    for r in runs:
        for o in r.obs:
            evaluations += 1
            if o.key not in by_key:
                by_key[o.key] = []
                order.append(o.key)
            by_key[o.key].append(o)
    failing = []
    for k in order:
        bad = [o for o in by_key[k] if not o.ok]
        if bad:
            failing.append((k, bad))
    for k, msg in (extra_fail or []):
        failing.append((k, [Ob(k, False, msg, None, "all", False, None, "thorough")]))
        order.append(k)
        by_key[k] = failing[-1][1]
        evaluations += 1
    distinct_nontrivial = sum(1 for k in order if any(o.nontrivial for o in by_key[k]))
    known_hit = []
    violations = []
    os.makedirs(os.path.join(VERIF, "evidence", "violations"), exist_ok=True)
    for k, bad in failing:
        o = bad[0]
        if k in known and known[k].get("property") == prop:
            known_hit.append(k)
            print("KNOWN-FINDING: property=%s %s [%s] at %s" % (prop, known[k].get("what", o.msg), k, o.where or "?"))
            continue
        h = hashlib.sha1(k.encode()).hexdigest()[:12]
        vp = os.path.join("evidence", "violations", "%s-%s.json" % (prop, h))
        rec = {"property": prop, "key": k, "message": o.msg, "where": o.where, "configs": [b.cfg for b in bad],
               "detail": o.detail, "rule": o.rule}
        json.dump(rec, open(os.path.join(VERIF, vp), "w"), indent=1)
        print("FAIL %s\n     at %s [cfg %s]\n     %s" % (k, o.where or "?", ",".join(b.cfg for b in bad), o.msg))
        if o.detail:
            print("     " + str(o.detail).replace("\n", "\n     "))
        print("VIOLATION property=%s replay=%s" % (prop, vp))
        violations.append(k)
    if os.environ.get("MQ_VERBOSE"):
        for k in order:
            o = by_key[k][0]
            print("  %s %s  @ %s" % ("ok  " if all(x.ok for x in by_key[k]) else "FAIL", k, o.where))
    # known findings that no longer fail are reported (not an error)
    for k, e in known.items():
        if e.get("property") == prop and k not in known_hit:
            print("NOTE: known finding %s is listed but did not fail on this tree" % k)

    funcs = set()
    for r in runs:
        funcs |= r.stats["functions"]
    samples = []
    seen_rules = set()
    for k in order:
        o = by_key[k][0]
        if o.rule in seen_rules and len(samples) > 40:
            continue
        if o.nontrivial or not o.ok:
            seen_rules.add(o.rule)
            samples.append({"key": k, "verdict": "ok" if all(x.ok for x in by_key[k]) else
                            ("known-finding" if k in known_hit else "FAIL"),
                            "where": o.where, "what": o.msg[:300]})
        if len(samples) >= 60:
            break
    per_rule = {}
    for k in order:
        o = by_key[k][0]
        per_rule.setdefault(o.rule, [0, 0])
        per_rule[o.rule][0] += 1
        if all(x.ok for x in by_key[k]):
            per_rule[o.rule][1] += 1
    undecided = []
    for r in runs:
        undecided.extend(r.undecided)
    cov = {
        "explanation": getattr(mod, "EXPLANATION", ""),
        "obligations": len(order),
        "discharged": len(order) - len(failing),
        "evaluations": evaluations,
        "distinct_nontrivial": distinct_nontrivial,
        "rule": "one obligation per (rule, function, site) instance, evaluated on the mir_built facts of every "
                "analysed cargo configuration; an obligation is non-trivial when its evaluation involved a path, "
                "dominance, dataflow, wiring or table comparison (floor/count/anchor obligations are trivial)",
        "samples": samples,
        "per_rule": {k: {"obligations": v[0], "discharged": v[1]} for k, v in sorted(per_rule.items())},
        "configurations": [r.cfg for r in runs],
        "bodies_analysed": {r.cfg: len(r.f.bodies) for r in runs},
        "functions_named_in_obligations": len(funcs),
        "known_findings_hit": known_hit,
        "undecided_opportunistic": undecided,
        "normalization": {r.cfg: _norm_summary(r.f) for r in runs},
        "checker_cmd": "./check %s --tier %s" % (prop, tier),
        "trusted_base": [
            "rustc nightly front end, type checker and MIR construction (mir_built)",
            "mqfacts serialisation of MIR to JSON (driver/src/main.rs)",
            "oracle tables transcribed from the MQTT 5.0 OASIS standard (mqlint/oracle.py)",
            "the transparent-callee table of mqlint/core.py (into_future, Pin::new_unchecked, Deref, Try::branch ...)",
            "the normal-form pass (mqlint/normalize.py): renames accepted on a unique signature match against "
            "known_fns.json, inlining of functions that are not in the reference list, documented std semantics of "
            "Try::branch / from_residual for return-site threading",
        ],
        "exhaustive": False,
    }
    if extra_cov:
        cov.update(extra_cov)
    ev = {
        "property_id": prop,
        "tier": tier,
        "seed": int(os.environ.get("VERIF_SEED", "0") or 0),
        "level": "other",
        "coverage": cov,
        "assumptions": getattr(mod, "ASSUMPTIONS", []),
        "wall_s": round(time.time() - t0, 3),
        "violations": len(violations),
    }
    os.makedirs(os.path.join(VERIF, "evidence"), exist_ok=True)
    json.dump(ev, open(os.path.join(VERIF, "evidence", "%s.json" % prop), "w"), indent=1)
    print("%s: %d obligations, %d discharged, %d known findings, %d violations (%s, %.1fs)" % (
        prop, len(order), len(order) - len(failing), len(known_hit), len(violations), tier, time.time() - t0))
    return 1 if violations else 0


def main(argv):
    import argparse
    ap = argparse.ArgumentParser()
    ap.add_argument("prop")
    ap.add_argument("--tier", default=os.environ.get("VERIF_TIER") or "quick")
    ap.add_argument("--replay", default=None)
    ap.add_argument("--repo", default=None)
    ap.add_argument("--tag", default="")
    ap.add_argument("--no-selftest", action="store_true")
    a = ap.parse_args(argv)
    prop = a.prop.upper()
    tier = a.tier if a.tier in ("quick", "thorough") else "quick"
    t0 = time.time()
    cfgs = QUICK_CONFIGS if tier == "quick" else THOROUGH_CONFIGS
    facts = {}
    try:
        from concurrent.futures import ThreadPoolExecutor
        with ThreadPoolExecutor(max_workers=len(cfgs)) as ex:
            futs = {c: ex.submit(load_facts, c, a.repo, a.tag) for c in cfgs}
            for c in cfgs:
                facts[c] = futs[c].result()
    except BuildFailed as e:
        print("BUILD-FAILED: %s" % e)
        return 2
    if prop == "ALL":
        # every claimed property on one extraction of the facts (used when a seeded change is applied to the tree)
        man = json.load(open(os.path.join(VERIF, "MANIFEST.json")))
        rc_all = 0
        for chk in man["checks"]:
            p_ = chk["property_id"]
            t1 = time.time()
            mod, runs = run_property(p_, tier, facts)
            rc_all = max(rc_all, summarize(p_, tier, mod, runs, t1, None, None))
        return rc_all
    mod, runs = run_property(prop, tier, facts)
    extra_cov, extra_fail = None, None
    if tier == "thorough" and not a.no_selftest and not a.repo:
        try:
            from . import thorough
            extra_cov, extra_fail = thorough.run(prop, facts)
        except ImportError:
            pass
    rc = summarize(prop, tier, mod, runs, t0, extra_cov, extra_fail)
    if a.replay:
        rec = json.load(open(os.path.join(VERIF, a.replay) if not os.path.isabs(a.replay) else a.replay))
        k = rec["key"]
        still = any((not o.ok) for r in runs for o in r.obs if o.key == k)
        print("REPLAY %s: %s" % (k, "still failing" if still else "no longer failing"))
        return 1 if still else 0
    return rc


if __name__ == "__main__":
    sys.exit(main(sys.argv[1:]))
