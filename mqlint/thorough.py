"""Thorough tier extras: type-level witnesses (compile_fail doctests with compiling twins), an independent
enumerator cross-reference (clippy restriction lints vs the MIR panic-site enumeration) and checker
self-validation (mutation / refactor catalogue on scratch copies).  Everything here is still static:
nothing of minimq is executed (the doctests are only compiled)."""
import json
import os
import re
import shutil
import subprocess
import time

from . import engine

VERIF = engine.VERIF

WITNESSES = {
    # witness -> (properties, error code, what it shows)
    "W1": (("C04",), "E0499", "a delivered InboundPublish borrows the connection: the receive buffer cannot be touched while it is alive"),
    "W2": (("C12",), "E0382", "the transport is moved into connect(): every connection needs a new transport value"),
    "W3": (("C11", "C12"), "E0499", "one live Connection per Session: connect() cannot be called while a handle borrows the session"),
    "W4": (("C20",), "E0308", "InboundPublish::reply is optional by type"),
    "W5": (("C07", "C18"), "E0451", "operation handles cannot be forged: Op has no public constructor or fields"),
}


def run_witnesses(prop):
    mine = [w for w, (ps, code, what) in WITNESSES.items() if prop in ps]
    if not mine:
        return {}, []
    wdir = os.path.join(VERIF, "witness")
    shutil.copy(os.path.join(engine.REPO, "Cargo.lock"), os.path.join(wdir, "Cargo.lock"))
    env = dict(os.environ, CARGO_NET_OFFLINE="true", CARGO_TARGET_DIR=os.path.join(engine.CACHE, "target-witness"))
    lock = open(os.path.join(engine.CACHE, "lock-witness"), "w")
    import fcntl
    fcntl.flock(lock, fcntl.LOCK_EX)
    try:
        p = subprocess.run(["cargo", "+nightly", "test", "--doc", "--offline"], cwd=wdir, env=env,
                           stdout=subprocess.PIPE, stderr=subprocess.STDOUT, text=True)
    finally:
        fcntl.flock(lock, fcntl.LOCK_UN)
        lock.close()
    out = p.stdout
    res = {}
    for m in re.finditer(r"test src/lib\.rs - (W\d) \(line \d+\)( - compile fail)? \.\.\. (\w+)", out):
        w, cf, verdict = m.group(1), bool(m.group(2)), m.group(3)
        res.setdefault(w, {})["compile_fail" if cf else "twin"] = verdict
    fails = []
    cov = {}
    for w in mine:
        r = res.get(w, {})
        ps, code, what = WITNESSES[w]
        ok = r.get("compile_fail") == "ok" and r.get("twin", "ok") == "ok"
        cov[w] = {"error_code": code, "shows": what, "compile_fail": r.get("compile_fail"), "twin_compiles": r.get("twin", "n/a")}
        if not ok:
            if "compile_fail" not in r:
                fails.append(("%s/witness/%s" % (prop, w), "witness %s could not be evaluated (doctest build failed?):\n%s" % (w, out[-800:])))
            else:
                fails.append(("%s/witness/%s" % (prop, w),
                              "type-level witness %s no longer holds: %s (compile_fail,%s = %s, twin = %s)"
                              % (w, what, code, r.get("compile_fail"), r.get("twin"))))
    return cov, fails


INBOUND_FILES = ("src/de/deserializer.rs", "src/de/packet_reader.rs", "src/de/received_packet.rs",
                 "src/mqtt_client/session/inbound.rs")


def run_clippy_xref(prop, facts):
    """independent enumeration of indexing / unwrap / expect / panic / unreachable sites by clippy's restriction lints;
    every clippy site in the inbound files must have a MIR counterpart in the C08 enumeration"""
    if prop != "C08":
        return {}, []
    from .rules import c08
    from . import panics
    f = facts.get("nodefault") or list(facts.values())[0]
    sites = panics.enumerate_sites(f, c08.inbound_bodies(f))
    have = set()
    for s in sites:
        fn, line = s["span"].split(":")[0], s["span"].split(":")[1]
        have.add((fn, int(line)))
    env = dict(os.environ, CARGO_NET_OFFLINE="true", CARGO_TARGET_DIR=os.path.join(engine.CACHE, "target-clippy"))
    cmd = ["cargo", "+nightly", "clippy", "--offline", "--lib", "--no-default-features", "--message-format=json", "--",
           "-A", "clippy::all", "-W", "clippy::indexing_slicing", "-W", "clippy::unwrap_used", "-W", "clippy::expect_used",
           "-W", "clippy::panic", "-W", "clippy::unreachable"]
    # defeat the freshness cache so that clippy really re-lints the current tree
    import glob
    for pth in glob.glob(os.path.join(engine.CACHE, "target-clippy", "debug", ".fingerprint", "minimq-*")):
        shutil.rmtree(pth, ignore_errors=True)
    p = subprocess.run(cmd, cwd=engine.REPO, env=env, stdout=subprocess.PIPE, stderr=subprocess.DEVNULL, text=True)
    found = []
    for line in p.stdout.splitlines():
        try:
            d = json.loads(line)
        except Exception:
            continue
        if d.get("reason") != "compiler-message":
            continue
        m = d["message"]
        code = (m.get("code") or {}).get("code") or ""
        if not code.startswith("clippy::"):
            continue
        for sp in m["spans"]:
            if sp["is_primary"]:
                found.append((code, sp["file_name"], sp["line_start"]))
    fails = []
    matched = 0
    relevant = [x for x in found if x[1] in INBOUND_FILES]
    for (code, fn, line) in relevant:
        if (fn, line) in have:
            matched += 1
        else:
            fails.append(("C08/xref/%s:%d" % (fn, line), "clippy (%s) reports a panic-capable construct at %s:%d that the MIR "
                          "enumeration of inbound panic sites does not contain" % (code, fn, line)))
    cov = {"clippy_sites_total": len(found), "clippy_sites_in_inbound_files": len(relevant), "matched_by_mir_enumeration": matched}
    if not found:
        fails.append(("C08/xref/clippy-ran", "the clippy cross-reference produced no sites (tool failure?)"))
    return cov, fails


def run_selftest(prop):
    from . import selftest
    t0 = time.time()
    try:
        res = selftest.run(prop=prop, jobs=10, quiet=True, focus=True)
    except Exception as e:  # never let the self-test crash the check
        return {"selftest_error": repr(e)}, []
    by = {}
    for (mid, status, why, keys) in res:
        by.setdefault(status, []).append(mid)
    cov = {"selftest": {k: len(v) for k, v in by.items()}, "selftest_wall_s": round(time.time() - t0, 1),
           "selftest_mutants_caught": sorted(by.get("caught", [])), "selftest_refactors_silent": sorted(by.get("silent", [])),
           "selftest_problems": [{"id": r[0], "status": r[1], "detail": r[2][:300]} for r in res if r[1] in ("MISSED", "FALSE-ALARM", "build-failed")],
           "selftest_skipped": sorted(by.get("skipped", [])),
           "selftest_known_limits": sorted(by.get("known-limit", []))}
    for r in res:
        if r[1] in ("MISSED", "FALSE-ALARM"):
            print("SELFTEST-%s %s %s" % (r[1], r[0], r[2][:200]))
    return cov, []


def run(prop, facts):
    cov = {}
    fails = []
    for fn in (run_witnesses,):
        c, fl = fn(prop)
        if c:
            cov["witnesses"] = c
        fails += fl
    c, fl = run_clippy_xref(prop, facts)
    if c:
        cov["clippy_cross_reference"] = c
    fails += fl
    if os.environ.get("MQ_NO_SELFTEST") != "1":
        c, fl = run_selftest(prop)
        cov.update(c)
        fails += fl
    return cov, fails
