"""Finite value-set evaluation of small integer expressions reconstructed from MIR (flag bytes, option
bytes).  No program is run: the expression tree is folded over the finite ranges of its leaves
(bool -> {0,1}, fieldless enum -> its discriminants, constants), with a fixpoint for accumulating
`flags |= ..` updates.  Anything else evaluates to None (unknown) and the caller fails closed."""
from .core import phi_alts, peel, walk, is_call

CAP = 4096
MASK = {"u8": 0xFF, "u16": 0xFFFF, "u32": 0xFFFFFFFF, "usize": 0xFFFFFFFFFFFFFFFF, "u64": 0xFFFFFFFFFFFFFFFF,
        "i32": 0xFFFFFFFF}


def field_type(f, t):
    """type string of a ('field', ...) term from the ADT table"""
    if t[0] != "field":
        return None
    of, name, variant = t[3], t[2], t[4]
    adt = f.adts.get(of)
    if not adt:
        return None
    for v in adt["variants"]:
        if variant is None or v["name"] == variant:
            for fl in v["fields"]:
                if fl["name"] == name:
                    return fl["ty"]
    return None


def type_range(f, ty):
    if ty is None:
        return None
    if ty == "bool":
        return {0, 1}
    adt = f.adts.get(ty)
    if adt and adt["kind"] == "enum" and all(not v["fields"] for v in adt["variants"]):
        return set(v["discr"] for v in adt["variants"])
    return None


def construction_values(f, adt, field):
    """value set of `field` over all construction sites of `adt` outside the fuzzing module, or None"""
    vals = set()
    n = 0
    for b in f.bodies.values():
        if f.in_fuzzing(b):
            continue
        for bb, j, s in b.assigns():
            rv = s["rv"]
            if bb in b.reachable and "agg" in rv and rv["agg"].get("adt") == adt:
                t = b.rvalue_term(rv)
                if field in t[4]:
                    n += 1
                    v = t[5][t[4].index(field)]
                    if v[0] == "const" and v[2] is not None:
                        vals.add(v[2])
                    else:
                        return None, n
    return (vals if n else None), n


def evaluate(f, t, env=None, self_local=None, depth=0):
    """set of possible integer values of term t, or None.  env: {(adt, field): set}"""
    env = env or {}
    if depth > 40:
        return None
    k = t[0]
    if k == "const":
        return {t[2]} if t[2] is not None else None
    if k == "phi":
        base = []
        rec = []
        for a in t[1]:
            if any(x[0] == "loop" for x in walk(a)):
                rec.append(a)
            else:
                base.append(a)
        S = set()
        for a in base:
            v = evaluate(f, a, env, self_local, depth + 1)
            if v is None:
                return None
            S |= v
        changed = True
        it = 0
        while changed and it < 64:
            changed = False
            it += 1
            for a in rec:
                v = evaluate(f, a, dict(env, __loop__=frozenset(S)), self_local, depth + 1)
                if v is None:
                    return None
                if not v <= S:
                    S |= v
                    changed = True
                    if len(S) > CAP:
                        return None
        return S
    if k == "loop":
        lp = env.get("__loop__")
        return set(lp) if lp is not None else None
    if k in ("deref", "ref"):
        return evaluate(f, t[1], env, self_local, depth + 1)
    if k == "cast":
        v = evaluate(f, t[2], env, self_local, depth + 1)
        if v is None:
            return None
        m = MASK.get(t[3])
        return set(x & m for x in v) if m else v
    if k == "param":
        v = env.get(("param", t[1]))
        return set(v) if v is not None else None
    if k == "call":
        # the caller may fix the result of a call (by callee suffix): `PropertyIdentifier::from(self)` = this identifier
        for key, vs in env.items():
            if isinstance(key, tuple) and len(key) == 2 and key[0] == "call" and is_call(t, key[1]):
                return set(vs)
        # `u8::from(flag)` / `flag.into()` on a boolean: 0 or 1
        if t[4] in ("core::convert::From::from", "core::convert::Into::into") and len(t[3]) == 1:
            v = evaluate(f, t[3][0], env, self_local, depth + 1)
            if v is not None and v <= {0, 1}:
                return v
    if k == "discr":
        inner = peel(t[1])
        if inner[0] in ("param", "call"):
            v = evaluate(f, inner, env, self_local, depth + 1)
            if v is not None:
                return v
        if inner[0] == "field":
            key = (inner[3], inner[2])
            if key in env:
                return set(env[key])
            return type_range(f, field_type(f, inner))
        if inner[0] == "call" and inner[2] in f.bodies:
            # discriminant of a value returned by a local function: range of its return type
            return type_range(f, f.bodies[inner[2]].locals[0]["ty"])
        return None
    if k == "field" and t[1][0] == "bin" and t[2] == "0":
        # result component of a checked arithmetic operation
        return evaluate(f, t[1], env, self_local, depth + 1)
    if k == "field":
        key = (t[3], t[2])
        if key in env:
            return set(env[key])
        return type_range(f, field_type(f, t))
    if k == "bin":
        a = evaluate(f, t[2], env, self_local, depth + 1)
        b = evaluate(f, t[3], env, self_local, depth + 1)
        if a is None or b is None:
            return None
        op = t[1]
        out = set()
        for x in a:
            for y in b:
                if op == "Shl":
                    r = x << y
                elif op == "Shr":
                    r = x >> y
                elif op == "BitOr":
                    r = x | y
                elif op == "BitAnd":
                    r = x & y
                elif op == "BitXor":
                    r = x ^ y
                elif op in ("Add", "AddWithOverflow", "AddUnchecked"):
                    r = x + y
                elif op in ("Sub", "SubWithOverflow", "SubUnchecked"):
                    r = x - y
                elif op in ("Mul", "MulWithOverflow"):
                    r = x * y
                else:
                    return None
                out.add(r & 0xFFFFFFFFFFFFFFFF)
                if len(out) > CAP:
                    return None
        return out
    if k == "agg" and t[1] == "adt":
        adt = f.adts.get(t[2])
        if adt and adt["kind"] == "enum" and all(not v["fields"] for v in adt["variants"]):
            for v in adt["variants"]:
                if v["name"] == t[3]:
                    return {v["discr"]}
        return None
    if k == "un" and t[1] == "Not":
        v = evaluate(f, t[2], env, self_local, depth + 1)
        if v is None or not v <= {0, 1}:
            return None
        return set(1 - x for x in v)
    if k == "call" and t[4] in ("core::cmp::PartialEq::eq", "core::cmp::PartialEq::ne") and len(t[3]) == 2:
        # structural equality of two fieldless-enum / integer values
        a, b = peel(t[3][0]), peel(t[3][1])
        if not (_plain_eq(f, a) or _plain_eq(f, b)):
            return None
        va = evaluate(f, a, env, self_local, depth + 1)
        vb = evaluate(f, b, env, self_local, depth + 1)
        if va is None or vb is None:
            return None
        out = set()
        for x in va:
            for y in vb:
                out.add(int((x == y) == t[4].endswith("::eq")))
        return out
    if k == "field" or k == "downcast":
        return None
    return None


def _plain_eq(f, x):
    """x is a value of a fieldless enum whose PartialEq is derived (compares discriminants) or of a primitive type"""
    ty = None
    if x[0] == "agg" and x[1] == "adt":
        ty = x[2]
    elif x[0] == "field":
        ty = field_type(f, x)
    if ty in ("bool", "u8", "u16", "u32", "usize"):
        return True
    adt = f.adts.get(ty) if ty else None
    if not adt or adt["kind"] != "enum" or any(v["fields"] for v in adt["variants"]):
        return False
    for im in f.impls:
        if im["trait"] == "core::cmp::PartialEq" and im["self_ty"] == ty:
            eq = f.bodies.get(im["methods"].get("eq"))
            return eq is not None and all((bl.get("exp") or "").startswith("macro:PartialEq") for bl in eq.blocks if not bl["cleanup"])
    return False


def evaluate_fn(f, body, env, max_paths=2000, at=None):
    """value set of what `body` returns, path by path: a test whose subject has a single value under `env` is followed
    along that edge only, and the returned expression is folded per path (one reading for `flags |= BIT` under an `if`,
    `if c { A | B } else { A }`, `A | ((c as u8) << 3)` and a `match`)"""
    from . import paths

    def hook(b, bb, si):
        subj = si["subject"]
        on = b.switches[bb]["on"]
        pl = on.get("move") or on.get("copy")
        if si.get("path") and pl is not None and not pl["proj"]:
            pv = paths.value_on_path(b, si["path"], pl["l"])
            if pv is not None:
                subj = pv
        vs = evaluate(f, subj, env)
        if vs is None or len(vs) != 1:
            return None
        v = next(iter(vs))
        tgt = b.switches[bb]["otherwise"]
        for val, t_ in b.switches[bb]["arms"]:
            if val == v:
                tgt = t_
        return (("k", bb), {v: tgt})

    out = set()
    n = 0
    # at=(block, local): the value of that local where the paths reach that block (an argument of a call there) instead of
    # the returned value
    stop = (lambda b, x: x == at[0]) if at is not None else None
    for lf in paths.explore(body, 0, lambda t: False, lambda b, x: False, switch_hook=hook, max_paths=max_paths, stop_pred=stop):
        if lf["kind"] == "limit":
            return None
        if at is not None:
            if lf["kind"] != "stop":
                continue
            v = paths.value_on_path(body, lf["path"], at[1])
        elif lf["kind"] != "return":
            continue
        else:
            v = paths.value_on_path(body, lf["path"], 0)
        if v is None:
            return None
        vs = evaluate(f, v, env)
        if vs is None:
            return None
        out |= vs
        n += 1
    return out if n else None
