"""Checker self-validation: apply catalogued mutants / refactors to scratch copies of /repo (never to /repo),
extract facts and verify that exactly the expected obligations fail (mutants) or that nothing fails (refactors).

  python3 -m mqlint.selftest [--prop Cnn] [--id substr] [-j N] [--cfgs default,nodefault]
"""
import argparse
import importlib
import json
import os
import shutil
import subprocess
import sys
import tempfile
import time
from concurrent.futures import ThreadPoolExecutor

from . import engine

VERIF = engine.VERIF


KNOWN_LIMITS = {}


def load_catalogue():
    from selftest import catalogue
    importlib.reload(catalogue)
    KNOWN_LIMITS.clear()
    KNOWN_LIMITS.update(getattr(catalogue, "KNOWN_LIMITS", {}))
    return catalogue.MUTANTS, catalogue.REFACTORS


def make_scratch(tag):
    base = os.environ.get("MQ_SCRATCH", "/tmp/mqs")
    os.makedirs(base, exist_ok=True)
    d = tempfile.mkdtemp(prefix="st-%s-" % tag, dir=base)
    subprocess.check_call(["rsync", "-a", "--exclude", "target", "--exclude", ".git", "--exclude", "fuzz/target",
                           engine.REPO + "/", d + "/"])
    return d


def apply_edits(d, edits):
    """edits: list of (file, old, new); returns None or a reason the mutant no longer applies"""
    for (fn, old, new) in edits:
        if fn == "@patch":  # a whole patch file kept under /verif (independently produced refactorings)
            r = subprocess.run(["patch", "-p1", "-s", "-i", os.path.join(VERIF, old)], cwd=d,
                               stdout=subprocess.PIPE, stderr=subprocess.STDOUT, text=True)
            if r.returncode != 0:
                return "patch %s does not apply: %s" % (old, r.stdout[-200:])
            continue
        p = os.path.join(d, fn)
        if not os.path.exists(p):
            return "file %s missing" % fn
        s = open(p).read()
        if s.count(old) != 1:
            return "anchor text occurs %d times in %s" % (s.count(old), fn)
        open(p, "w").write(s.replace(old, new))
    return None


def failing_keys(props, d, tag, cfgs):
    facts = {}
    for c in cfgs:
        facts[c] = engine.load_facts(c, d, tag)
    out = {}
    for prop in props:
        mod, runs = engine.run_property(prop, "quick", facts)
        bad = set()
        for r in runs:
            for o in r.obs:
                if not o.ok:
                    bad.add(o.key)
        out[prop] = bad
    return out


_WORKER_SLOT = None


def _init_worker(q):
    """each worker process takes one slot for good: its cargo target directory (.cache/target-<cfg>-st<slot>) is reused for
    every entry it runs, so a full run needs `jobs` target directories, not one per entry"""
    global _WORKER_SLOT
    _WORKER_SLOT = q.get()


def run_one(entry, slot, cfgs, baseline):
    if _WORKER_SLOT is not None:
        slot = _WORKER_SLOT
    if not KNOWN_LIMITS:
        load_catalogue()        # a worker process starts without the catalogue's known-limit table
    kind, mid, props, edits, expect = entry
    tag = "-st%d" % slot
    d = make_scratch(mid)
    try:
        why = apply_edits(d, edits)
        if why:
            return (mid, "skipped", why, [])
        try:
            res = failing_keys(props, d, tag, cfgs)
        except engine.BuildFailed as e:
            return (mid, "build-failed", str(e)[-600:], [])
        got = set()
        for p in props:
            got |= res[p] - baseline.get(p, set())
        if kind == "mutant":
            missing = [k for k in expect if k not in got]
            if missing:
                return (mid, "MISSED", "expected %s; new failures: %s" % (missing, sorted(got)), sorted(got))
            return (mid, "caught", "", sorted(got))
        else:
            if got and mid in KNOWN_LIMITS:
                why, prefixes = KNOWN_LIMITS[mid]
                if all(any(k.startswith(p_) for p_ in prefixes) for k in got):
                    return (mid, "known-limit", why, sorted(got))
            if got:
                return (mid, "FALSE-ALARM", "refactor raised %s" % sorted(got), sorted(got))
            return (mid, "silent", "", [])
    finally:
        shutil.rmtree(d, ignore_errors=True)


def baseline_failures(props, cfgs):
    facts = {c: engine.load_facts(c) for c in cfgs}
    out = {}
    for prop in props:
        mod, runs = engine.run_property(prop, "quick", facts)
        out[prop] = set(o.key for r in runs for o in r.obs if not o.ok)
    return out


def run(prop=None, ident=None, jobs=6, cfgs=("default", "nodefault"), quiet=False, focus=False):
    sys.path.insert(0, VERIF)
    muts, refs = load_catalogue()
    entries = []
    for (mid, props, edits, expect) in muts:
        entries.append(("mutant", mid, props, edits, expect))
    for (mid, props, edits) in refs:
        entries.append(("refactor", mid, props, edits, []))
    if prop:
        entries = [e for e in entries if prop in e[2]]
    if prop and focus:
        # per-property thorough tier: all mutants of the property, and the refactorings written for this property's anchors
        # plus the two generic sets (the complete catalogue is `python3 -m mqlint.selftest`)
        entries = [e for e in entries if e[0] == "mutant" or e[1].startswith(("RF3-%s-" % prop, "RF4-%s-" % prop, "RF5-%s-" % prop, "RF6-%s-" % prop, "RF-"))]
    if ident:
        entries = [e for e in entries if ident in e[1]]
    allprops = sorted(set(p for e in entries for p in e[2]))
    base = baseline_failures(allprops, cfgs)
    results = []
    # worker *processes*: the analyses are CPU-bound Python (threads would share one core)
    from concurrent.futures import ProcessPoolExecutor
    use_proc = jobs > 1 and not os.environ.get("MQ_SELFTEST_THREADS")
    if use_proc:
        import multiprocessing
        q = multiprocessing.Manager().Queue()
        for k in range(jobs):
            q.put(k)
        ex_ = ProcessPoolExecutor(max_workers=jobs, initializer=_init_worker, initargs=(q,))
    else:
        ex_ = ThreadPoolExecutor(max_workers=jobs)
    with ex_ as ex:
        futs = []
        for i, e in enumerate(entries):
            futs.append(ex.submit(run_one, e, i % jobs, cfgs, base))
        for fu in futs:
            r = fu.result()
            results.append(r)
            if not quiet:
                print("%-12s %-40s %s" % (r[1], r[0], r[2][:400]))
                sys.stdout.flush()
    return results


if __name__ == "__main__":
    ap = argparse.ArgumentParser()
    ap.add_argument("--prop")
    ap.add_argument("--id")
    ap.add_argument("-j", type=int, default=6)
    ap.add_argument("--cfgs", default="default,nodefault")
    a = ap.parse_args()
    t0 = time.time()
    res = run(a.prop, a.id, a.j, tuple(a.cfgs.split(",")))
    bad = [r for r in res if r[1] in ("MISSED", "FALSE-ALARM", "build-failed")]
    print("%d entries, %d bad, %.0fs" % (len(res), len(bad), time.time() - t0))
    sys.exit(1 if bad else 0)
