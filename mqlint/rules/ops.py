"""The enqueueing operations (publish / subscribe / unsubscribe): their pipeline sites resolved by role,
and the clause evaluators shared by several properties (each property reports under its own key)."""
from ..core import AnchorLost, chain, peel, phi_alts, is_call, walk, show
from . import roles, outq
from .roles import CONN, OUTBOUND, RUNTIME, SDATA, cached

ENQ_OPS = ("publish", "subscribe", "unsubscribe")


class Pipe:
    pass


def _closure_defs(t):
    out = []
    for x in walk(t):
        if x[0] == "agg" and x[1] in ("closure", "coroutine") and x[2]:
            out.append(x[2])
        if x[0] == "const" and x[4] and str(x[4]).startswith("closure:"):
            out.append(x[4][len("closure:"):])
    return out


@cached
def encoders(f):
    """Outbound methods that encode a packet into the arena (call MqttSerializer::encode*_with_offset on buf)"""
    out = []
    for b in f.bodies.values():
        if b.kind == "assoc_fn" and roles.self_is(b, OUTBOUND):
            for c in b.calls.values():
                if c.bb in b.reachable and c.path and "MqttSerializer" in c.path and "encode" in c.path:
                    out.append(b.name)
                    break
    out = sorted(set(out))
    if len(out) < 2:
        raise AnchorLost("arena-encoders", "found %s" % out)
    return [f.bodies[n] for n in out]


@cached
def size_check(f):
    """RuntimeState method comparing a length with maximum_packet_size"""
    return roles.method(f, RUNTIME, "require_packet_size")


@cached
def drain(f):
    b, code = roles.conn_methods(f).get("flush_outbound", (None, None))
    if b is None:
        raise AnchorLost("drain", "Connection::flush_outbound not found")
    # structural sanity: Ok is returned only on the None edge of next_step()
    ok = False
    for bb in code.switches:
        si = code.switch_info(bb)
        for alt in phi_alts(si["subject"]):
            if is_call(alt, "next_step") and "None" in si["edges"]:
                ok = True
    if not ok:
        raise AnchorLost("drain", "flush_outbound no longer switches on Outbound::next_step()")
    return b, code


@cached
def pipeline(f, op):
    cm = roles.conn_methods(f)
    if op not in cm:
        raise AnchorLost("op:" + op)
    b, code = cm[op]
    P = Pipe()
    P.op = op
    P.fn = b
    P.code = code
    dr, _ = drain(f)
    P.drains = sorted(outq.calls_to(f, code, dr), key=lambda c: c.bb)
    alloc = outq.allocator(f)
    P.alloc_sites = []          # blocks in `code` at which the allocator runs (directly or in a closure)
    P.alloc_calls = []
    for c in code.calls.values():
        if c.bb not in code.reachable:
            continue
        if outq.targets_fn(f, c, alloc):
            P.alloc_sites.append(c.bb)
            P.alloc_calls.append((code, c))
            continue
        for a in c.args:
            for d in _closure_defs(code.operand_term(a)):
                if d in f.bodies:
                    cb = f.bodies[d]
                    inner = outq.calls_to(f, cb, alloc)
                    if inner:
                        P.alloc_sites.append(c.bb)
                        for ic in inner:
                            P.alloc_calls.append((cb, ic))
    P.alloc_sites = sorted(set(P.alloc_sites))
    encs = encoders(f)
    P.encodes = sorted([c for c in code.calls.values() if c.bb in code.reachable
                        and any(outq.targets_fn(f, c, e) for e in encs)], key=lambda c: c.bb)
    sc = size_check(f)
    P.sizechecks = sorted(outq.calls_to(f, code, sc), key=lambda c: c.bb)
    enq = outq.role_fn(f, "enqueue")
    P.retains = sorted(outq.calls_to(f, code, enq), key=lambda c: c.bb)
    P.quota_stores = []
    for (bb, j, dst, rv, s) in code.stores():
        if bb not in code.reachable:
            continue
        for e in dst["proj"]:
            if isinstance(e, dict) and e.get("name") == "send_quota" and e.get("of") == RUNTIME:
                P.quota_stores.append((bb, j, code.rvalue_term(rv), s["span"]))
    P.op_news = [c for c in code.calls.values() if c.bb in code.reachable and c.is_("mqtt_client::Op::new")]
    P.io_sites = [c for c in code.calls.values() if c.bb in code.reachable and f.call_does_io(c)]
    return P


def cont_edges(code, call):
    """Continue edges of `?` applied to the (awaited) result of `call`"""
    res, qs = roles.awaited_result_switches(code, call)
    cont = [q["cont"] for q in qs if q["cont"][1] is not None]
    brk = [q["brk"] for q in qs if q["brk"][1] is not None]
    # an explicit `match result { Ok(..) => .., Err(e) => return Err(e) }` reads the same as `?`
    for si in res:
        if si["enum"] in ("core::result::Result", "core::option::Option"):
            okl = "Ok" if si["enum"].endswith("Result") else "Some"
            erl = "Err" if si["enum"].endswith("Result") else "None"
            if si["edges"].get(okl) is not None:
                cont.append((si["bb"], si["edges"][okl]))
            if si["edges"].get(erl) is not None:
                brk.append((si["bb"], si["edges"][erl]))
    return cont, brk


def first(lst, what, op):
    if not lst:
        raise AnchorLost("%s-in-%s" % (what, op))
    return lst[0]


# ---- shared clause evaluators --------------------------------------------------------------------

def clause_enqueue_before_write(R, prefix, op):
    """DOM(retain:Continue -> every does_io call after the encode) and AWAIT-FREE(encode .. retain)"""
    f = R.f
    P = pipeline(f, op)
    code = P.code
    R.touch(code)
    enc = first(P.encodes, "encode", op)
    ret = first(P.retains, "retain", op)
    conts, _ = cont_edges(code, ret)
    if not conts:
        R.ob("%s/%s/retain-checked" % (prefix, op), False,
             "the result of the enqueue (`%s`) in %s must be checked with `?` before anything is written" % (ret.name(), op),
             where=ret.span)
        return
    after_enc = code.after(enc.bb)
    ios = [c for c in P.io_sites if c.bb in after_enc]
    bad = None
    for c in ios:
        ok, off = code.must_pass([enc.target], [c.bb], via_edges=conts)
        if not ok:
            bad = c
            break
    R.ob("%s/%s/enqueue-before-write" % (prefix, op), bad is None and bool(ios),
         "in %s every transport-reaching call after the packet was encoded into the arena must be dominated by the "
         "success edge of the enqueue (`%s`): an accepted request is retained before its first byte is written%s"
         % (op, ret.name(), "" if bad is None else "; `%s` is reachable without it" % bad.path),
         where=(bad.span if bad else ret.span))
    # await-free between encode and the enqueue's success edge
    region = code.between([enc.target], [ret.bb])
    ys = sorted(region & code.yield_blocks())
    R.ob("%s/%s/enqueue-atomic" % (prefix, op), not ys,
         "no await point between encoding the packet and enqueueing it in %s (a cancellation there would leave "
         "an encoded but unaccounted packet)%s" % (op, "" if not ys else ": yield at %s" % code.line(ys[0])),
         where=(code.line(ys[0]) if ys else enc.span))
    return P


def clause_drain_before_alloc(R, prefix, op):
    """DOM(drain:Continue -> allocator)"""
    f = R.f
    P = pipeline(f, op)
    code = P.code
    if not P.drains or not P.alloc_sites:
        R.ob("%s/%s" % (prefix, op), False, "no drain call or no identifier allocation found in %s" % op, where=P.fn.span)
        return
    edges = []
    for d in P.drains:
        c, _ = cont_edges(code, d)
        edges += c
    ok, off = code.must_pass([0], P.alloc_sites, via_edges=edges)
    R.ob("%s/%s" % (prefix, op), ok,
         "in %s the identifier of a new packet is allocated only after pending outbound work (replay included) was "
         "drained successfully" % op, where=code.line(P.alloc_sites[0]))
