"""C01 — the outbound byte stream is whole, well-formed MQTT 5 packets (structural clauses)."""
from ..core import AnchorLost, chain, peel, phi_alts, is_call, walk, show, IO_WRITE, same_shape
from .. import paths, valueset, oracle
from . import roles, outq, ops
from .roles import CONN, OUTBOUND, SESSION
from .c11 import ordinal_keys, site_id

EXPLANATION = (
    "Static clauses of C01 on mir_built: (drain) must-dataflow DRAINED at every direct transport write of a public "
    "operation (gen: success edge of the awaited drain; kill: any call that reaches the transport); (flags) fixed-header "
    "table: MESSAGE_TYPE and the value set of fixed_header_flags() of every ControlPacket impl and of PublishHeader "
    "against MQTT 5 Table 2-2, the composition (type<<4)|(flags&15) in finalize, the arguments finalize is called "
    "with, and the in-place DUP patch applied to every packet kind that can be retained; (replay) the re-arm function "
    "restarts all three queues from byte 0; (first/last) CONNECT is the first I/O of the handshake and nothing can be "
    "written after a DISCONNECT without passing the latch; (len) remaining length is wired from index-5 and the "
    "returned slice ends at index; (class) decision tables of the fresh / in-progress classification; (priority, "
    "opportunistic) in-progress entries are served first. Decides these clauses, not the byte stream itself."
)
ASSUMPTIONS = ["value sets of flag expressions are folded over the declared ranges of their fields (bool, fieldless enums) "
               "and the constants at all construction sites outside the `fuzzing` module"]


def kind_of(self_ty):
    s = self_ty.split("<")[0]
    return s.rsplit("::", 1)[-1]


def does_write(f):
    return f.summary("does_write", lambda b: any(c.path == IO_WRITE and c.bb in b.reachable for c in b.calls.values()))


def write_sites(f, code):
    dw = does_write(f)
    out = []
    for c in code.calls.values():
        if c.bb not in code.reachable:
            continue
        if c.path == IO_WRITE:
            out.append(c)
            continue
        for t in f.call_targets(c):
            tb = f.bodies[t]
            if t in dw and tb.kind in ("fn", "assoc_fn") and not roles.self_is(tb, CONN):
                out.append(c)
                break
    return out


def rule_drain(R):
    f = R.f
    dr, _ = ops.drain(f)
    n = 0
    for name, (b, code) in sorted(roles.public_ops(f).items()):
        sites = write_sites(f, code)
        if not sites:
            continue
        R.touch(code)
        gen = []
        for d in outq.calls_to(f, code, dr):
            c, _ = ops.cont_edges(code, d)
            gen += c
        IN = paths.must_dataflow(code, gen, lambda bb: (bb in code.calls and f.call_does_io(code.calls[bb])))
        for c, k in ordinal_keys(sites):
            n += 1
            ok = IN.get(c.bb, False)
            R.ob("drain/%s/%s" % (name, k), ok,
                 "the direct transport write `%s` in Connection::%s must be preceded on every path by a successful "
                 "drain of pending outbound work with no other transport activity in between: a cancel-safe operation "
                 "may have left a queued packet partially written, and this write would start a packet inside it"
                 % (c.name(), name), where=c.span)
    R.floor("drain", n, 2, "direct transport writes in public operations")


def retained_kinds(f):
    kinds = {}
    for op in ops.ENQ_OPS:
        P = ops.pipeline(f, op)
        for e in P.encodes:
            # only encodes whose result is retained
            if not P.retains:
                continue
            tg = f.call_targets(e)
            nm = f.bodies[tg[0]].fn_name if tg else e.name()
            pk = [g for g in e.gargs if g.startswith("packets::")]
            if pk:
                kinds[kind_of(pk[0])] = (op, e)
            elif "publish" in nm:
                kinds["Publish"] = (op, e)
            else:
                kinds["?" + nm] = (op, e)
    return kinds


def flag_env(f, adt):
    env = {}
    a = f.adts.get(adt)
    if not a:
        return env
    for fl in a["variants"][0]["fields"]:
        if fl["ty"] == "bool":
            vals, n = valueset.construction_values(f, adt, fl["name"])
            if vals is not None:
                env[(adt, fl["name"])] = vals
    return env


def rule_flags(R):
    f = R.f
    impls = [im for im in f.impls if im["trait"] == "wire::ControlPacket"]
    if len(impls) < 9:
        raise AnchorLost("ControlPacket-impls", "found %d" % len(impls))
    mt = f.adts.get("wire::MessageType")
    if not mt:
        raise AnchorLost("MessageType")
    for v in mt["variants"]:
        want = oracle.PACKET_TYPE.get(v["name"])
        R.ob("flags/message-type/%s" % v["name"], want == v["discr"],
             "MessageType::%s must have the MQTT 5 control packet type value %s (has %s) [2.1.2]" % (v["name"], want, v["discr"]))
    default_flags = f.bodies.get("wire::ControlPacket::fixed_header_flags")
    flagsets = {}
    seen = set()
    for im in impls:
        kind = kind_of(im["self_ty"])
        seen.add(kind)
        want = oracle.PACKET_TYPE.get(kind)
        R.ob("flags/type/%s" % kind, im["consts"].get("MESSAGE_TYPE") == want,
             "the ControlPacket impl for %s must carry MESSAGE_TYPE %s (has %s) [2.1.2]" % (kind, want, im["consts"].get("MESSAGE_TYPE")),
             where=im["span"])
        m = im["methods"].get("fixed_header_flags")
        fb = f.bodies.get(m) if m else default_flags
        if fb is None:
            R.ob("flags/value/%s" % kind, False, "no body for fixed_header_flags of %s" % kind, where=im["span"])
            continue
        R.touch(fb)
        adt = im["self_ty"].split("<")[0]
        env = flag_env(f, adt)
        vs = valueset.evaluate_fn(f, fb, env)
        if vs is not None:
            vs = set(v & 0x0F for v in vs)
        flagsets[kind] = vs
        legal = oracle.legal_flags(kind)
        ok = vs is not None and vs <= legal
        if kind in oracle.CLIENT_SENT:
            R.ob("flags/value/%s" % kind, ok,
                 "fixed-header flags of %s must stay within %s [MQTT 5 Table 2-2]; the expression `%s` over all "
                 "construction sites yields %s" % (kind, sorted(legal), show(fb.local_term(0)), sorted(vs) if vs is not None else "unknown"),
                 where=fb.span)
    for kind in oracle.CLIENT_SENT:
        if kind != "Publish":
            R.ob("flags/impl/%s" % kind, kind in seen, "client packet %s has a ControlPacket impl" % kind)
    # PUBLISH flags
    pf = [b for b in f.bodies.values() if b.fn_name == "fixed_header_flags" and b.self_ty and b.self_ty.startswith("packets::PublishHeader")]
    if len(pf) != 1:
        raise AnchorLost("PublishHeader::fixed_header_flags")
    pvs = valueset.evaluate_fn(f, pf[0], flag_env(f, "packets::PublishHeader"))
    if pvs is not None:
        pvs = set(v & 0x0F for v in pvs)
    flagsets["Publish"] = pvs
    R.ob("flags/value/Publish", pvs is not None and pvs <= oracle.legal_flags("Publish"),
         "fixed-header flags of PUBLISH must never encode QoS 3 (value set %s)" % (sorted(pvs) if pvs is not None else "unknown"),
         where=pf[0].span)

    # composition in finalize and its call sites
    fin = [b for b in f.bodies.values() if b.kind == "assoc_fn" and b.fn_name == "finalize" and b.self_ty and "MqttSerializer" in b.self_ty]
    if len(fin) != 1:
        raise AnchorLost("MqttSerializer::finalize")
    fin = fin[0]
    R.touch(fin)
    hdr = None
    for (bb, j, dst, rv, s) in fin.stores():
        t = fin.place_term(dst)
        if t[0] == "index":
            hdr = (fin.rvalue_term(rv), t, s["span"])
    ok = False
    if hdr:
        v = hdr[0]
        if v[0] == "bin" and v[1] == "BitOr":
            a, b2 = v[2], v[3]
            def is_typ(x):
                return (x[0] == "bin" and x[1] == "Shl" and x[3][0] == "const" and x[3][2] == 4
                        and any(y == ("param", "typ") for y in walk(x[2])))
            def is_flags(x):
                return (x[0] == "bin" and x[1] == "BitAnd" and {x[2], x[3]} >= {("param", "flags")}
                        and any(y[0] == "const" and y[2] == 15 for y in (x[2], x[3])))
            ok = (is_typ(a) and is_flags(b2)) or (is_typ(b2) and is_flags(a))
    R.ob("flags/compose", ok,
         "the first header byte is (type << 4) | (flags & 0x0F) (found %s)" % (show(hdr[0]) if hdr else "no indexed store"),
         where=hdr[2] if hdr else fin.span)
    ncall = 0
    for b in f.bodies.values():
        if f.in_fuzzing(b):
            continue
        for c in outq.calls_to(f, b, fin):
            ncall += 1
            typ = b.operand_term(c.args[1])
            fl = b.operand_term(c.args[2])
            okc = False
            what = ""
            if typ[0] == "const" and typ[3] and typ[3].endswith("MESSAGE_TYPE"):
                # generic encoder: flags must be the trait method on the same packet
                okc = is_call(fl, "ControlPacket::fixed_header_flags") and chain(fl[3][0])[0] == ("param", "packet")
                what = "generic: T::MESSAGE_TYPE with packet.fixed_header_flags()"
            elif typ[0] == "agg" and typ[2] == "wire::MessageType":
                okc = typ[3] == "Publish" and is_call(fl, "fixed_header_flags") and "PublishHeader" in (fl[4] or "")
                what = "MessageType::%s with %s" % (typ[3], show(fl))
            R.ob("flags/finalize-args/%s" % b.fn_name, okc,
                 "finalize must be given the packet's own type and flags (%s)" % what, where=c.span)
    R.floor("flags/finalize-args", ncall, 2, "call sites of finalize")

    # the in-place DUP patch on every retained kind
    patches = outq.dup_patch_fns(f)
    kinds = retained_kinds(f)
    for (pb, bb, place, val, span) in patches:
        R.touch(pb)
        pv = None
        if val[0] == "bin" and val[1] == "BitOr":
            for side in (val[2], val[3]):
                c = valueset.evaluate(f, side)
                if c is not None and len(c) == 1:
                    pv = list(c)[0]
        for kind, (op, e) in sorted(kinds.items()):
            base = flagsets.get(kind)
            ok = pv is not None and base is not None and set((x | pv) & 0x0F for x in base) <= oracle.legal_flags(kind)
            R.ob("flags/dup-patch/%s" % kind, ok,
                 "the in-place header patch `|= %s` in %s is applied to every retained packet; for a retained %s (from "
                 "Connection::%s) it yields flags %s, legal are %s"
                 % (pv, pb.fn_name, kind, op, sorted(set((x | (pv or 0)) & 0x0F for x in (base or []))), sorted(oracle.legal_flags(kind))),
                 where=span)
    R.floor("flags/dup-patch", len(kinds), 3, "packet kinds that can be retained")


def rule_replay(R):
    f = R.f
    re = outq.rearm_fns(f)
    _, ccode = roles.session_connect(f)
    called = [n for n in re if outq.calls_to(f, ccode, f.bodies[n])]
    R.ob("replay/connect-rearms", len(called) >= 1, "Session::connect re-arms send progress before the handshake",
         where=ccode.span)
    sites = outq.rearm_sites(f)
    for q in outq.QUEUES:
        how = [sites[n].get(q) for n in called if sites[n].get(q)]
        R.ob("replay/%s" % q, "always" in how,
             "on a new transport every entry of `%s` restarts from byte 0 (state Write{written: 0}), unconditionally: "
             "a packet that was partially written on the old transport must not be continued in the middle%s"
             % (q, "" if "always" in how else (" (the re-arm is conditional)" if how else " (no re-arm found)")))


def rule_first_last(R):
    f = R.f
    call, hb, hcode = roles.handshake(f)
    R.touch(hcode)
    cwr = roles.connect_write(f)
    ios = cwr["ios"]
    R.ob("first/connect-write", cwr["count"] == 1 and bool(cwr["calls"]), "the handshake writes exactly one CONNECT (found %d)" % cwr["count"],
         where=hb.span)
    if cwr["count"] == 1 and cwr["calls"]:
        conts = cwr["conts"]
        mine = set(c.bb for c in cwr["calls"])
        others = [c for c in ios if c.bb not in mine]
        bad = None
        for o in others:
            ok, _ = hcode.must_pass([0], [o.bb], via_edges=conts)
            if not ok:
                bad = o
        R.ob("first/connect-first", bad is None and bool(conts),
             "every other transport access of the handshake is dominated by the successful write of CONNECT%s"
             % ("" if bad is None else "; `%s` is not" % bad.path), where=(bad.span if bad else cwr["span"]))
    _, ccode = roles.session_connect(f)
    pre = [c for c in ccode.calls.values() if c.bb in ccode.reachable and f.call_does_io(c) and c.bb != call.bb
           and not ccode.must_pass([0], [c.bb], via_blocks=[call.bb])[0]]
    R.ob("first/no-io-before-handshake", not pre, "Session::connect performs no transport access before the handshake",
         where=ccode.span)
    # nothing follows a DISCONNECT: in disconnect_with every path from the first write to a return passes the latch
    cm = roles.conn_methods(f)
    b, code = cm["disconnect_with"]
    ws = write_sites(f, code)
    latch_blocks = [bb for bb, c in code.calls.items() if bb in code.reachable and roles.call_latches(f, c)]
    n = 0
    for c, k in ordinal_keys(ws):
        n += 1
        ok, off = code.must_pass([c.bb], code.returns, via_blocks=latch_blocks)
        R.ob("last/%s" % k, ok and bool(latch_blocks),
             "after the DISCONNECT write in disconnect_with every path to a return latches the handle dead (so, with "
             "C11, nothing can follow a DISCONNECT)", where=c.span)
    R.floor("last", n, 1, "transport writes in disconnect_with")


def rule_len(R):
    f = R.f
    fin = [b for b in f.bodies.values() if b.kind == "assoc_fn" and b.fn_name == "finalize" and b.self_ty and "MqttSerializer" in b.self_ty][0]
    vc = fin.find_calls("write_mqtt_u32_varint")
    ok = False
    if len(vc) == 1:
        a = fin.operand_term(vc[0].args[0])
        for x in walk(a):
            if is_call(x, "checked_sub") and len(x[3]) == 2:
                r, n = chain(x[3][0])
                c = x[3][1]
                if r == ("param", "self") and n == ["index"] and c[0] == "const" and c[3] and c[3].endswith("MAX_FIXED_HEADER_SIZE"):
                    ok = True
    R.ob("len/remaining-length", ok,
         "the remaining length written into the fixed header is self.index - MAX_FIXED_HEADER_SIZE (the bytes actually "
         "encoded behind the reserved header)", where=vc[0].span if vc else fin.span)
    # returned slice: buf[offset..index], offset = position of the header byte
    ret = fin.local_term(0)
    hdr_idx = None
    for (bb, j, dst, rv, s) in fin.stores():
        t = fin.place_term(dst)
        if t[0] == "index":
            hdr_idx = t[2]
    ok2 = False
    for x in walk(ret):
        if is_call(x, "Index::index", "index::<impl core::ops::Index<I> for [T]>::index") and len(x[3]) == 2:
            rng = peel(x[3][1])
            if rng[0] == "agg" and rng[4] == ["start", "end"]:
                start, end = rng[5]
                r, n = chain(end)
                if r == ("param", "self") and n == ["index"] and hdr_idx is not None and same_shape(start, hdr_idx):
                    ok2 = True
    R.ob("len/slice", ok2,
         "the encoded packet returned by finalize is buf[header position .. index]: it starts at the header byte just "
         "written and ends at the last encoded byte", where=fin.span)


INF = 1 << 62


def _interval(op, c, truth, const_left=False):
    """interval of natural numbers x for which `x op c` (or `c op x` when const_left) has the given truth"""
    if const_left:
        op = {"Le": "Ge", "Lt": "Gt", "Ge": "Le", "Gt": "Lt", "Eq": "Eq", "Ne": "Ne"}[op]
    if not truth:
        op = {"Le": "Gt", "Lt": "Ge", "Ge": "Lt", "Gt": "Le", "Eq": "Ne", "Ne": "Eq"}[op]
    if op == "Eq":
        return (c, c)
    if op == "Ne":
        return (1, INF) if c == 0 else None
    if op == "Ge":
        return (c, INF)
    if op == "Gt":
        return (c + 1, INF)
    if op == "Le":
        return (0, c)
    if op == "Lt":
        return (0, c - 1)
    return None


def _cmp_of(t, root_name):
    """(field names, op, const, const_left) of a comparison between a field of the root and a constant"""
    if not (isinstance(t, tuple) and t[0] == "bin" and t[1] in ("Le", "Lt", "Ge", "Gt", "Eq", "Ne")):
        return None
    a, b = t[2], t[3]
    ra, na = chain(a)
    rb, nb = chain(b)
    if ra == ("param", root_name) and b[0] == "const" and b[2] is not None:
        return tuple(na), t[1], b[2], False
    if rb == ("param", root_name) and a[0] == "const" and a[2] is not None:
        return tuple(nb), t[1], a[2], True
    return None


def _cmp_hook(root_name):
    def hook(body, bb, si):
        subj = si["subject"]
        r, n = chain(subj)
        if r == ("param", root_name) and n and not si["enum"] and subj[0] != "bin":
            edges = {}
            vals = []
            for v, t in body.switches[bb]["arms"]:
                edges[("iv", (v, v))] = t
                vals.append(v)
            if vals == [0]:
                edges[("iv", (1, INF))] = body.switches[bb]["otherwise"]
            else:
                edges[("iv", None)] = body.switches[bb]["otherwise"]
            return ("num", tuple(n), bb), edges
        c = _cmp_of(subj, root_name)
        if c and True in si["edges"] and False in si["edges"]:
            names, op, k, left = c
            return ("num", names, bb), {("iv", _interval(op, k, True, left)): si["edges"][True],
                                        ("iv", _interval(op, k, False, left)): si["edges"][False]}
        return None
    return hook


def decision_table(f, body, enum_adt, root_name="self"):
    """rows (variant, field, interval, value) of a loop-free boolean function over an enum parameter with one
    numeric field; value is 0/1 or '?'.  Built from path constraints only (no evaluation)."""
    variants = [v["name"] for v in f.adts[enum_adt]["variants"]]
    rows = set()
    for leaf in paths.explore(body, 0, lambda t: t == ("param", root_name), lambda b, bb: False,
                              switch_hook=_cmp_hook(root_name)):
        if leaf["kind"] != "return":
            continue
        val = None
        for bb in leaf["path"]:
            for s in body.blocks[bb]["stmts"]:
                if s["k"] == "assign" and s["dst"]["l"] == 0 and not s["dst"]["proj"]:
                    val = body.rvalue_term(s["rv"])
            c = body.calls.get(bb)
            if c is not None and c.dst["l"] == 0 and not c.dst["proj"]:
                val = body.call_term(bb)
        vs = variants
        iv = (0, INF)
        known = True
        for k, v in leaf["cons"].items():
            if isinstance(k, tuple) and k and k[0] == "num":
                x = v[1]
                if x is None:
                    known = False
                else:
                    iv = (max(iv[0], x[0]), min(iv[1], x[1]))
            elif isinstance(v, str):
                vs = [v]
            elif isinstance(v, tuple) and v[0] == "not":
                vs = [x for x in vs if x not in v[1]]
        if iv[0] > iv[1]:
            continue  # infeasible
        outs = []
        if val is not None and val[0] == "const":
            outs.append((iv, val[2]))
        else:
            c = _cmp_of(val, root_name) if val is not None else None
            if c:
                names, op, k, left = c
                for truth in (True, False):
                    x = _interval(op, k, truth, left)
                    if x is None:
                        known = False
                        continue
                    j = (max(iv[0], x[0]), min(iv[1], x[1]))
                    if j[0] <= j[1]:
                        outs.append((j, 1 if truth else 0))
            else:
                known = False
        for v in vs:
            if not known:
                rows.add((v, None, "?"))
            for (j, o) in outs:
                rows.add((v, j, o))
    return rows


def true_region(rows, numeric_variants):
    """normalise: {variant: interval or 'all'} for rows with value 1; None if anything is unknown"""
    if any(r[2] == "?" for r in rows):
        return None
    out = {}
    for (v, iv, o) in rows:
        if o != 1:
            continue
        if v not in numeric_variants:
            out[v] = "all"
        else:
            prev = out.get(v)
            if prev is None:
                out[v] = iv
            elif prev != "all":
                # merge adjacent / overlapping intervals
                lo, hi = min(prev[0], iv[0]), max(prev[1], iv[1])
                if max(prev[0], iv[0]) <= min(prev[1], iv[1]) + 1:
                    out[v] = (lo, hi)
                else:
                    return None
    return out


def _eq_const_region(f, body, st):
    """`self == CONST` with a derived (structural) PartialEq: the true region is exactly the constant's value"""
    t = peel(body.local_term(0))
    if not (is_call(t, "core::cmp::PartialEq::eq") and len(t[3]) == 2):
        return None
    eq = None
    for im in f.impls:
        if im["trait"] == "core::cmp::PartialEq" and im["self_ty"] == st:
            eq = f.bodies.get(im["methods"].get("eq"))
    if eq is None or not all((bl.get("exp") or "").startswith("macro:PartialEq") for bl in eq.blocks if not bl["cleanup"]):
        return None  # a hand-written comparison can mean anything
    a, b = peel(t[3][0]), peel(t[3][1])
    if a == ("param", "self"):
        k = b
    elif b == ("param", "self"):
        k = a
    else:
        return None
    if not (k[0] == "agg" and k[1] == "adt" and k[2] == st):
        return None
    if not k[5]:
        return {k[3]: "all"}
    if len(k[5]) == 1 and k[5][0][0] == "const" and k[5][0][2] is not None:
        return {k[3]: (k[5][0][2], k[5][0][2])}
    return None


def rule_class(R):
    f = R.f
    st = "mqtt_client::outbound::SendState"
    fresh = roles.method(f, st, "is_fresh")
    prog = roles.method(f, st, "is_in_progress")
    R.touch(fresh)
    R.touch(prog)
    tf = true_region(decision_table(f, fresh, st), {"Write"}) or _eq_const_region(f, fresh, st)
    tp = true_region(decision_table(f, prog, st), {"Write"}) or _eq_const_region(f, prog, st)
    R.ob("class/fresh", tf == {"Write": (0, 0)},
         "an entry is fresh exactly when it is Write{written: 0} (extracted true-region: %s)" % (tf,), where=fresh.span)
    R.ob("class/in-progress", tp == {"Write": (1, INF), "Flush": "all"},
         "an entry is in progress exactly when it is Write{written >= 1} or Flush (extracted true-region: %s)" % (tp,),
         where=prog.span)
    mp = _selector(f)
    if mp is None:
        R.ob("class/selector", True, "no pass selector: each scan of next_step names its classifier (is_in_progress / is_fresh) directly")
        return
    ok = False
    for bb in mp.switches:
        si = mp.switch_info(bb)
        if si["subject"] == ("param", "in_progress"):
            t, fl = si["edges"].get(True), si["edges"].get(False)
            ct = mp.calls.get(t)
            cf = mp.calls.get(fl)
            ok = bool(ct and cf and outq.targets_fn(f, ct, prog) and outq.targets_fn(f, cf, fresh))
    R.ob("class/selector", ok, "matches_priority(true) means in-progress, matches_priority(false) means fresh", where=mp.span)


ST = "mqtt_client::outbound::SendState"


def _selector(f):
    try:
        return roles.method(f, ST, "matches_priority")
    except AnchorLost:
        return None


def scan_gates(f, ns):
    """The tests by which next_step selects an entry: boolean switches on `is_in_progress(state)` (class P),
    `is_fresh(state)` (class F) or `matches_priority(state, flag)` (P / F for a constant flag, 'flag' for the pass
    variable of an outer loop).  -> list of dict(bb, true, false, cls, state, call)"""
    fresh = roles.method(f, ST, "is_fresh")
    prog = roles.method(f, ST, "is_in_progress")
    mp = _selector(f)
    gates = []
    for c in ns.calls.values():
        if c.bb not in ns.reachable:
            continue
        if outq.targets_fn(f, c, prog):
            cls = "P"
        elif outq.targets_fn(f, c, fresh):
            cls = "F"
        elif mp is not None and outq.targets_fn(f, c, mp):
            fl = peel(ns.operand_term(c.args[1]))
            cls = ("P" if fl[2] == 1 else "F") if fl[0] == "const" and fl[1] == "bool" and fl[2] in (0, 1) else "flag"
        else:
            continue
        for si in ns.result_switches(lambda x, c=c: peel(x)[0] == "call" and peel(x)[1] == c.bb):
            t, fl_ = si["edges"].get(True), si["edges"].get(False)
            if t is not None and fl_ is not None:
                gates.append({"bb": si["bb"], "true": t, "false": fl_, "cls": cls, "state": peel(ns.operand_term(c.args[0])), "call": c})
    # one test fed by both classifiers (`match pass { InProgress => s.is_in_progress(), Fresh => s.is_fresh() }` folded into
    # the scan): the pass variable selects the class
    by_bb = {}
    for g in gates:
        by_bb.setdefault(g["bb"], []).append(g)
    merged = []
    for bb, gs in by_bb.items():
        if len(gs) > 1 and set(g["cls"] for g in gs) == {"P", "F"} and all(same_shape(g["state"], gs[0]["state"]) for g in gs):
            g0 = dict(gs[0])
            g0["cls"] = "flag"
            g0["selector_calls"] = {g["cls"]: g["call"] for g in gs}
            merged.append(g0)
        else:
            merged.extend(gs)
    return merged


def _gate_loop(ns, g):
    """(queue, next-call block, switch block on the iterator's result, its None target, its Some target) of the scan
    loop the gate's entry comes from"""
    for x in walk(g["state"]):
        if isinstance(x, tuple) and x[0] == "call" and x[1] in ns.calls and ns.calls[x[1]].is_("core::iter::Iterator::next"):
            c = ns.calls[x[1]]
            q = None
            for y in walk(ns.operand_term(c.args[0])):
                if isinstance(y, tuple) and y[0] == "field" and y[2] in outq.QUEUES:
                    q = y[2]
            for sb in ns.switches:
                si = ns.switch_info(sb)
                if si["enum"] == "core::option::Option" and any(a[0] == "call" and a[1] == c.bb for a in phi_alts(peel(si["subject"]))) \
                        and si["edges"].get("None") is not None and si["edges"].get("Some") is not None:
                    return q, c.bb, sb, si["edges"]["None"], si["edges"]["Some"]
    return None


def gated_constructions(f, ns):
    """[(kind, block, span, gate or None)] for every OutboundStep built in next_step: the gate whose true edge every
    path to the construction takes and whose classified state is the state the step is built from"""
    gates = scan_gates(f, ns)
    out = []
    for sc in outq.step_constructions(f, ns):
        kind, bb, fl = sc["kind"], sc["bb"], sc["fields"]
        found = None
        for g in gates:
            if ns.must_pass([0], [bb], via_edges=[(g["bb"], g["true"])])[0] and "state" in fl and _same_state(peel(fl["state"]), g["state"]):
                found = g
                break
        out.append((kind, bb, sc["span"], found))
    return out


def _same_state(a, b):
    """two readings of `<entry>.state` denote the same entry's state (the type name recorded with the field may differ
    when one reading goes through a copy of the entry)"""
    if same_shape(a, b):
        return True
    if isinstance(a, tuple) and isinstance(b, tuple) and a[0] == "field" and b[0] == "field" and a[2] == b[2] == "state":
        return same_shape(peel(a[1]), peel(b[1]))
    return False


def clause_steps_gated(R, prefix):
    """every step next_step can hand out was selected by the pass classifier (`matches_priority(entry.state, pass)`, or
    is_in_progress / is_fresh named directly): a queue that is served outside the two-pass scheme lets a fresh packet
    start while another one is half written -- the byte stream would interleave two packets"""
    f = R.f
    ns = roles.method(f, OUTBOUND, "next_step")
    cons = gated_constructions(f, ns)
    for kind, bb, span, g in cons:
        R.ob("%s/%s" % (prefix, kind), g is not None,
             "an OutboundStep::%s is handed out only for an entry that the pass classifier selected (matches_priority on that "
             "entry's state): in-progress packets of every queue are completed before any fresh packet is started" % kind,
             where=span)
    R.floor(prefix, len(set(k for k, _, _, _ in cons)), 3, "OutboundStep kinds built in next_step")


def _priority_flag_form(R, ns):
    arr = None
    for bb, j, s in ns.assigns():
        rv = s["rv"]
        if "agg" in rv and rv["agg"]["kind"] == "array":
            t = ns.rvalue_term(rv)
            if len(t[5]) == 2 and all(x[0] == "const" and x[1] == "bool" for x in t[5]):
                arr = (t, s["span"])
    mp_calls = ns.find_calls("matches_priority")
    if arr is None or not mp_calls:
        if _priority_enum_flag_form(R, ns):
            return
        R.undecide("priority/in-progress-first", "next_step is no longer coded as a loop over a literal [bool; 2]")
        return
    ok = arr[0][5][0][2] == 1 and arr[0][5][1][2] == 0
    R.ob("priority/in-progress-first", ok,
         "next_step serves in-progress entries (pass 1) before fresh ones (pass 2): the literal pass order is %s"
         % [x[2] for x in arr[0][5]], where=arr[1])
    # within a pass the three queues are scanned; every scan passes the pass flag on
    n = 0
    for c in mp_calls:
        a = ns.operand_term(c.args[1])
        n += 1
        R.ob("priority/flag#%d" % n, any(x[0] == "agg" and x[1] == "array" for x in walk(a)),
             "the classifier receives the pass flag of the outer loop", where=c.span)


def _priority_enum_flag_form(R, ns):
    """`for pass in [Pass::InProgress, Pass::Fresh]` with the classifier chosen by a `match pass`: the literal order of the
    passes puts the variant that selects is_in_progress first, and every selection is made on the loop's pass value"""
    f = R.f
    gates = [g for g in scan_gates(f, ns) if g["cls"] == "flag" and g.get("selector_calls")]
    if not gates:
        return False
    arr = None
    for bb, j, s in ns.assigns():
        rv = s["rv"]
        if bb in ns.reachable and "agg" in rv and rv["agg"]["kind"] == "array":
            t = ns.rvalue_term(rv)
            if len(t[5]) == 2 and all(peel(x)[0] == "agg" and peel(x)[1] == "adt" and not peel(x)[5] for x in t[5]) \
                    and len(set(peel(x)[2] for x in t[5])) == 1:
                arr = ([peel(x)[3] for x in t[5]], peel(t[5][0])[2], s["span"])
    if arr is None:
        return False
    order, enum, span = arr
    ok = True
    why = ""
    for g in gates:
        # the switch on the pass value that sends control to one classifier call or the other
        mapping = {}
        for sb in ns.switches:
            if sb not in ns.reachable:
                continue
            si = ns.switch_info(sb)
            if si["enum"] != enum:
                continue
            if not any(isinstance(x, tuple) and x[0] == "agg" and x[1] == "array" for x in walk(si["subject"])):
                continue   # not the loop's pass value
            for lab, tgt in si["edges"].items():
                for cls, c in g["selector_calls"].items():
                    others = [t_ for l2, t_ in si["edges"].items() if l2 != lab] + ([si["otherwise"]] if si["otherwise"] not in si["edges"].values() else [])
                    if c.bb in ns.reach([tgt], avoid=[sb]) and not any(c.bb in ns.reach([o], avoid=[sb]) for o in others
                                                                       if o is not None and o != tgt and ns.blocks[o]["term"]["k"] != "unreachable"):
                        mapping[lab] = cls
        if len(mapping) != 2 or [mapping.get(v) for v in order] != ["P", "F"]:
            ok = False
            why = "pass order %s selects %s" % (order, [mapping.get(v) for v in order])
    R.ob("priority/in-progress-first", ok,
         "next_step serves in-progress entries (first pass) before fresh ones (second pass): the literal pass order is %s%s"
         % (order, (" — " + why) if why else ""), where=span)
    return True


def _priority_unrolled_form(R, ns, cons):
    """every scan names its class: a step for a fresh entry is built only after an in-progress scan of *each* queue ran
    to exhaustion (and such a scan hands out the first in-progress entry it meets)"""
    f = R.f
    pscans = {}
    for kind, bb, span, g in cons:
        if g is not None and g["cls"] == "P":
            lp = _gate_loop(ns, g)
            if lp is None or lp[0] is None:
                continue
            q, nbb, sb, none_t, some_t = lp
            # the scan cannot go on to the next element past an in-progress one
            if ns.must_pass([some_t], [nbb], via_edges=[(g["bb"], g["false"])])[0]:
                pscans.setdefault(q, []).append((sb, none_t))
    fresh_built = 0
    ok_all = True
    for kind, bb, span, g in cons:
        if g is None or g["cls"] != "F":
            continue
        fresh_built += 1
        missing = [q for q in outq.QUEUES
                   if not any(ns.must_pass([0], [bb], via_edges=[edge])[0] for edge in pscans.get(q, []))]
        ok_all = ok_all and not missing
        R.ob("priority/in-progress-first/%s" % kind, not missing,
             "a fresh %s step is handed out only after the in-progress scans of all three queues found nothing "
             "(no exhausted in-progress scan of %s on the way)" % (kind, missing), where=span)
    R.ob("priority/in-progress-first", ok_all and fresh_built >= 3 and set(pscans) == set(outq.QUEUES),
         "next_step serves in-progress entries of every queue before any fresh one: in-progress scans over %s, %d fresh "
         "constructions" % (sorted(pscans), fresh_built), where=ns.span)


def rule_priority(R):
    f = R.f
    clause_steps_gated(R, "priority/gated")
    ns = roles.method(f, OUTBOUND, "next_step")
    cons = gated_constructions(f, ns)
    classes = set(g["cls"] for _, _, _, g in cons if g is not None)
    if classes == {"flag"}:
        _priority_flag_form(R, ns)
    elif classes and classes <= {"P", "F"}:
        _priority_unrolled_form(R, ns, cons)
    else:
        R.undecide("priority/in-progress-first", "next_step mixes a pass flag with directly named classifiers, or no step is gated")


def rule_arena_order(R):
    from .c02 import clause_order
    clause_order(R, "replay/arena-order", ("retained",),
                 " -- retained packets are replayed from the arena after compaction, which copies them down in list order: a "
                 "list that is not in arena-offset order makes compaction overwrite packets that are still to be resent")


def rule_varint(R):
    """the Remaining Length and every Property Length are announced with Varint::encoded_len and written by the varint
    encoder: the two must agree for every value, or a packet announces a length it does not have (shared with C09)"""
    from .c09 import rule_varint as _r
    _r(R)


def rule_arena(R):
    """retained packets are sent from the transmit arena: the stream consists of whole packets only if those bytes are
    the bytes that were encoded (the clauses of C17: views start behind retained bytes, who writes the arena, compaction,
    offset/len wiring, `used`)"""
    from . import c17
    c17.rule_base(R)
    c17.rule_writers(R)
    c17.rule_compact(R)
    c17.rule_wire(R)
    c17.rule_used(R)


def rule_nonzero_id(R):
    """a PUBLISH (QoS>0), SUBSCRIBE or UNSUBSCRIBE with packet identifier 0 is malformed: the allocator never yields 0
    (shared with C07)"""
    from .c07 import clause_nonzero
    clause_nonzero(R, "id-nz")


def rule_shared_bits(R):
    """CONNECT flags, subscription options and PUBLISH flags bit by bit (a Will QoS of 3 or a reserved bit set is a malformed packet) -- C09's rule, evaluated here"""
    from .c09 import rule_bits as _r
    _r(R)


def rule_shared_wire_layout(R):
    """property block lengths, checked 16-bit length prefixes and the field order of every packet serializer (a packet whose fields are out of order or whose length prefix wrapped is not well-formed) -- C09's rules, evaluated here"""
    from . import c09
    c09.rule_props(R)
    c09.rule_block(R)
    c09.rule_len16(R)
    c09.rule_connect(R)
    c09.rule_prim(R)
    c09.rule_varint_encoder(R)


def rule_shared_qos_wiring(R):
    """the QoS bits of a PUBLISH header and the decision to allocate and write a packet identifier come from the same (effective) QoS: flags that say QoS 1/2 on a packet without identifier are malformed -- C19's rule"""
    from .c19 import rule_qos as _r
    _r(R)


def rule_shared_store(R):
    """only whole packets: a packet the transport accepted in part keeps its entry and resumes at the recorded offset; it is flushed / marked sent only once written + count >= len -- C13's rule"""
    from .c13 import rule_store as _r
    _r(R)


def run(R):
    R.rule("store", rule_shared_store)
    R.rule("qos-wiring", rule_shared_qos_wiring)
    R.rule("wire-layout", rule_shared_wire_layout)
    R.rule("bits", rule_shared_bits)
    R.rule("id-nz", rule_nonzero_id)
    R.rule("varint", rule_varint)
    R.rule("arena", rule_arena)
    R.rule("arena-order", rule_arena_order)
    R.rule("drain", rule_drain)
    R.rule("flags", rule_flags)
    R.rule("replay", rule_replay)
    R.rule("first-last", rule_first_last)
    R.rule("len", rule_len)
    R.rule("class", rule_class)
    R.rule("priority", rule_priority)
