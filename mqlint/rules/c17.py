"""C17 — transmit arena: retained packets stay intact and capacity is fully recovered (structural clauses)."""
from ..core import AnchorLost, chain, peel, phi_alts, is_call, walk, show, same_shape, ELEM
from . import roles, outq, ops
from .roles import OUTBOUND

EXPLANATION = (
    "Static clauses of C17 on mir_built (who may hand out or write arena bytes, and from which base): (base) every "
    "mutable view of the arena that is handed out or passed to an encoder is buf[used..] where `used` is read after a "
    "compact() that dominates it, with nothing in between that changes `used` or the retained list; (writers) besides "
    "those views only compact (copy_within) and the DUP patch obtain mutable access to arena bytes, and nothing outside "
    "Outbound can; (patch) the only in-place store is buf[entry.offset] |= constant for entries of the retained list; "
    "(compact) entries are slid down in list order: copy_within(entry.offset .. entry.offset+entry.len, cursor), "
    "entry.offset = cursor, cursor += entry.len, used = cursor; (wire) the (offset, len) retained for a packet is the "
    "pair the encoder returned, and the bytes sent for a retained step are buf[offset .. offset+len] of that step; "
    "(used) the watermark is written only by new/clear (0), compact and the enqueue (max(used, offset+len)), and the free "
    "space computations depend on the retained entries only — so capacity is a function of the retained list and nothing "
    "can leak once entries are removed (C02.remove). compact()'s arithmetic on values is not decided."
)
ASSUMPTIONS = ["slice::copy_within handles overlapping ranges (memmove semantics, as documented)"]


def idx_calls(b, mut_only=True):
    out = []
    for c in b.calls.values():
        if c.bb in b.reachable and c.is_("IndexMut::index_mut", "index_mut") and c.args:
            t = b.operand_term(c.args[0])
            if any(x[0] == "field" and x[2] == "buf" and x[3] == OUTBOUND for x in walk(t)):
                out.append(c)
    return out


def rule_base(R):
    f = R.f
    compact = roles.method(f, OUTBOUND, "compact")
    n = 0
    for b in sorted(f.bodies.values(), key=lambda b: b.name):
        if f.in_fuzzing(b) or b.name == compact.name:
            continue
        for c in idx_calls(b):
            n += 1
            rng = peel(b.operand_term(c.args[1]))
            start = rng[5][0] if rng[0] == "agg" and rng[4] and rng[4][0] == "start" else None
            open_end = rng[0] == "agg" and rng[4] == ["start"]
            ok_start = start is not None and chain(start) == (("param", "self"), ["used"])
            cc = [x.bb for x in outq.calls_to(f, b, compact)]
            ok_dom = bool(cc) and b.must_pass([0], [c.bb], via_blocks=cc)[0]
            # nothing between the compact and the view changes `used` or `retained`
            between = b.between([b.calls[x].target for x in cc if b.calls[x].target is not None], [c.bb]) if cc else set()
            dirty = False
            for bb in between:
                if bb == c.bb:
                    continue
                for s in b.blocks[bb]["stmts"]:
                    if s["k"] == "assign" and any(isinstance(e, dict) and e.get("of") == OUTBOUND and e.get("name") in ("used", "retained") for e in s["dst"]["proj"]):
                        dirty = True
                c2 = b.calls.get(bb)
                if c2 is not None and c2.bb not in cc and any(t in roles.writes_state(f) for t in f.call_targets(c2)):
                    dirty = True
            R.ob("base/%s" % b.fn_name, ok_start and open_end and ok_dom and not dirty,
                 "%s hands out / encodes into buf[used..] with `used` read after a dominating compact() (so the view lies "
                 "behind every retained byte): start = %s, compact dominates = %s" % (b.fn_name, show(start) if start else None, ok_dom),
                 where=c.span)
    R.floor("base", n, 3, "mutable arena views")


def rule_writers(R):
    f = R.f
    compact = roles.method(f, OUTBOUND, "compact")
    views = set()
    for b in f.bodies.values():
        if not f.in_fuzzing(b) and idx_calls(b):
            views.add(b.name)
    patch = set(b.name for (b, bb, t, v, sp) in outq.dup_patch_fns(f))
    n = 0
    # every &mut use of Outbound.buf
    for (b, c, i) in f.mut_uses(OUTBOUND, "buf"):
        if f.in_fuzzing(b):
            continue
        n += 1
        m = outq.mname(c)
        ok = (b.name in views and m in ("index_mut",)) or (b.name == compact.name and m == "copy_within")
        R.ob("writers/%s/%s" % (b.fn_name, m), ok,
             "mutable access to the arena is limited to the encode views, compact's copy_within and the DUP patch "
             "(found `%s` in %s)" % (m, b.fn_name), where=c.span)
    # direct stores into arena bytes
    for b in f.bodies.values():
        if f.in_fuzzing(b):
            continue
        for (bb, j, dst, rv, s) in b.stores():
            if bb not in b.reachable:
                continue
            t = b.place_term(dst)
            if any(x[0] == "field" and x[2] == "buf" and x[3] == OUTBOUND for x in walk(t)) and t[0] in ("index", "deref", "field"):
                if t[0] == "field" and t[2] == "buf":
                    R.ob("writers/%s/rebind" % b.fn_name, b.fn_name == "new", "Outbound.buf is rebound in %s" % b.name, where=s["span"])
                elif t[0] == "index":
                    R.ob("writers/%s/store" % b.fn_name, b.name in patch, "arena byte stored in place in %s" % b.name, where=s["span"])
    R.floor("writers", n, 4, "mutable uses of the arena")
    # buf is private to Outbound: no function outside Outbound mentions the field
    outside = sorted(set(b.fn_name for b in f.bodies.values() if not f.in_fuzzing(b) and (OUTBOUND, "buf") in b.field_mentions()
                         and not roles.self_is(f.bodies.get(b.root, b), OUTBOUND)))
    R.ob("writers/encapsulated", not outside, "only Outbound's own methods touch the arena field (others: %s)" % outside)


def rule_patch(R):
    f = R.f
    ps = outq.dup_patch_fns(f)
    R.exact("patch/sites", len(ps), 1, "in-place stores into arena bytes")
    for (b, bb, place, val, span) in ps:
        idx = place[2]
        r, n = chain(idx, extra=ELEM)
        ok_idx = "retained" in n and n[-1] == "offset"
        ok_val = val[0] == "bin" and val[1] == "BitOr" and (same_shape(val[2], place) or same_shape(val[3], place))
        R.ob("patch/shape", ok_idx and ok_val,
             "the in-place patch is buf[entry.offset] |= constant for entries of the retained list (index %s, value %s)"
             % (show(idx), show(val)), where=span)


def cursor_shape(t):
    """canonical description of a running-offset value: {0, 'acc+len'} for `cursor = 0; loop { cursor += entry.len }`,
    whatever local (or accumulator pair) carries it.  Terms of loop-carried values depend on where the cycle is cut, so
    two readings of the same variable are compared by this shape rather than literally."""
    out = set()
    for alt in phi_alts(t):
        a = peel(alt)
        if a[0] == "field" and a[1][0] == "bin":
            a = a[1]
        if a[0] == "const" and a[2] is not None:
            out.add(a[2])
        elif a[0] == "loop":
            out.add("acc")
        elif a[0] == "bin" and a[1].startswith("Add"):
            sides = [a[2], a[3]]
            lens = [x for x in sides if chain(x, extra=ELEM)[1][-1:] == ["len"]]
            rest = [x for x in sides if x not in lens]
            if len(lens) == 1 and len(rest) == 1 and (any(y[0] == "loop" for y in walk(rest[0])) or cursor_shape(rest[0]) <= {0, "acc", "acc+len"}):
                out.add("acc+len")
            else:
                out.add("?" + show(a)[:40])
        else:
            out.add("?" + show(a)[:40])
    return out


def rule_compact(R):
    f = R.f
    b = roles.method(f, OUTBOUND, "compact")
    R.touch(b)
    cw = [c for c in b.calls.values() if c.bb in b.reachable and c.is_("copy_within")]
    ok = len(cw) == 1
    cursor_term = None
    if ok:
        rng = peel(b.operand_term(cw[0].args[1]))
        dest = b.operand_term(cw[0].args[2])
        ok = rng[0] == "agg" and rng[4] == ["start", "end"]
        if ok:
            s_r, s_n = chain(rng[5][0], extra=ELEM)
            end = peel(rng[5][1])
            if end[0] == "field":
                end = end[1]
            ok = "retained" in s_n and s_n[-1] == "offset"
            ok = ok and end[0] == "bin" and end[1].startswith("Add") and \
                sorted([chain(end[2], extra=ELEM)[1][-1], chain(end[3], extra=ELEM)[1][-1]]) == ["len", "offset"]
            cursor_term = dest
    R.ob("compact/copy", ok,
         "compact moves each entry's bytes buf[offset .. offset+len] down to the cursor with copy_within", where=b.span)
    # entry.offset = cursor ; used = cursor ; cursor += entry.len
    offs = [(bb, b.rvalue_term(rv)) for (bb, j, dst, rv, s) in b.stores() if chain(b.place_term(dst), extra=ELEM)[1][-1:] == ["offset"]]
    used = [(bb, b.rvalue_term(rv)) for (bb, j, dst, rv, s) in b.stores() if chain(b.place_term(dst))[1] == ["used"]]
    def is_cursor(t):
        return same_shape(t, cursor_term) or (cursor_shape(t) - {"acc"} == {0, "acc+len"} and cursor_shape(cursor_term) - {"acc"} == {0, "acc+len"})
    okw = len(offs) == 1 and len(used) == 1 and cursor_term is not None and is_cursor(offs[0][1]) and is_cursor(used[0][1])
    R.ob("compact/bookkeeping", okw,
         "after the move the entry's offset is the cursor, and when the loop ends `used` is the cursor", where=b.span)
    # no way around the pass: every return has stored `used = cursor` (so the whole list was walked) -- except an early
    # exit taken when `used` already equals the sum of the entries' lengths (nothing to reclaim)
    try:
        uac = roles.method(f, OUTBOUND, "used_after_compact")
    except AnchorLost:
        uac = None           # folded into its callers: then there is no justified early exit to recognise
    just = []
    for sb in b.switches:
        if sb not in b.reachable:
            continue
        si = b.switch_info(sb)
        sj = peel(si["subject"])
        if sj[0] == "bin" and sj[1] in ("Eq", "Ne"):
            sides = [peel(sj[2]), peel(sj[3])]
            if uac is not None and any(chain(x)[1] == ["used"] for x in sides) and any(x[0] == "call" and x[2] == uac.name for x in sides):
                e = si["edges"].get(sj[1] == "Eq")
                if e is not None:
                    just.append((sb, e))
    okp = bool(used) and b.must_pass([0], b.returns, via_blocks=[u[0] for u in used], via_edges=just)[0]
    R.ob("compact/no-shortcut", okp,
         "compact() returns only after walking the whole retained list (or when `used` already equals the sum of the "
         "entries' lengths): a shortcut that looks at the first and last entry only leaves holes in the middle unreclaimed, "
         "and the free tail the CONNECT and QoS 0 scratch rely on stays short", where=b.span)
    okc = False
    if cursor_term is not None:
        for alt in phi_alts(cursor_term):
            a = peel(alt)
            if a[0] == "field":
                a = a[1]
            if a[0] == "bin" and a[1].startswith("Add"):
                names = [chain(a[2], extra=ELEM)[1][-1:], chain(a[3], extra=ELEM)[1][-1:]]
                if ["len"] in names and any(x[0] == "loop" for x in walk(a)):
                    okc = True
        okc = okc and any(peel(a)[0] == "const" and peel(a)[2] == 0 for a in phi_alts(cursor_term))
        okc = okc or cursor_shape(cursor_term) - {"acc"} == {0, "acc+len"}
    R.ob("compact/cursor", okc, "the cursor starts at 0 and advances by each entry's length", where=b.span)
    # the loop visits the retained list in order
    it = [c for c in b.calls.values() if c.bb in b.reachable and c.is_("iter_mut", "into_iter")]
    oki = any(any(x[0] == "field" and x[2] == "retained" for x in walk(b.operand_term(c.args[0]))) for c in it) and \
        not any(c.is_("rev") for c in b.calls.values())
    R.ob("compact/in-order", oki, "compact iterates the retained list front to back", where=b.span)
    # the move is conditional only on offset != cursor
    cond_ok = False
    if cw:
        for bb in b.switches:
            si = b.switch_info(bb)
            s = peel(si["subject"])
            # `offset != cursor` taken, or `offset == cursor` not taken (a guard clause that returns early)
            lab = True if (s[0] == "bin" and s[1] == "Ne") else (False if (s[0] == "bin" and s[1] == "Eq") else None)
            if lab is not None and si["edges"].get(lab) is not None and b.must_pass([0], [cw[0].bb], via_edges=[(bb, si["edges"][lab])])[0]:
                sides = [peel(s[2]), peel(s[3])]
                if s[1] == "Ne" or (any(chain(x, extra=ELEM)[1][-1:] == ["offset"] for x in sides)
                                    and any(cursor_term is not None and same_shape(x, peel(cursor_term)) for x in sides)):
                    cond_ok = True
    R.ob("compact/skip-in-place", cond_ok, "entries already in place are left untouched (offset != cursor guards the move)", where=b.span)


def rule_wire(R):
    f = R.f
    for op in ops.ENQ_OPS:
        P = ops.pipeline(f, op)
        code = P.code
        enc = ops.first(P.encodes, "encode", op)
        ret = ops.first(P.retains, "retain", op)
        off = peel(code.operand_term(ret.args[2]))
        ln = peel(code.operand_term(ret.args[3]))

        def from_enc(t, idx):
            r, n = chain(t)
            r = peel(r)
            if isinstance(r, tuple) and r[0] == "ok":
                r = peel(r[1])
            return isinstance(r, tuple) and r[0] == "call" and r[1] == enc.bb and n[-1:] == [str(idx)]
        R.ob("wire/%s/offset-len" % op, from_enc(off, 0) and from_enc(ln, 1),
             "%s retains exactly the (offset, len) pair returned by the arena encoder (offset %s, len %s)" % (op, show(off)[:60], show(ln)[:60]),
             where=ret.span)
    # encoders return (used + offset, packet.len())
    for e in ops.encoders(f):
        t = e.local_term(0)
        ok = False
        for alt in phi_alts(t):
            a = peel(alt)
            if a[0] == "agg" and a[3] == "Ok":
                tup = peel(a[5][0])
                if tup[0] == "agg" and tup[1] == "tuple" and len(tup[5]) == 2:
                    o, l = peel(tup[5][0]), peel(tup[5][1])
                    if o[0] == "field":
                        o = o[1]
                    oko = o[0] == "bin" and o[1].startswith("Add") and any(chain(x)[1] == ["used"] for x in (o[2], o[3])) and \
                        any(chain(x)[1][-1:] == ["0"] for x in (o[2], o[3]))
                    okl = is_call(l, "len") and chain(l[3][0])[1][-1:] == ["1"]
                    ok = oko and okl
        R.ob("wire/encoder/%s" % e.fn_name, ok,
             "%s returns the absolute arena offset (used + offset inside the view) and the packet length" % e.fn_name, where=e.span)
    # enqueue stores them
    enq = outq.role_fn(f, "enqueue")
    pushes = [c for c in enq.calls.values() if c.bb in enq.reachable and outq.mname(c) in outq.GROW]
    ok = len(pushes) == 1
    if ok:
        a = peel(enq.operand_term(pushes[0].args[1]))
        fl = dict(zip(a[4], a[5])) if a[0] == "agg" else {}
        ok = fl.get("packet_id") == ("param", "packet_id") and fl.get("offset") == ("param", "offset") and fl.get("len") == ("param", "len") \
            and outq.is_write0(fl.get("state", ("unknown",)))
    R.ob("wire/enqueue-record", ok, "the retained entry records id, offset, len as given and starts fresh (Write{0})", where=enq.span)
    # retained_packet(offset,len) = buf[offset..offset+len]; called with the step's own fields
    rp = roles.method(f, OUTBOUND, "retained_packet")
    t = peel(rp.local_term(0))
    ok = is_call(t, "Index::index", "index") and len(t[3]) == 2
    if ok:
        rng = peel(t[3][1])
        end = peel(rng[5][1]) if rng[0] == "agg" and rng[4] == ["start", "end"] else None
        if end is not None and end[0] == "field":
            end = end[1]
        ok = end is not None and rng[5][0] == ("param", "offset") and end[0] == "bin" and end[1].startswith("Add") and \
            {end[2], end[3]} == {("param", "offset"), ("param", "len")}
    R.ob("wire/retained-slice", ok, "retained_packet(offset, len) is buf[offset .. offset + len]", where=rp.span)
    cm = roles.conn_methods(f)
    pb, pcode = cm["perform_outbound_step"]
    cs = outq.calls_to(f, pcode, rp)
    okc = len(cs) == 1 and chain(pcode.operand_term(cs[0].args[1]))[1][-3:] == ["@Retained", "0", "offset"] and \
        chain(pcode.operand_term(cs[0].args[2]))[1][-3:] == ["@Retained", "0", "len"]
    R.ob("wire/step-slice", okc, "the bytes written for a retained step are that step's own (offset, len)", where=pb.span)
    ns = roles.method(f, OUTBOUND, "next_step")
    okn = False
    for sc in outq.step_constructions(f, ns):
        if sc["kind"] != "Retained":
            continue
        fl = sc["fields"]
        okn = all(k in fl and chain(fl[k], extra=ELEM)[1][-1:] == [k] and "retained" in chain(fl[k], extra=ELEM)[1]
                  for k in ("packet_id", "offset", "len", "state"))
    R.ob("wire/step-from-entry", okn, "a retained step copies id, offset, len and state of one retained entry", where=ns.span)


def rule_used(R):
    f = R.f
    n = 0
    enq = outq.role_fn(f, "enqueue")
    compact = roles.method(f, OUTBOUND, "compact")
    for (b, bb, j, dst, rv, s, final) in f.field_stores(OUTBOUND, "used"):
        if f.in_fuzzing(b):
            continue
        n += 1
        t = b.rvalue_term(rv)
        if b.name == enq.name:
            ok = is_call(peel(t), "Ord::max", "max") and any(chain(x)[1] == ["used"] for x in peel(t)[3])
            if not ok:
                # `if end > self.used { self.used = end }`: the same maximum, spelled as a guarded store
                tt = peel(t)
                if tt[0] == "field" and peel(tt[1])[0] == "bin":
                    tt = peel(tt[1])
                for sb in b.switches:
                    if sb not in b.reachable:
                        continue
                    si = b.switch_info(sb)
                    sj = peel(si["subject"])
                    if sj[0] == "bin" and sj[1] in ("Gt", "Lt", "Ge", "Le"):
                        x_, y_ = peel(sj[2]), peel(sj[3])
                        if sj[1] in ("Lt", "Le"):
                            x_, y_ = y_, x_
                        # x_ > y_ : new end on the left, `used` on the right
                        def _same(u, v):
                            u, v = peel(u), peel(v)
                            if u[0] == "field" and peel(u[1])[0] == "bin":
                                u = peel(u[1])
                            if v[0] == "field" and peel(v[1])[0] == "bin":
                                v = peel(v[1])
                            return same_shape(u, v)
                        e = si["edges"].get(True)
                        if chain(y_)[1] == ["used"] and _same(x_, tt) and e is not None and b.must_pass([0], [bb], via_edges=[(sb, e)])[0]:
                            ok = True
        elif b.name == compact.name:
            ok = True  # shape checked by compact/bookkeeping
        else:
            ok = b.fn_name in ("new", "clear") and t[0] == "const" and t[2] == 0
        R.ob("used/writer/%s" % b.fn_name, ok, "`used` is written only by new/clear (0), compact and the enqueue (max(used, offset+len)); "
             "found %s in %s" % (show(t)[:60], b.fn_name), where=s["span"])
    for b in f.bodies.values():
        for bb, j, s in b.assigns():
            rv = s["rv"]
            if "agg" in rv and rv["agg"].get("adt") == OUTBOUND:
                t = b.rvalue_term(rv)
                fl = dict(zip(t[4], t[5]))
                R.ob("used/ctor/%s" % b.fn_name, b.fn_name == "new" and "used" in fl and fl["used"][0] == "const" and fl["used"][2] == 0,
                     "a new arena starts empty", where=s["span"])
    R.floor("used/writer", n, 3, "stores to `used`")
    # free-space computations depend on the entries only
    try:
        uac = roles.method(f, OUTBOUND, "used_after_compact")
    except AnchorLost:
        uac = None
    for name in ("scratch_len", "can_retain") + (("used_after_compact",) if uac is not None else ()):
        b = roles.method(f, OUTBOUND, name)
        touched = set(x[1] for x in f.fields_touched(b.name) if x[0] == OUTBOUND)
        R.ob("used/free-space/%s" % name, touched <= {"buf", "retained"} and "retained" in touched,
             "%s depends only on the arena size and the retained entries (reads %s)" % (name, sorted(touched)), where=b.span)
    if uac is not None:
        needed, holder = peel(uac.local_term(0)), uac
    else:
        # the sum was folded into scratch_len: it is what is subtracted from the arena size there
        holder = roles.method(f, OUTBOUND, "scratch_len")
        needed = None
        for x in walk(peel(holder.local_term(0))):
            if isinstance(x, tuple) and is_call(x, "saturating_sub", "checked_sub", "wrapping_sub") and len(x[3]) == 2:
                needed = peel(x[3][1])
            elif isinstance(x, tuple) and x[0] == "bin" and x[1].startswith("Sub") and needed is None:
                needed = peel(x[3])
        if needed is None:
            raise AnchorLost("space-needed", "neither Outbound::used_after_compact nor a subtraction in scratch_len")
    cl = [c for c in f.children(holder) if c.kind == "closure"]
    ok_sum = len(cl) == 1 and chain(cl[0].local_term(0))[1][-1:] == ["len"] and is_call(needed, "sum")
    if not ok_sum:
        # an explicit accumulator: `let mut total = 0; for entry in &self.retained { total += entry.len }; total`
        alts = phi_alts(needed)
        zero = [a for a in alts if a[0] == "const" and a[2] == 0]
        adds = []
        for a in alts:
            a = peel(a)
            if a[0] == "field" and a[1][0] == "bin":
                a = a[1]
            if a[0] == "bin" and a[1].startswith("Add"):
                adds.append(a)
        def is_len_of_entry(x):
            r_, n_ = chain(peel(x), extra=ELEM)
            return n_[-1:] == ["len"] and "retained" in n_
        ok_sum = bool(zero) and len(adds) >= 1 and len(zero) + len(adds) == len(alts) and \
            all(any(is_len_of_entry(x) for x in (a[2], a[3])) and any(any(y[0] == "loop" for y in walk(x)) or peel(x)[0] == "const" for x in (a[2], a[3])) for a in adds)
    R.ob("used/free-space/sum-of-len", ok_sum,
         "the space needed after compaction is the sum of the entries' lengths", where=holder.span)


def rule_arena_order(R):
    from .c02 import clause_order
    clause_order(R, "compact/entries-in-arena-order", ("retained",),
                 " -- compact() slides entries down in list order with copy_within, which is only correct while the list is in "
                 "ascending arena-offset order (append at the end, order-preserving removal)")


def rule_slots(R):
    from .c06 import clause_quota_after_enqueue
    clause_quota_after_enqueue(R, "slots/quota-after-enqueue")


def rule_release(R):
    """slots and arena bytes do not leak on the error path either: an acknowledgement with a failure code still releases
    the retained packet (shared with C18)"""
    from .c18 import clause_remove_then_report
    clause_remove_then_report(R, "slots/released")


def rule_quota(R):
    """in-flight slots do not leak: the number of replayed publishes taken off the fresh window is counted after the
    decision to keep or discard the old session was applied -- a count taken before the reset charges the new session for
    packets that no longer exist, and nothing gives those slots back (shared with C06 / C12)"""
    from .c06 import clause_inflight_read_after_reset
    clause_inflight_read_after_reset(R, "quota/inflight-read-after-reset")
    # "accepts exactly the same requests (counts) as a brand-new one": the window is stored afresh by every handshake, from
    # the CONNACK or the default, never from what an earlier connection left behind
    roles.clause_negotiated_per_connection(R, "quota", ("send_quota", "max_send_quota"))


def run(R):
    R.rule("quota", rule_quota)
    R.rule("release", rule_release)
    R.rule("slots", rule_slots)
    R.rule("arena-order", rule_arena_order)
    R.rule("base", rule_base)
    R.rule("writers", rule_writers)
    R.rule("patch", rule_patch)
    R.rule("compact", rule_compact)
    R.rule("wire", rule_wire)
    R.rule("used", rule_used)
