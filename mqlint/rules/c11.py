"""C11 — a dead connection handle stays dead and never touches the transport again (structural clauses)."""
from ..core import chain, peel, phi_alts, is_call, show, AnchorLost
from .. import paths
from . import roles, outq
from .roles import CONN

EXPLANATION = (
    "Static clauses of C11 decided on mir_built: (guard) must-dataflow LIVE-known-true at every transport call "
    "inside Connection methods; (entry) every public async operation reaches a LIVE test before any transport call or "
    "session-state mutation, and its dead branch does no I/O, mutates nothing and returns the documented value; "
    "(fatal) variant-set flow from every transport error edge, from the inbound handler's error arms and from the "
    "keep-alive expiry: an exit not preceded by the latch may only carry non-fatal variants; (ctor) every "
    "Error::Disconnected built in a Connection method is latched or on a dead branch; (once) nothing but "
    "Session::connect makes LIVE true. Decides these necessary conditions, not the behaviour under all fault sequences."
)
ASSUMPTIONS = [
    "transports obey embedded-io (Ok(0) on a non-empty write is reported as WriteZero and deliberately not latched)",
    "callee summaries (does_io, may_latch, writes_state) are computed over the resolved call graph of the crate; "
    "trait calls on the generic transport are abstract",
]

FATAL_L1 = {"Transport", "Disconnected"}
FATAL_L2 = {"Peer.InvalidPacket", "Resource.PacketTooLarge"}


def is_fatal(v):
    a, _, b = v.partition(".")
    if a in FATAL_L1:
        return True
    if v in FATAL_L2:
        return True
    if a == "Peer" and b == "*":
        return True
    if a == "Peer" and b.startswith("!") and "InvalidPacket" not in b[1:].split("|"):
        return True
    if a == "Resource" and b == "*":
        return True
    if a == "Resource" and b.startswith("!") and "PacketTooLarge" not in b[1:].split("|"):
        return True
    return False


def short(c):
    return (c.path or "?").split("::<")[0].rsplit("::", 1)[-1] if not c.path or "::" in c.path else c.path


def site_id(c):
    p = c.path or "?"
    if p.startswith("embedded_io_async::"):
        return p.split("::", 1)[1].replace("::", ".")
    return c.name()


def ordinal_keys(calls):
    cnt = {}
    out = []
    for c in sorted(calls, key=lambda c: c.bb):
        k = site_id(c)
        cnt[k] = cnt.get(k, 0) + 1
        out.append((c, "%s#%d" % (k, cnt[k])))
    return out


def latch_mark(f):
    lf = roles.live_field(f)
    direct = set()
    for (b, bb, j, dst, rv, s, final) in f.field_stores(roles.CONN, lf):
        t = b.rvalue_term(rv)
        if t[0] == "const" and t[2] == 0:
            direct.add((b.name, bb))

    def mark(body, bb):
        c = body.calls.get(bb)
        if c is not None and roles.call_latches(f, c):
            return True
        # the latch written in place (`self.live = false;`) instead of through the teardown function
        return (body.name, bb) in direct
    return mark


def rule_guard(R):
    f = R.f
    cm = roles.conn_methods(f)
    n = 0
    for name, (b, code) in sorted(cm.items()):
        sites = roles.transport_sites(f, code)
        if not sites:
            continue
        R.touch(code)
        IN, at_term = roles.live_known(f, code)
        for c, k in ordinal_keys(sites):
            n += 1
            ok = at_term(c.bb)
            R.ob("guard/%s/%s" % (name, k), ok,
                 "transport call `%s` in Connection::%s must be dominated by a LIVE test with no possible latch "
                 "in between (LIVE-known-true must-dataflow)%s" % (c.path, name, "" if ok else ": LIVE not known true here"),
                 where=c.span)
    R.floor("guard", n, 7, "transport call sites in Connection methods")


def dangerous_blocks(f, code, guarded):
    """blocks whose terminator/statements touch the transport or mutate session state without being a
    call to a guarded Connection method"""
    out = {}
    cm = roles.conn_methods(f)
    conn_names = {b.name: n for n, (b, c) in cm.items()}
    ws = roles.writes_state(f)
    io = f.does_io()
    for c in code.calls.values():
        if c.bb not in code.reachable:
            continue
        if roles.is_io_call(c):
            out[c.bb] = "transport call %s" % c.path
            continue
        tg = f.call_targets(c)
        for t in tg:
            tb = f.bodies[t]
            root = tb.root if tb.kind in ("closure", "coroutine") else tb.name
            if root in conn_names:
                if conn_names[root] in guarded:
                    continue
                if t in io or t in ws:
                    out[c.bb] = "call to unguarded Connection::%s" % conn_names[root]
            elif t in io:
                out[c.bb] = "call to does_io function %s" % tb.fn_name
            elif t in ws:
                out[c.bb] = "call to state-mutating function %s" % (tb.fn_name or t)
        if not tg:
            # external call receiving &mut state
            for a in c.args:
                t = code.operand_term(a)
                for alt in phi_alts(t):
                    x = alt
                    mut = False
                    while isinstance(x, tuple) and x[0] in ("ref", "deref"):
                        if x[0] == "ref" and x[2]:
                            mut = True
                        x = x[1]
                    if mut and x[0] == "field" and x[3] in roles.STATE_ADTS:
                        out[c.bb] = "external call %s mutating %s" % (c.path, x[2])
    for (bb, j, dst, rv, s) in code.stores():
        if bb not in code.reachable:
            continue
        for e in dst["proj"]:
            if isinstance(e, dict) and "f" in e and e.get("of") in roles.STATE_ADTS:
                out[bb] = "store to %s.%s" % (e["of"].rsplit("::", 1)[-1], e["name"])
    return out


def is_guarded(f, code, guarded):
    edges = [(s, t) for (s, t, fl) in roles.live_true_edges(f, code)]
    dang = dangerous_blocks(f, code, guarded)
    if not dang:
        return True, None
    ok, off = code.must_pass([0], list(dang.keys()), via_edges=edges)
    if ok:
        return True, None
    return False, (off, dang[off])


def rule_entry(R):
    f = R.f
    cm = roles.conn_methods(f)
    guarded = set(cm.keys())
    changed = True
    why = {}
    while changed:
        changed = False
        for n in sorted(guarded):
            ok, off = is_guarded(f, cm[n][1], guarded)
            if not ok:
                guarded.discard(n)
                why[n] = off
                changed = True
    ops = roles.public_ops(f)
    for n, (b, code) in sorted(ops.items()):
        R.touch(code)
        ok = n in guarded
        msg = "public operation Connection::%s must test LIVE before any transport call or session-state mutation" % n
        where = b.span
        if not ok:
            off, what = why[n]
            msg += ": %s is reachable from entry without passing the true edge of a LIVE test" % what
            where = code.line(off)
        R.ob("entry/%s" % n, ok, msg, where=where)
    R.floor("entry", len(ops), 8, "public async operations")
    # "every further network operation returns the disconnected error": the LIVE test is the first decision of an operation
    # that tests it itself -- no other error is built before it (an argument check placed in front of the gate answers a
    # dead handle with InvalidRequest instead of Disconnected)
    nfirst = 0
    for n, (b, code) in sorted(ops.items()):
        srcs = [src for (src, t, fl) in roles.live_true_edges(f, code)]
        if not srcs:
            continue            # the gate lives in a callee whose verdict is handed on
        nfirst += 1
        pre = code.reach([0], avoid=srcs)
        early = []
        for bb in sorted(pre):
            if bb in srcs:
                continue
            for s_ in code.blocks[bb]["stmts"]:
                if s_["k"] == "assign" and "agg" in s_["rv"] and (s_["rv"]["agg"].get("adt") or "").endswith("Result") \
                        and s_["rv"]["agg"].get("variant") == "Err":
                    early.append(bb)
        R.ob("entry/first-decision/%s" % n, not early,
             "Connection::%s decides nothing before its LIVE test: an error built in front of the gate is what a dead handle "
             "gets instead of Disconnected" % n, where=code.line(early[0]) if early else b.span)
    R.floor("entry/first-decision", nfirst, 4, "operations with their own LIVE test")

    # the dead branch of every LIVE test: no I/O, no state mutation, documented return value
    nsw = 0
    for n, (b, code) in sorted(cm.items()):
        for (src, t, fl) in roles.live_true_edges(f, code):
            if fl is None:
                continue
            nsw += 1
            dead = code.reach([fl], avoid=[t])
            dang = dangerous_blocks(f, code, set())  # on the dead path nothing at all may happen
            bad = [bb for bb in dead if bb in dang and not code.dominates(t, bb)]
            # blocks shared with the live path (join blocks after the test) are not "dead path" blocks
            bad = [bb for bb in bad if bb not in code.reach([t])]
            R.ob("dead-branch/%s@%d" % (n, nsw_index(code, src)), not bad,
                 "the LIVE==false branch in Connection::%s must not touch the transport or session state%s"
                 % (n, "" if not bad else ": " + dang[bad[0]]), where=code.line(src))
            # return value on the dead branch
            want = "Ok(())" if n == "disconnect_with" else ("false" if n == "can_publish" else "Err(Disconnected)")
            vals = []
            for bb in sorted(dead - code.reach([t])):
                for s in code.blocks[bb]["stmts"]:
                    if s["k"] == "assign" and s["dst"]["l"] == 0 and not s["dst"]["proj"]:
                        vals.append(code.rvalue_term(s["rv"]))
                c = code.calls.get(bb)
                if c is not None and c.dst["l"] == 0 and not c.dst["proj"]:
                    vals.append(code.call_term(bb))
            if not vals or not all(dead_value_ok(v, want) for v in vals):
                # the value travels through temporaries (a guard that lives in an inlined helper, whose result the caller
                # hands on with `?`): read it per path
                pvals = []
                complete = True
                for lf in paths.explore(code, fl, lambda t_: False, lambda b_, x_: False, max_paths=500):
                    if lf["kind"] == "limit":
                        complete = False
                    if lf["kind"] == "return":
                        pv = paths.value_on_path(code, [src] + lf["path"], 0)
                        if pv is None:
                            complete = False
                        else:
                            pvals.append(pv)
                if complete and pvals:
                    vals = pvals
            okv = bool(vals) and all(dead_value_ok(v, want) for v in vals)
            if n in roles.public_ops(f) or n in ("can_publish", "drive_packet", "read_packet", "perform_outbound_step", "flush_current"):
                R.ob("dead-value/%s@%d" % (n, nsw_index(code, src)), okv,
                     "the LIVE==false branch of Connection::%s must return %s (found %s)"
                     % (n, want, ", ".join(show(v) for v in vals) or "nothing"), where=code.line(src))
    R.floor("dead-branch", nsw, 5, "LIVE tests")
    # can_publish() is false for good on a dead handle: its value is gated by LIVE
    if "can_publish" not in cm:
        raise AnchorLost("Connection::can_publish")
    cb, ccode = cm["can_publish"]
    gated = [e for e in roles.live_true_edges(f, ccode) if e[2] is not None]
    R.ob("canpub/live-gated", bool(gated),
         "Connection::can_publish must test LIVE (a dead handle reports false for every QoS)", where=cb.span)


def nsw_index(code, bb):
    """ordinal of a LIVE test among the LIVE tests of the body (stable under line changes and cfgs)"""
    sw = sorted(s for (s, t, fl) in roles.live_true_edges(code.facts, code))
    return sw.index(bb) + 1 if bb in sw else -1


def dead_value_ok(v, want):
    v = peel(v)
    if want == "false":
        return v[0] == "const" and v[2] == 0
    if want == "Ok(())":
        return v[0] == "agg" and v[3] == "Ok"
    # Err(Error::Disconnected) possibly through .into()
    if v[0] == "agg" and v[3] == "Err" and v[5]:
        inner = peel(v[5][0])
        for _ in range(3):   # conversions on the way out (`.into()`, the `From` applied by `?`)
            if is_call(inner, "core::convert::Into::into", "core::convert::From::from") and inner[3]:
                inner = peel(inner[3][0])
        return inner[0] == "agg" and inner[2] == "Error" and inner[3] == "Disconnected"
    return False


def _last_generic(ty):
    """last top-level generic argument of `Name<A, B>`"""
    if not ty or "<" not in ty or not ty.endswith(">"):
        return None
    inner = ty[ty.index("<") + 1:-1]
    depth, start, parts = 0, 0, []
    for i, ch in enumerate(inner):
        if ch in "<(":
            depth += 1
        elif ch in ">)":
            depth -= 1
        elif ch == "," and depth == 0:
            parts.append(inner[start:i].strip())
            start = i + 1
    parts.append(inner[start:].strip())
    return parts[-1]


def result_root_pred(code, call):
    def is_root(x):
        if roles.is_result_of(x, call.bb):
            return True
        # `call()?` inside an inlined helper whose error type is the caller's: `from_residual` converts with the
        # reflexive `From` (identity), so the error tested afterwards is still that call's error
        y = peel(x)
        if is_call(y, "core::ops::FromResidual::from_residual") and y[3] and isinstance(y[3][0], tuple) and y[3][0][0] == "residual" \
                and roles.is_result_of(y[3][0][1], call.bb):
            c2 = code.calls.get(y[1])
            if c2 is not None and len(c2.gargs or []) == 2 and c2.gargs[0].startswith("core::result::Result<") \
                    and c2.gargs[1].startswith("core::result::Result<"):
                e1, e2 = _last_generic(c2.gargs[0]), _last_generic(c2.gargs[1])
                return e1 is not None and e1 == e2
        return False
    return is_root


def site_variants(f, call):
    if call.path == roles.IO_READ or call.path == roles.IO_WRITE or call.path == roles.IO_FLUSH:
        return {"<io-error>"}
    vs = set()
    for t in f.call_targets(call):
        vs |= paths.error_variants(f, t)
    return vs


def rule_fatal(R):
    f = R.f
    cm = roles.conn_methods(f)
    mark = latch_mark(f)
    nsites = 0
    for name, (b, code) in sorted(cm.items()):
        sites = roles.transport_sites(f, code)
        for c, k in ordinal_keys(sites):
            nsites += 1
            is_root = result_root_pred(code, c)
            direct_io = roles.is_io_call(c)
            variants = site_variants(f, c)
            res_sw, q_sites = roles.awaited_result_switches(code, c)
            starts = []
            for si in res_sw:
                if "Err" in si["edges"]:
                    starts.append((si["edges"]["Err"], {("@Err",): None}))
            for q in q_sites:
                if q["brk"][1] is not None:
                    starts.append((q["brk"][1], {}))
            # results passed on whole (e.g. `.map_err(..)` then returned) are followed from the call itself
            if not starts:
                starts.append((c.target, {}))
            bad = []
            nleaves = 0
            for (sb, _) in starts:
                if sb is None:
                    continue
                for leaf in paths.explore(code, sb, is_root, mark):
                    if leaf["kind"] not in ("return",):
                        continue
                    nleaves += 1
                    if leaf["marked"]:
                        continue
                    if direct_io:
                        bad.append((leaf, {"Transport.*"}))
                        continue
                    vs = paths.refine(variants, leaf["cons"], ("@Err", "0"))
                    fatal = set(v for v in vs if is_fatal(v))
                    if fatal:
                        bad.append((leaf, fatal))
            # successful completions are not error exits: drop leaves that pass the Ok edge
            bad = [x for x in bad if not passes_ok_edge(code, res_sw, x[0])]
            R.stats["paths"] += nleaves
            msg = ("every exit of Connection::%s that can carry a fatal error of `%s` must pass the latch first"
                   % (name, c.path))
            detail = None
            if bad and name not in roles.PUBLIC_OPS and _latched_by_every_caller(f, cm, b, code, mark, set().union(*[x[1] for x in bad])):
                # a private step that hands the error on unlatched, with every one of its callers latching it
                # (`self.flush_current(..).await.map_err(|err| self.fail_outbound(err))?`)
                bad = []
                msg += " (the error leaves this private method unlatched; every caller latches it)"
            if bad:
                leaf, fatal = bad[0]
                msg += ": exit at %s may carry %s without latching" % (code.line(leaf["end"]), sorted(fatal))
                detail = "path: " + " -> ".join("bb%d" % x for x in leaf["path"][:40])
            R.ob("fatal/%s/%s" % (name, k), not bad, msg, where=c.span, detail=detail)
    R.floor("fatal", nsites, 7, "transport call sites")

    # inbound handler error arms
    name = "process_received_packet"
    if name not in cm:
        raise AnchorLost("Connection::process_received_packet")
    b, code = cm[name]
    R.touch(code)
    calls = [c for c in code.calls.values() if c.bb in code.reachable and f.call_targets(c)
             and not any(roles.self_is(f.bodies[t], CONN) for t in f.call_targets(c))
             and any(paths.error_variants(f, t) for t in f.call_targets(c))]
    nin = 0
    for c, k in ordinal_keys(calls):
        variants = site_variants(f, c)
        if not any(is_fatal(v) for v in variants):
            continue
        nin += 1
        is_root = result_root_pred(code, c)
        res_sw, q_sites = roles.awaited_result_switches(code, c)
        starts = [si["edges"]["Err"] for si in res_sw if "Err" in si["edges"]]
        starts += [q["brk"][1] for q in q_sites if q["brk"][1] is not None]
        if not starts:
            starts = [c.target]
        bad = []
        for sb in starts:
            for leaf in paths.explore(code, sb, is_root, mark):
                if leaf["kind"] != "return" or leaf["marked"]:
                    continue
                vs = paths.refine(variants, leaf["cons"], ("@Err", "0"))
                fatal = set(v for v in vs if is_fatal(v))
                if fatal:
                    bad.append((leaf, fatal))
        bad = [x for x in bad if not passes_ok_edge(code, res_sw, x[0])]
        msg = ("in Connection::process_received_packet every error of `%s` that is fatal (decode error, broker "
               "DISCONNECT, invalid packet, mandatory ack too large) must latch the handle before it is returned" % c.name())
        detail = None
        if bad:
            leaf, fatal = bad[0]
            msg += ": exit at %s may carry %s without latching" % (code.line(leaf["end"]), sorted(fatal))
            detail = "path: " + " -> ".join("bb%d" % x for x in leaf["path"][:40])
        R.ob("fatal-inbound/%s" % k, not bad, msg, where=c.span, detail=detail)
    R.floor("fatal-inbound", nin, 2, "error-returning calls in process_received_packet")

    # a broker DISCONNECT is fatal whatever its reason code: the handler's Disconnect arm can only end in the error that
    # process_received_packet latches on (Error::Disconnected) -- any other error would be handed to the caller with the
    # handle still alive
    hb, hsw_bb = outq.inbound_handler(f)
    hsw = hb.switch_info(hsw_bb)
    tgt = hsw["edges"].get("Disconnect")
    okd = tgt is not None
    why = ""
    if okd:
        nret = 0
        for lf in paths.explore(hb, tgt, lambda t: False, lambda b_, x: False, max_paths=2000):
            if lf["kind"] == "limit":
                okd, why = False, "path limit"
                break
            if lf["kind"] != "return":
                continue
            nret += 1
            v = paths.value_on_path(hb, [hsw["bb"]] + lf["path"], 0)
            v = peel(v) if v is not None else None
            good = False
            if v is not None and v[0] == "agg" and v[3] == "Err" and v[5]:
                e = peel(v[5][0])
                if is_call(e, "core::convert::Into::into", "core::convert::From::from") and e[3]:
                    e = peel(e[3][0])
                good = e[0] == "agg" and e[2] == "Error" and e[3] == "Disconnected"
            if not good:
                okd, why = False, "an exit of the arm returns %s" % (show(v) if v is not None else "?")
        okd = okd and nret >= 1
    R.ob("fatal-inbound/disconnect-arm", okd,
         "every exit of the inbound handler's DISCONNECT arm returns Error::Disconnected (the error process_received_packet "
         "latches on), whatever reason code the broker gave%s" % ((": " + why) if why else ""),
         where=hb.line(tgt) if tgt is not None else hb.span)

    # keep-alive expiry and any other locally constructed Disconnected: rule_ctor


def _latched_by_every_caller(f, cm, b, code, mark, leaked):
    """every Connection method that calls the private method `b` passes the latch on every path from the error edge of that
    call to a return (one level: the callers themselves must not hand the error further up unlatched)"""
    ncall = 0
    for cname, (cb, ccode) in sorted(cm.items()):
        if ccode.name == code.name:
            continue
        for c in [x for x in ccode.calls.values() if x.bb in ccode.reachable and b.name in f.call_targets(x)]:
            ncall += 1
            res_sw, q_sites = roles.awaited_result_switches(ccode, c)
            starts = [si["edges"]["Err"] for si in res_sw if "Err" in si["edges"]]
            starts += [q["brk"][1] for q in q_sites if q["brk"][1] is not None]
            if not starts:
                starts = [c.target]
            is_root = result_root_pred(ccode, c)
            for sb in starts:
                if sb is None:
                    continue
                for leaf in paths.explore(ccode, sb, is_root, mark, max_paths=3000):
                    if leaf["kind"] == "limit":
                        return False
                    if leaf["kind"] != "return" or leaf["marked"] or passes_ok_edge(ccode, res_sw, leaf):
                        continue
                    # an unlatched error exit of the caller: only tolerable for the variants that are not fatal
                    vs = paths.refine(set(leaked), leaf["cons"], ("@Err", "0"))
                    if any(is_fatal(v) for v in vs):
                        return False
    return ncall >= 1


def passes_ok_edge(code, res_sw, leaf):
    """the path takes the Ok *edge* of a switch on the call's result (the block that edge leads to may be shared with the
    fall-through of a `matches!` on the error, so being in that block proves nothing)"""
    pth = leaf["path"]
    for si in res_sw:
        ok_t = si["edges"].get("Ok")
        if ok_t is None:
            continue
        for k in range(len(pth) - 1):
            if pth[k] == si["bb"] and pth[k + 1] == ok_t:
                return True
        # the exploration may start at the switch's own target (path does not contain the switch block): the start block is
        # the Ok target only when the leaf's constraint says so
        if pth and pth[0] == ok_t and leaf["cons"].get(()) == "Ok":
            return True
    return False


def rule_ctor(R):
    f = R.f
    cm = roles.conn_methods(f)
    n = 0
    for name, (b, code) in sorted(cm.items()):
        latch_blocks = roles.latch_blocks(f, code)
        dead = set()
        for (src, t, fl) in roles.live_true_edges(f, code):
            if fl is not None:
                dead |= code.reach([fl], avoid=[t]) - code.reach([t])
        cnt = 0
        for bb, j, s in code.assigns():
            if bb not in code.reachable:
                continue
            rv = s["rv"]
            if "agg" in rv and rv["agg"].get("adt") == "Error" and rv["agg"].get("variant") == "Disconnected":
                cnt += 1
                n += 1
                ok = bb in dead
                if not ok:
                    ok, _ = code.must_pass([0], [bb], via_blocks=latch_blocks)
                if not ok:
                    # built first, latched afterwards (e.g. the error is re-typed, then classified as fatal): every feasible
                    # path from the construction to a return passes the latch (the explorer knows which variant was built)
                    lbs = set(latch_blocks)
                    leaves = paths.explore(code, bb, lambda t_: False, lambda b_, x_: x_ in lbs, max_paths=3000)
                    rets = [lf for lf in leaves if lf["kind"] == "return"]
                    ok = bool(rets) and all(lf["marked"] for lf in rets) and not any(lf["kind"] == "limit" for lf in leaves)
                if not ok:
                    # latched earlier under a test of the same error value (`if is_fatal(&err) { latch } .. match err { .. }`):
                    # every *feasible* path to the construction passed the latch (variant constraints on call results)
                    def any_call_root(t_):
                        t_ = peel(t_)
                        if isinstance(t_, tuple) and t_[0] == "await":
                            t_ = peel(t_[1])
                        return ("c%d" % t_[1]) if isinstance(t_, tuple) and t_[0] == "call" else False
                    lbs = set(latch_blocks)
                    leaves = paths.explore(code, 0, any_call_root, lambda b_, x_: x_ in lbs, stop_pred=lambda b_, x_, bb=bb: x_ == bb, max_paths=6000)
                    stops = [lf for lf in leaves if lf["kind"] == "stop"]
                    ok = bool(stops) and all(lf["marked"] for lf in stops) and not any(lf["kind"] == "limit" for lf in leaves)
                R.ob("ctor/%s#%d" % (name, cnt), ok,
                     "Error::Disconnected constructed in Connection::%s must be preceded by the latch on every path "
                     "or sit on the dead branch of a LIVE test" % name, where=s["span"])
    R.floor("ctor", n, 6, "Error::Disconnected constructions in Connection methods")


def rule_once(R):
    f = R.f
    _, ccode = roles.session_connect(f)
    sites = roles.live_true_writers(f)
    n = 0
    for (b, bb, kind) in sites:
        if f.in_fuzzing(b):
            continue
        n += 1
        ok = b.name == ccode.name and kind == "aggregate"
        R.ob("once/%s" % b.fn_name, ok,
             "LIVE may only become true by constructing the Connection in Session::connect (a latched handle "
             "cannot be revived); found a %s in %s" % (kind, b.name), where=b.line(bb))
    R.exact("once", n, 1, "sites that make LIVE true")
    # and the aggregate is built only after the handshake succeeded
    call, hb, hcode = roles.handshake(f)
    qs = ccode.q_edges(lambda x: _is_await_of(x, call.bb))
    aggs = [bb for (b, bb, kind) in sites if b.name == ccode.name]
    ok = bool(qs) and bool(aggs)
    if ok:
        edges = [q["cont"] for q in qs]
        ok, _ = ccode.must_pass([0], aggs, via_edges=edges)
    R.ob("once/after-handshake", ok,
         "the Connection handle is only built on the success edge of the handshake", where=call.span)


def _is_await_of(x, bb):
    x = peel(x)
    if isinstance(x, tuple) and x[0] == "await":
        x = peel(x[1])
    return isinstance(x, tuple) and x[0] == "call" and x[1] == bb


def run(R):
    R.rule("guard", rule_guard)
    R.rule("entry", rule_entry)
    R.rule("fatal", rule_fatal)
    R.rule("ctor", rule_ctor)
    R.rule("once", rule_once)
