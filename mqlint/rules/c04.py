"""C04 — inbound publishes are delivered faithfully, acknowledged in order, QoS 2 only once (structural clauses)."""
from ..core import AnchorLost, chain, peel, phi_alts, is_call, walk, show, ELEM
from .. import paths
from . import roles, outq
from .roles import CONN, SDATA, OUTBOUND
from .c02 import arm_of, param_packet

EXPLANATION = (
    "Static clauses of C04 on mir_built: (ack) in the PUBLISH arm of the inbound handler every feasible path that "
    "returns `deliver` for QoS 1, and every non-error path for QoS 2, passes the enqueue of a PUBACK / PUBREC carrying "
    "the inbound packet's identifier; (once) a QoS 2 delivery implies the identifier was just recorded, and recording "
    "is control dependent on `not already pending`; (rel) every non-error path of the PUBREL arm queues a PUBCOMP with "
    "the PUBREL's identifier, Success on the found-and-removed edge and PacketIdNotFound otherwise; (offarena) "
    "acknowledgements are serialised into a stack buffer, never the transmit arena, and the control queue is separate "
    "from the retained slots; (reset) a fresh session clears the pending identifiers; (faithful) the delivered message "
    "is decoded from the untouched receive buffer prefix of exactly the consumed packet length, fields passed through "
    "unchanged, and only on the handler's `deliver` result. Field values of arbitrary byte strings are C08/C09."
)
ASSUMPTIONS = ["the decoder returns the fields of a valid PUBLISH correctly (decided as far as possible under C08/C09)"]


def handler_publish(f):
    hb, sw = outq.inbound_handler(f)
    _, entry, blocks = outq.handler_arm(f, "Publish")
    qsw = None
    for bb in sorted(blocks):
        if bb in hb.switches:
            si = hb.switch_info(bb)
            if si["enum"] == "QoS":
                root, names = chain(si["subject"])
                if names[-1:] == ["qos"] and "@Publish" in names:
                    qsw = si
                    break
    if qsw is None:
        raise AnchorLost("publish-arm-qos-switch")
    return hb, sw, entry, qsw


def ret_value_on_path(body, path):
    from .. import paths as _paths
    return _paths.value_on_path(body, path, 0)


def deliver_label(f):
    """How the handler says "hand this PUBLISH to the application": the label of the edge that process_received_packet
    takes on the payload of the handler's Ok result to reach `Ok(Some(length))` -- True for a `bool` payload, a variant
    name when the handler returns a two-variant enum (`Handled::Deliver`).  None when it cannot be determined."""
    cm = roles.conn_methods(f)
    pb, pcode = cm["process_received_packet"]
    hb, sw = outq.inbound_handler(f)
    hc = outq.calls_to(f, pcode, hb)
    if len(hc) != 1:
        return None
    found = set()
    for sbb in pcode.switches:
        if sbb not in pcode.reachable:
            continue
        si = pcode.switch_info(sbb)
        r2, n2 = chain(si["subject"])
        r2 = peel(r2)
        if not (n2[-2:] == ["@Ok", "0"] and isinstance(r2, tuple) and r2[0] == "call" and r2[1] == hc[0].bb):
            continue
        labs = dict(si["edges"])
        for lab, tgt in labs.items():
            vals = []
            for lf in paths.explore(pcode, tgt, lambda t_: False, lambda b_, x_: False, max_paths=500):
                if lf["kind"] == "return":
                    vals.append(paths.value_on_path(pcode, [sbb] + lf["path"], 0))
            if vals and all(v is not None and v[0] == "agg" and v[3] == "Ok" and v[5] and peel(v[5][0])[0] == "agg"
                            and peel(v[5][0])[3] == "Some" for v in vals):
                found.add(lab)
    if len(found) == 1:
        return next(iter(found))
    # `Ok(delivered.then_some(len))` and similar: the payload is used as a boolean without a switch of its own
    return True if not found else None


def is_deliver(f, v):
    """v (a return value of the handler) is Ok(<deliver>)"""
    if v is None or v[0] != "agg" or v[3] != "Ok" or not v[5]:
        return False
    lab = deliver_label(f)
    p = peel(v[5][0])
    if lab is True:
        return p[0] == "const" and p[2] == 1
    if isinstance(lab, str):
        return p[0] == "agg" and p[3] == lab
    return False


def is_pending_ids(names):
    """the chain denotes the table of pending inbound QoS 2 identifiers -- the field itself, or the collection inside a
    private newtype wrapped around it (`InboundQos2(Vec<..>)`)"""
    names = [k for k in names if not k.startswith("@")]
    return names[:1] == ["pending_server_packet_ids"] and all(k in ("0", "ids", "inner", "#") for k in names[1:]) and len(names) <= 2


def is_ok(v, payload=None):
    if v is None or v[0] != "agg" or v[3] != "Ok":
        return False
    if payload is None:
        return True
    p = v[5][0]
    return p[0] == "const" and p[2] == payload


def control_enqueue_mark(f, hb, variant):
    qc = outq.role_fn(f, "queue_control")
    marks = {}
    for c in outq.calls_to(f, hb, qc):
        a = hb.operand_term(c.args[1])
        for alt in phi_alts(a):
            if alt[0] == "agg" and alt[2] and alt[2].endswith("ControlAction") and alt[3] == variant:
                marks[c.bb] = (c, alt)
    return marks


def id_from_packet(t, variant, pkt):
    """identifier term derived from (<pkt> as <variant>).0.packet_id through ok_or/`?` only"""
    if t is None:
        return False
    for alt in phi_alts(t):
        x = peel(alt)
        while isinstance(x, tuple) and (x[0] == "ok" or is_call(x, "Option::<T>::ok_or", "ok_or")):
            x = peel(x[1]) if x[0] == "ok" else peel(x[3][0])
        r, n = chain(x)
        if not (r == ("param", pkt) and n in (["@" + variant, "0", "packet_id"], ["@" + variant, "0", "packet_id", "@Some", "0"])):
            return False
    return True


def rule_ack(R):
    f = R.f
    hb, sw, entry, qsw = handler_publish(f)
    R.touch(hb)
    pkt = param_packet(hb)
    for qos, ack, need in (("AtLeastOnce", "PubAck", "deliver"), ("ExactlyOnce", "PubRec", "any-ok")):
        start = qsw["edges"].get(qos)
        if start is None:
            raise AnchorLost("publish-arm:" + qos)
        marks = control_enqueue_mark(f, hb, ack)
        leaves = paths.explore(hb, start, lambda t: False, lambda b, bb: bb in marks)
        bad = None
        n = 0
        for lf in leaves:
            if lf["kind"] != "return":
                continue
            v = ret_value_on_path(hb, lf["path"])
            relevant = is_deliver(f, v) if need == "deliver" else is_ok(v)
            if not relevant:
                continue
            n += 1
            if not lf["marked"]:
                bad = lf
        R.stats["paths"] += n
        R.ob("ack/%s" % ack, bad is None and n > 0 and bool(marks),
             "for an inbound QoS %s PUBLISH every feasible path on which the handler %s passes the enqueue of a %s "
             "(%d such paths)%s" % ("1" if ack == "PubAck" else "2",
                                    "reports `deliver`" if need == "deliver" else "returns without error", ack, n,
                                    "" if bad is None else ": path %s avoids it" % bad["path"][:30]),
             where=hb.line(start))
        for bb, (c, alt) in sorted(marks.items()):
            fields = dict(zip(alt[4], alt[5]))
            R.ob("ack/%s-id" % ack, id_from_packet(fields.get("packet_id"), "Publish", pkt),
                 "the %s carries the identifier of the inbound PUBLISH (found %s)" % (ack, show(fields.get("packet_id"))),
                 where=c.span)
            arms = arm_of(hb, sw, bb)
            R.ob("ack/%s-arm" % ack, arms == ["Publish"], "%s is only queued from the PUBLISH arm (found %s)" % (ack, arms),
                 where=c.span)
    # the ack enqueue goes to the control queue, which has its own storage (not the retained slots)
    qc = outq.role_fn(f, "queue_control")
    cen = outq.census(f)
    pushes = [(b, c) for (b, c, m, mut) in cen["pending_control"]["calls"] if m in outq.GROW]
    re = outq.rearm_sites(f)
    _, ccode = roles.session_connect(f)
    R.ob("ack/replayed-whole", any(q.get("pending_control") == "always" for n, q in re.items() if outq.calls_to(f, ccode, f.bodies[n])),
         "an acknowledgement still owed when the connection is lost is sent again from its first byte on the next "
         "connection (every control entry is re-armed unconditionally)")
    R.ob("ack/own-queue", len(pushes) == 1 and pushes[0][0].name == qc.name,
         "acknowledgements are queued in `pending_control` only (even when all retained slots are taken)", where=qc.span)


def rule_once(R):
    f = R.f
    hb, sw, entry, qsw = handler_publish(f)
    start = qsw["edges"]["ExactlyOnce"]
    pkt = param_packet(hb)
    pushes = {}
    for c in hb.calls.values():
        if c.bb in hb.reachable and c.args and outq.mname(c) in outq.GROW:
            r, n = chain(hb.operand_term(c.args[0]))
            if is_pending_ids(n):
                pushes[c.bb] = c
    leaves = paths.explore(hb, start, lambda t: False, lambda b, bb: bb in pushes)
    bad = None
    n = 0
    for lf in leaves:
        if lf["kind"] != "return":
            continue
        rv_ = ret_value_on_path(hb, lf["path"])
        # a verdict that is not a constant on this path (`Ok(!duplicate && reason.success())`) may be "deliver"
        maybe = rv_ is not None and rv_[0] == "agg" and rv_[3] == "Ok" and rv_[5] and deliver_label(f) is True \
            and peel(rv_[5][0])[0] not in ("const", "agg")
        if is_deliver(f, rv_) or maybe:
            n += 1
            if not lf["marked"]:
                bad = lf
    R.ob("once/deliver-implies-recorded", bad is None and n > 0 and bool(pushes),
         "an inbound QoS 2 PUBLISH is delivered only on paths that just recorded its identifier as pending (%d paths)%s"
         % (n, "" if bad is None else ": path %s delivers without recording" % bad["path"][:30]), where=hb.line(start))
    for bb, c in sorted(pushes.items()):
        R.ob("once/record-id", id_from_packet(hb.operand_term(c.args[1]), "Publish", pkt),
             "the recorded identifier is the inbound packet's", where=c.span)
        # control dependent on contains(..) == false
        edges = []
        for sbb in hb.switches:
            si = hb.switch_info(sbb)
            for alt in phi_alts(si["subject"]):
                if is_call(alt, "contains") and "pending_server_packet_ids" in show(alt[3][0]) and si["edges"].get(False) is not None:
                    edges.append((sbb, si["edges"][False]))
        ok, off, np_ = paths.every_path_passes(hb, start, bb, via_edges=edges) if edges else (False, None, 0)
        R.ob("once/record-if-new", ok,
             "the identifier is recorded only on the `not already pending` edge (a retransmission is acknowledged but "
             "neither recorded nor delivered again)", where=c.span)
    R.floor("once", len(pushes), 1, "recording sites")
    # broker identifiers and client identifiers are separate spaces: nothing in the PUBLISH arm may consult the client's
    # own in-flight tables (an inbound PUBLISH whose identifier happens to equal an unfinished outbound exchange is new)
    _, p_entry, p_blocks = outq.handler_arm(f, "Publish")
    foreign = []
    for bb in sorted(p_blocks):
        c = hb.calls.get(bb)
        if c is None or bb not in hb.reachable:
            continue
        for t in f.call_targets(c):
            if t in f.bodies:
                touched = f.fields_touched(t)
                hit = sorted(n_ for (a_, n_) in touched if a_ == OUTBOUND and n_ in ("retained", "pending_release"))
                if hit:
                    foreign.append((c, hit))
    R.ob("once/inbound-identifier-space", not foreign,
         "whether an inbound PUBLISH is new is decided from the pending *inbound* identifiers only%s"
         % ("" if not foreign else ": `%s` in the PUBLISH arm reads the outbound table(s) %s" % (foreign[0][0].name(), foreign[0][1])),
         where=foreign[0][0].span if foreign else hb.line(start))
    # capacity of the pending set is what CONNECT advertises as Receive Maximum
    _, hsb, hcode = roles.handshake(f)
    ok = False
    for bb, j, s in hcode.assigns():
        rv = s["rv"]
        if "agg" in rv and rv["agg"].get("adt") == "properties::Property" and rv["agg"].get("variant") == "ReceiveMaximum":
            t = hcode.rvalue_term(rv)
            ok = any(is_call(x, "capacity") and "pending_server_packet_ids" in show(x) for x in walk(t))
    R.ob("once/receive-maximum", ok,
         "CONNECT advertises the capacity of the pending-identifier set as Receive Maximum", where=hsb.span)


def rule_rel(R):
    f = R.f
    hb, sw = outq.inbound_handler(f)
    _, entry, blocks = outq.handler_arm(f, "PubRel")
    pkt = param_packet(hb)
    marks = control_enqueue_mark(f, hb, "PubComp")
    leaves = paths.explore(hb, entry, lambda t: False, lambda b, bb: bb in marks)
    bad = None
    n = 0
    for lf in leaves:
        if lf["kind"] == "return" and is_ok(ret_value_on_path(hb, lf["path"])):
            n += 1
            if not lf["marked"]:
                bad = lf
    R.ob("rel/pubcomp", bad is None and n > 0 and bool(marks),
         "every non-error path of the PUBREL arm queues a PUBCOMP (%d paths)" % n, where=hb.line(entry))
    # position switch
    some_t, none_t = roles.lookup_edges(hb, blocks, "pending_server_packet_ids")
    if some_t is None:
        raise AnchorLost("pubrel-arm:lookup")
    for bb, (c, alt) in sorted(marks.items()):
        fields = dict(zip(alt[4], alt[5]))
        R.ob("rel/pubcomp-id", chain(fields["packet_id"]) == (("param", pkt), ["@PubRel", "0", "packet_id"]),
             "the PUBCOMP carries the identifier of the PUBREL (found %s)" % show(fields["packet_id"]), where=c.span)
        # reason table: each alternative of the reason is assigned on the right edge
        table = {}
        for bb2, j, s in hb.assigns():
            rv = s["rv"]
            if bb2 in blocks and "agg" in rv and rv["agg"].get("adt") == "reason_codes::ReasonCode":
                if not any(s["dst"]["l"] == l for l in [s["dst"]["l"]]):
                    continue
                side = []
                if some_t is not None and bb2 in hb.reach([some_t], avoid=[none_t] if none_t is not None else []) and bb2 not in hb.reach([none_t] if none_t is not None else []):
                    side.append("found")
                if none_t is not None and bb2 in hb.reach([none_t]) and bb2 not in hb.reach([some_t]):
                    side.append("not-found")
                table[rv["agg"]["variant"]] = side
        # over all PUBCOMPs of the arm (one with a computed reason, or one per outcome): exactly the two reasons
        alts = []
        for bb_, (c_, alt_) in marks.items():
            alts += [a[3] for a in phi_alts(dict(zip(alt_[4], alt_[5]))["reason"]) if a[0] == "agg"]
        mine = [a[3] for a in phi_alts(fields["reason"]) if a[0] == "agg"]
        ok = sorted(set(alts)) == ["PacketIdNotFound", "Success"] and bool(mine) and \
            table.get("Success") == ["found"] and table.get("PacketIdNotFound") == ["not-found"]
        # a PUBCOMP whose reason is fixed sits on the side of the lookup that its reason belongs to
        if ok and len(mine) == 1 and len(marks) > 1:
            side_ = "found" if mine[0] == "Success" else "not-found"
            on_found = some_t is not None and bb in hb.reach([some_t], avoid=[none_t] if none_t is not None else []) and bb not in hb.reach([none_t] if none_t is not None else [])
            on_missing = none_t is not None and bb in hb.reach([none_t]) and bb not in hb.reach([some_t])
            ok = on_found if side_ == "found" else on_missing
        R.ob("rel/reason-table", ok,
             "PUBCOMP reason: Success exactly when the identifier was pending, PacketIdNotFound otherwise (extracted: %s)"
             % table, where=c.span)
    # the found edge removes the identifier
    rem = [c for c in hb.calls.values() if c.bb in blocks and outq.mname(c) in ("swap_remove", "remove")
           and is_pending_ids(chain(hb.operand_term(c.args[0]))[1])]
    okr = bool(rem) and some_t is not None
    if okr:
        for c in rem:
            okr = okr and c.bb in hb.reach([some_t]) and c.bb not in hb.reach([none_t])
        m = list(marks.keys())
        if m:
            okp, off, _ = paths.every_path_passes(hb, some_t, m[0], via_blocks=[c.bb for c in rem])
            okr = okr and okp
    R.ob("rel/forget", okr,
         "on the found edge the identifier is removed from the pending set before the PUBCOMP is queued (a later "
         "retransmission of that identifier is a new message)", where=hb.line(entry))


def rule_offarena(R):
    f = R.f
    cm = roles.conn_methods(f)
    pb, pcode = cm["perform_outbound_step"]
    n = 0
    for c in pcode.calls.values():
        if c.bb in pcode.reachable and c.is_("serialize_control_packet", "serialize_pubrel"):
            n += 1
            a = pcode.operand_term(c.args[0])
            arena = any(x[0] == "field" and x[2] == "buf" and x[3] == OUTBOUND for x in walk(a))
            local_array = any(x[0] == "repeat" for x in walk(a)) or any(x[0] == "agg" and x[1] == "array" for x in walk(a))
            R.ob("offarena/%s" % c.name(), (not arena) and local_array,
                 "%s encodes into a stack buffer, not the transmit arena (buffer = %s): owed acknowledgements never "
                 "need arena space" % (c.name(), show(a)), where=c.span)
    R.floor("offarena", n, 2, "serialisation sites of control packets")


def rule_reset(R):
    f = R.f
    rst = outq.session_reset(f)
    ok = False
    for c in rst.calls.values():
        if c.bb in rst.reachable and outq.mname(c) == "clear" and c.args:
            r, n = chain(rst.operand_term(c.args[0]))
            if is_pending_ids(n):
                ok = True
    R.ob("reset/clears-pending-ids", ok, "a fresh broker session forgets all pending inbound QoS 2 identifiers", where=rst.span)
    # nobody else shrinks the pending set except the PUBREL arm and the reset
    hb, sw = outq.inbound_handler(f)
    n = 0
    for (b, c, i) in f.mut_uses(SDATA, "pending_server_packet_ids"):
        m = outq.mname(c)
        if m in outq.SHRINK:
            n += 1
            okw = b.name == rst.name or (b.name == hb.name and arm_of(hb, sw, c.bb) == ["PubRel"])
            R.ob("reset/who-forgets/%s/%s" % (b.fn_name, m), okw,
                 "pending inbound identifiers are forgotten only by the PUBREL arm and by the session reset (found `%s` in %s)"
                 % (m, b.name), where=c.span)
    R.floor("reset/who-forgets", n, 2, "shrinking calls on the pending-identifier set")


def rule_fresh(R):
    """the reset that forgets the pending inbound identifiers runs whenever the broker reports a fresh session -- on every
    path, and before the handshake can fail for another reason (a reset that is skipped when a later CONNACK property is
    rejected leaves identifiers of the dead session behind: a new PUBLISH reusing one is acknowledged but never delivered)"""
    from .c05 import clause_fresh_reset
    clause_fresh_reset(R, "fresh")


def rule_faithful(R):
    f = R.f
    cm = roles.conn_methods(f)
    db, dcode = cm["decode_inbound_publish"]
    R.touch(dcode)
    # slice = buffer[..packet_length] of the reader's buffer
    fb = dcode.find_calls("ReceivedPacket::<'a>::from_buffer", "from_buffer")
    ok = False
    if len(fb) == 1:
        a = dcode.operand_term(fb[0].args[0])
        for x in walk(a):
            if is_call(x, "Index::index", "index") and len(x[3]) == 2:
                rng = peel(x[3][1])
                base_root, base_names = chain(x[3][0], extra=("Index::index", "index"))
                if rng[0] == "agg" and rng[4] == ["end"] and rng[5][0] == ("param", "packet_length") \
                        and base_names[-2:] == ["packet_reader", "buffer"]:
                    ok = True
    R.ob("faithful/slice", ok,
         "the delivered message is decoded from receive_buffer[..packet_length] (the untouched bytes of exactly the "
         "packet that was consumed)", where=fb[0].span if fb else db.span)
    # fields passed through
    new = dcode.find_calls("InboundPublish::<'a>::new", "InboundPublish::new")
    okf = False
    if len(new) == 1:
        want = [["topic", "0"], ["payload"], ["properties"], ["retain"], ["qos"]]
        got = []
        for a in new[0].args:
            r, n = chain(dcode.operand_term(a))
            got.append(n[-2:] if n[-1:] == ["0"] else n[-1:])
        okf = got == want
        R.ob("faithful/fields", okf,
             "InboundPublish is built from the decoded PUBLISH's topic, payload, properties, retain and QoS, in that "
             "order, without transformation (found %s)" % got, where=new[0].span)
    else:
        R.ob("faithful/fields", False, "InboundPublish::new call not found", where=db.span)
    # packet_length comes from the Inbound progress value in every caller
    def carries_inbound_length(code, t, depth=0):
        """t is the payload of a Progress::Inbound -- directly, or re-wrapped by a local function on the way (e.g.
        wait_for_progress handing it on as Some(length))"""
        ok_all = True
        for alt in phi_alts(t):
            r, names = chain(alt)
            if names[-2:] == ["@Inbound", "0"]:
                continue
            g = peel(r)
            while isinstance(g, tuple) and g[0] in ("ok", "await"):
                g = peel(g[1])
            if depth >= 2 or not (isinstance(g, tuple) and g[0] == "call" and g[2] in f.bodies) or not names:
                return False
            gcode = f.code(f.bodies[g[2]])
            hit = 0
            for ralt in phi_alts(gcode.local_term(0)):
                x = peel(ralt)
                if not (x[0] == "agg" and x[1] == "adt" and x[3] == "Ok" and x[5]):
                    continue   # an error return carries no length
                cur = peel(x[5][0])
                steps = list(names)
                good = True
                while steps:
                    st = steps.pop(0)
                    if st.startswith("@"):
                        if not (cur[0] == "agg" and cur[1] == "adt"):
                            good = False
                            break
                        if cur[3] != st[1:]:
                            cur = None   # another variant: does not reach the projection
                            break
                    else:
                        if not (cur[0] == "agg" and st in cur[4]):
                            good = False
                            break
                        cur = peel(cur[5][cur[4].index(st)])
                if not good:
                    return False
                if cur is None:
                    continue
                hit += 1
                if not carries_inbound_length(gcode, cur, depth + 1):
                    return False
            ok_all = ok_all and hit > 0
        return ok_all

    n = 0
    for name in ("drive", "poll", "recv"):
        b, code = cm[name]
        for c in outq.calls_to(f, code, db):
            n += 1
            t = code.operand_term(c.args[1])
            r, names = chain(t)
            R.ob("faithful/length/%s" % name, carries_inbound_length(code, t),
                 "%s decodes the length carried by Progress::Inbound (found %s)" % (name, show(t)), where=c.span)
    R.floor("faithful/length", n, 3, "callers of decode_inbound_publish")
    # process_received_packet: Some(len) only on Ok(true), len = take_packet().0
    pb, pcode = cm["process_received_packet"]
    hb, sw = outq.inbound_handler(f)
    hc = outq.calls_to(f, pcode, hb)
    okp = False
    if len(hc) == 1:
        res = pcode.result_switches(lambda x: peel(x)[0] == "call" and peel(x)[1] == hc[0].bb)
        # find assignment _0 = Ok(Some(len))
        for bb, j, s in pcode.assigns():
            if s["dst"]["l"] == 0 and not s["dst"]["proj"]:
                v = pcode.rvalue_term(s["rv"])
                if v[0] == "agg" and v[3] == "Ok" and v[5][0][0] == "agg" and v[5][0][3] == "Some":
                    ln = v[5][0][5][0]
                    from_take = any(is_call(x, "take_packet") for x in walk(ln))
                    # control dependent on Ok(true)
                    dom = False
                    for si in res:
                        okt = si["edges"].get("Ok")
                        if okt is not None and pcode.dominates(okt, bb):
                            dom = True
                    okp = from_take and dom
                    # and the inner bool must be the true edge
                    tru = False
                    for sbb in pcode.switches:
                        si2 = pcode.switch_info(sbb)
                        r2, n2 = chain(si2["subject"])
                        if n2[-2:] == ["@Ok", "0"] and si2["edges"].get(deliver_label(f)) is not None:
                            tru = pcode.must_pass([0], [bb], via_edges=[(sbb, si2["edges"][deliver_label(f)])])[0]
                    okp = okp and tru
    if len(hc) == 1 and not okp:
        # read per path: the function returns Ok(Some(len)) only on paths that took the Ok edge of the handler's result and
        # the true edge of a test of its payload (`Ok(true) => ..`, `if delivered { .. }`, `delivered.then_some(len)`)
        res = pcode.result_switches(lambda x: peel(x)[0] == "call" and peel(x)[1] == hc[0].bb)
        ok_edges = set((si["bb"], si["edges"]["Ok"]) for si in res if si["edges"].get("Ok") is not None)
        tru_edges = set()
        for sbb in pcode.switches:
            si2 = pcode.switch_info(sbb)
            r2, n2 = chain(si2["subject"])
            if n2[-2:] == ["@Ok", "0"] and isinstance(peel(r2), tuple) and peel(r2)[0] == "call" and peel(r2)[1] == hc[0].bb \
                    and si2["edges"].get(deliver_label(f)) is not None:
                tru_edges.add((sbb, si2["edges"][deliver_label(f)]))
        some_paths = 0
        good = bool(ok_edges) and bool(tru_edges)
        for lf in paths.explore(pcode, 0, lambda t_: False, lambda b_, x_: False, max_paths=4000):
            if lf["kind"] == "limit":
                good = False
            if lf["kind"] != "return":
                continue
            v = paths.value_on_path(pcode, lf["path"], 0)
            if v is None or not (v[0] == "agg" and v[3] == "Ok" and v[5]):
                continue
            inner = peel(v[5][0])
            if inner[0] == "agg" and inner[3] == "Some":
                some_paths += 1
                p_ = lf["path"]
                es = set((p_[i], p_[i + 1]) for i in range(len(p_) - 1))
                if not (es & ok_edges and es & tru_edges and any(is_call(x, "take_packet") for x in walk(inner[5][0]))):
                    good = False
        okp = good and some_paths >= 1
    R.ob("faithful/deliver-only-on-true", okp,
         "process_received_packet reports an inbound message (with the length returned by take_packet) only when the "
         "handler returned Ok(true)", where=pb.span)


def rule_surfaced(R):
    """a PUBLISH that was taken out of the reader (and acknowledged / recorded as pending) is handed to the application
    before anything can interrupt the call: no await point between taking it and reporting it (shared with C13)"""
    from .c13 import clause_deliver_before_await
    clause_deliver_before_await(R, "surfaced")


def rule_shared_rx(R):
    """every PUBLISH the broker may send is surfaced: a packet of exactly the advertised Maximum Packet Size (= receive buffer length) fits the receive window -- C14's rule"""
    from .c14 import rule_rx as _r
    _r(R)


def rule_shared_decode(R):
    """a PUBLISH is surfaced with the properties the broker sent: every property identifier decodes to its own variant -- C20's / C09's read table"""
    from .c20 import rule_decode as _r
    _r(R)


def rule_property_cursor(R):
    """a PUBLISH is surfaced with every property the broker sent: the iterator over the encoded block advances by exactly what each property occupied -- C08's clause"""
    from .c08 import clause_property_cursor
    clause_property_cursor(R, "props-iter")


def rule_shared_store(R):
    """every acknowledgement reaches the broker whole: an ack the transport accepted only in part is neither flushed nor dropped from its queue, its write resumes at the recorded offset -- C13's rule"""
    from .c13 import rule_store as _r
    _r(R)


def run(R):
    R.rule("store", rule_shared_store)
    R.rule("props-iter", rule_property_cursor)
    R.rule("decode", rule_shared_decode)
    R.rule("rx", rule_shared_rx)
    R.rule("surfaced", rule_surfaced)
    R.rule("ack", rule_ack)
    R.rule("once", rule_once)
    R.rule("rel", rule_rel)
    R.rule("offarena", rule_offarena)
    R.rule("reset", rule_reset)
    R.rule("fresh", rule_fresh)
    R.rule("faithful", rule_faithful)
