"""C13 — cancelling a cancel-safe operation loses, duplicates and corrupts nothing (structural clauses)."""
from ..core import AnchorLost, chain, peel, phi_alts, is_call, walk, show, IO_READ, IO_WRITE
from .. import paths
from . import roles, outq, ops
from .roles import CONN, OUTBOUND
from .c11 import ordinal_keys, site_id

EXPLANATION = (
    "Static clauses of C13 on mir_built (async bodies before the coroutine transform, so every await is a Yield with "
    "its cancellation edge): (progress) for every transport read/write whose byte count advances a cursor, the count is "
    "handed to a state-committing callee (or returned to the caller, where the obligation continues) before the next "
    "await point on every path — a count that lives only in a future-local across an await is lost when the future is "
    "dropped; evaluated over the call tree of poll/recv/drive/subscribe/unsubscribe/disconnect and QoS>0 publish, with the "
    "QoS 0 write exempt only where it is control dependent on `no packet id`; (atomic) no await between identifier "
    "allocation and the enqueue / quota decrement, and the inbound handler never awaits; (enq) enqueue precedes the "
    "first write; (store) the progress setters store exactly the count they are given. Equality of whole cancelled and "
    "uncancelled runs is a relation between executions and is not decided."
)
ASSUMPTIONS = ["the transport's own read/write/flush futures are cancel-safe (as the crate's documentation requires)"]

CANCEL_SAFE_OPS = ("poll", "recv", "drive", "subscribe", "unsubscribe", "disconnect", "disconnect_with", "publish")


def writes_through_param(f):
    def pred(b):
        for (bb, j, dst, rv, s) in b.stores():
            if bb in b.reachable and dst["proj"] and dst["proj"][0] == "deref" and 1 <= dst["l"] <= b.arg_count:
                return True
            if bb in b.reachable and dst["proj"] and dst["proj"][0] == "deref":
                t = b.place_term(dst)
                r, n = chain(t)
                if r[0] == "param":
                    return True
        return False
    return f.summary("writes_through_param", pred)


def derived_from(t, wbb):
    for x in walk(t):
        if x[0] == "call" and x[1] == wbb:
            return True
    return False


def after_await_block(code, call):
    """block at which the awaited result of `call` is available (Ready edge of its poll switch)"""
    out = []
    for bb in code.switches:
        si = code.switch_info(bb)
        if si["enum"] != "core::task::Poll":
            continue
        for alt in phi_alts(si["subject"]):
            if is_call(alt, "core::future::Future::poll") and alt[3]:
                fut = peel(alt[3][0])
                if isinstance(fut, tuple) and fut[0] == "call" and fut[1] == call.bb and si["edges"].get("Ready") is not None:
                    out.append(si["edges"]["Ready"])
    return out


class Progress:
    def __init__(self, f):
        self.f = f
        self.wtp = writes_through_param(f)
        self.memo = {}
        self.detail = {}

    def returns_count(self, body):
        """function returns a value derived from a transport byte count"""
        return self.analyse(body)[1]

    def unsafe(self, body):
        return self.analyse(body)[0]

    def count_sites(self, code):
        f = self.f
        out = []
        for c in code.calls.values():
            if c.bb not in code.reachable:
                continue
            if c.path in (IO_READ, IO_WRITE):
                out.append((c, "io"))
                continue
            for t in f.call_targets(c):
                tb = f.bodies[t]
                if tb.kind in ("fn", "assoc_fn") and tb.name != code.root and self.analyse(f.code(tb))[1]:
                    out.append((c, "via:" + tb.fn_name))
                    break
        return out

    def analyse(self, code):
        """(unsafe_sites, returns_count) for a code body"""
        if code.name in self.memo:
            return self.memo[code.name]
        self.memo[code.name] = ([], False)  # recursion guard
        f = self.f
        bad = []
        returns = False
        for (c, kind) in self.count_sites(code):
            starts = after_await_block(code, c) or ([c.target] if c.target is not None else [])
            committed = set()
            for c2 in code.calls.values():
                if c2.bb == c.bb or c2.bb not in code.reachable:
                    continue
                if c2.path and c2.path.startswith("core::"):
                    continue
                tg = f.call_targets(c2)
                if not tg or not any(t in self.wtp for t in tg):
                    continue
                if any(derived_from(code.operand_term(a), c.bb) for a in c2.args):
                    committed.add(c2.bb)
            ret_blocks = set()
            for bb, j, s in code.assigns():
                if s["dst"]["l"] == 0 and not s["dst"]["proj"] and bb in code.reachable:
                    t = code.rvalue_term(s["rv"])
                    # Ok(count-derived)
                    if t[0] == "agg" and t[3] == "Ok" and derived_from(t, c.bb):
                        ret_blocks.add(bb)
                        returns = True
            region = code.reach(starts, avoid=committed | ret_blocks)
            ys = sorted(region & code.yield_blocks())
            # yields of the very await of this call (pending loop) precede completion and do not count
            own = set()
            for (yb, res, drop) in code.yields:
                if yb in ys:
                    pass
            if ys:
                bad.append((c, kind, ys[0]))
        # awaiting an unsafe helper makes this function unsafe at that site
        for c in code.calls.values():
            if c.bb not in code.reachable:
                continue
            for t in f.call_targets(c):
                tb = f.bodies[t]
                if tb.kind in ("fn", "assoc_fn") and not roles.self_is(tb, CONN) and tb.name != code.root:
                    sub = self.analyse(f.code(tb))[0]
                    if sub:
                        bad.append((c, "awaits:" + tb.fn_name, None))
        self.memo[code.name] = (bad, returns)
        return self.memo[code.name]


def qos0_exempt(code, bb):
    """site is control dependent on the `no packet identifier` (QoS 0) outcome in publish"""
    edges = []
    for sbb in code.switches:
        si = code.switch_info(sbb)
        r, n = chain(si["subject"])
        txt = show(si["subject"])
        if si["enum"] != "core::option::Option" or si["edges"].get("None") is None:
            continue
        alloc = outq.allocator(code.facts)
        alts = phi_alts(peel(si["subject"]))
        # the Option holding the freshly allocated identifier: `cond.then(|| alloc())` or None / Some(alloc()) alternatives
        is_id = "then" in txt or (any(a[0] == "agg" and a[3] == "Some" and a[5] and peel(a[5][0])[0] == "call" and peel(a[5][0])[2] == alloc.name for a in alts)
                                  and all(a[0] == "agg" and a[2] == "core::option::Option" for a in alts))
        if is_id:
            edges.append((sbb, si["edges"]["None"]))
    # `if let Some(packet_id) = packet_id { ...; return } <qos0 code>`: reachable only via the None edge
    return bool(edges) and code.must_pass([0], [bb], via_edges=edges)[0]


def rule_progress(R):
    f = R.f
    P = Progress(f)
    cm = roles.conn_methods(f)
    ops_ = roles.public_ops(f)
    # Connection methods reachable from cancel-safe operations
    conn_by_name = {b.name: n for n, (b, c) in cm.items()}
    reach = set()
    work = [n for n in CANCEL_SAFE_OPS if n in cm]
    for n in CANCEL_SAFE_OPS:
        if n not in cm:
            raise AnchorLost("cancel-safe-op:" + n)
    while work:
        n = work.pop()
        if n in reach:
            continue
        reach.add(n)
        code = cm[n][1]
        for c in code.calls.values():
            if c.bb not in code.reachable:
                continue
            for t in f.call_targets(c):
                root = f.bodies[t].root if f.bodies[t].kind in ("closure", "coroutine") else t
                if root in conn_by_name and conn_by_name[root] not in reach:
                    work.append(conn_by_name[root])
    nsites = 0
    for n in sorted(reach):
        b, code = cm[n]
        bad, _ = P.analyse(code)
        bad_by_bb = {c.bb: (kind, y) for (c, kind, y) in bad}
        sites = [c for (c, k) in P.count_sites(code)]
        # plus awaited non-Connection does_io helpers (they may be unsafe internally)
        for c in code.calls.values():
            if c.bb in code.reachable and c not in sites:
                for t in f.call_targets(c):
                    tb = f.bodies[t]
                    if tb.kind in ("fn", "assoc_fn") and not roles.self_is(tb, CONN) and t in f.does_io():
                        sites.append(c)
                        break
        if not sites:
            continue
        R.touch(code)
        for c, k in ordinal_keys(sites):
            nsites += 1
            if n == "publish" and qos0_exempt(code, c.bb):
                R.ob("progress/%s/%s" % (n, k), True,
                     "QoS 0 write in publish: documented as not cancel-safe and control dependent on `no packet id` (exempt)",
                     where=c.span, nontrivial=False)
                continue
            ok = c.bb not in bad_by_bb
            why = ""
            if not ok:
                kind, y = bad_by_bb[c.bb]
                if kind.startswith("awaits:"):
                    h = kind.split(":", 1)[1]
                    sub = P.analyse(f.code([tb for tb in f.bodies.values() if tb.fn_name == h and tb.kind in ("fn", "assoc_fn")][0]))[0]
                    loc = sub[0][0].span if sub else "?"
                    why = (": `%s` keeps its transport progress (the byte count of the write at %s) only in a local of its "
                           "own future across its next await; dropping the future of Connection::%s after a partial write "
                           "forgets how many bytes the transport accepted" % (h, loc, n))
                else:
                    why = ": the byte count of `%s` is still only in a local at the await at %s" % (c.path, code.line(y))
            R.ob("progress/%s/%s" % (n, k), ok,
                 "transport progress made under Connection::%s via `%s` must be recorded in session state (or a caller-owned "
                 "reader) before the next await point%s" % (n, c.name(), why), where=c.span)
    R.floor("progress", nsites, 4, "transport sites in the call tree of cancel-safe operations")


def clause_deliver_before_await(R, prefix):
    """a consumed inbound PUBLISH is reported to the caller before the next await point (shared with C04)"""
    f = R.f
    cm = roles.conn_methods(f)
    pb, pcode = cm["process_received_packet"]
    # a consumed inbound PUBLISH is reported to the caller before the next await point: its length lives only in a local,
    # the packet is already out of the reader and its acknowledgement queued -- a cancellation in between would
    # acknowledge a message that is never delivered
    n = 0
    for name, (b, code) in sorted(cm.items()):
        for c in outq.calls_to(f, code, pb):
            if code.name == pcode.name:
                continue
            n += 1
            # where this call's Some(length) is turned into the report to the caller
            reports = []
            for bb2, j2, s2 in code.assigns():
                rv2 = s2["rv"]
                if bb2 in code.reachable and "agg" in rv2 and (rv2["agg"].get("adt") or "").endswith("Progress") and rv2["agg"].get("variant") == "Inbound":
                    t2 = code.rvalue_term(rv2)
                    r2, n2 = chain(t2[5][0]) if t2[5] else (None, [])
                    src = roles.ok_payload_source(r2) if n2[-2:] == ["@Some", "0"] or True else None
                    if any(x[0] == "call" and x[1] == c.bb for x in walk(t2)):
                        reports.append(bb2)
            ok = bool(reports)
            ys = set()
            if ok:
                fwd = code.reach([c.target], avoid=[c.bb])
                bwd = code.coreach(reports, avoid=[c.bb])
                ys = (fwd & bwd) & code.yield_blocks()
                ok = not ys
            R.ob("%s/%s#%d" % (prefix, name, n), ok,
                 "in Connection::%s an inbound PUBLISH taken out of the reader (process_received_packet -> Some(length)) is "
                 "returned to the caller with no await point in between%s" % (name, "" if not ys else ": yield at %s" % code.line(sorted(ys)[0])),
                 where=c.span)
    R.floor(prefix, n, 1, "callers of process_received_packet")


def rule_atomic(R):
    f = R.f
    for op in ops.ENQ_OPS:
        P = ops.pipeline(f, op)
        code = P.code
        if not P.alloc_sites or not P.retains:
            R.ob("atomic/%s" % op, False, "allocation or enqueue not found in %s" % op, where=P.fn.span)
            continue
        ends = [c.bb for c in P.retains]
        if op == "publish":
            ends = [bb for (bb, j, v, sp) in P.quota_stores] or ends
        region = code.between([code.calls[a].target if a in code.calls else a for a in P.alloc_sites], ends)
        ys = sorted(region & code.yield_blocks())
        R.ob("atomic/%s" % op, not ys,
             "no await point between identifier allocation and the %s in %s (a request is either fully enqueued or "
             "leaves no trace)%s" % ("quota decrement" if op == "publish" else "enqueue", op,
                                     "" if not ys else ": yield at %s" % code.line(ys[0])),
             where=code.line(P.alloc_sites[0]))
    hb, sw = outq.inbound_handler(f)
    my = f.may_yield()
    R.ob("atomic/handler", hb.name not in my, "the inbound packet handler contains no await point", where=hb.span)
    cm = roles.conn_methods(f)
    pb, pcode = cm["process_received_packet"]
    R.ob("atomic/process", pb.name not in my and not pb.is_async,
         "process_received_packet (take packet, handle, report) contains no await point", where=pb.span)
    clause_deliver_before_await(R, "atomic/deliver")


def rule_enq(R):
    for op in ops.ENQ_OPS:
        ops.clause_enqueue_before_write(R, "enq", op)


def rule_store(R):
    f = R.f
    st = "mqtt_client::outbound::SendState"
    pure = False
    try:
        sw = roles.method(f, st, "set_written")
    except AnchorLost:
        # the pure form: an associated function `fn(written, len) -> SendState` whose result the setters store
        cands = [b_ for b_ in f.bodies.values() if b_.kind == "assoc_fn" and b_.self_ty and b_.self_ty.startswith(st)
                 and b_.arg_count == 2 and b_.locals[0]["ty"].startswith(st) and not f.in_fuzzing(b_)
                 and [b_.locals[k_]["ty"] for k_ in (1, 2)] == ["usize", "usize"]]
        if len(cands) != 1:
            raise
        sw, pure = cands[0], True
    R.touch(sw)
    if pure:
        stores = [(0, sw.local_term(0))]
    else:
        stores = [(bb, sw.rvalue_term(rv)) for (bb, j, dst, rv, s) in sw.stores() if dst["proj"] == ["deref"]]
    # by position: the first count parameter is `written`, the second `len` (names are checked where they are the reference's)
    pw = sw.param_name(1 if pure else 2)
    pl = sw.param_name(2 if pure else 3)
    ok = len(stores) == 1
    if ok:
        alts = phi_alts(stores[0][1])
        kinds = {}
        for a in alts:
            if a[0] == "agg" and a[2] == st:
                kinds[a[3]] = a
        w = kinds.get("Write")
        ok = set(kinds) == {"Write", "Flush"} and w is not None and w[5][0] == ("param", pw)
        # Flush only on the written >= len edge
        if ok:
            okf = False
            for sbb in sw.switches:
                si = sw.switch_info(sbb)
                sj = si["subject"]
                if sj[0] == "bin" and sj[1] in ("Ge", "Le", "Lt", "Gt") and {peel(sj[2]), peel(sj[3])} == {("param", pw), ("param", pl)}:
                    # Flush on `written >= len` (however spelled): the edge on which the Flush aggregate is built
                    a_, b_ = peel(sj[2]), peel(sj[3])
                    op_ = sj[1] if a_ == ("param", pw) else {"Ge": "Le", "Le": "Ge", "Lt": "Gt", "Gt": "Lt"}[sj[1]]
                    lab_ = {"Ge": True, "Lt": False}.get(op_)
                    # the Flush values that can reach the stored state (not one built to compare against)
                    stored_locals = set()
                    if not pure:
                        for (bb_, j_, dst_, rv_, s_) in sw.stores():
                            if dst_["proj"] == ["deref"] and "use" in rv_:
                                pl_ = rv_["use"].get("move") or rv_["use"].get("copy")
                                if pl_ is not None and not pl_["proj"]:
                                    stored_locals.add(pl_["l"])
                    else:
                        stored_locals.add(0)
                    fl_blocks = [bb_ for bb_, j_, s_ in sw.assigns() if "agg" in s_["rv"] and s_["rv"]["agg"].get("variant") == "Flush"
                                 and (not stored_locals or s_["dst"]["l"] in stored_locals)]
                    if lab_ is not None and si["edges"].get(lab_) is not None and fl_blocks and \
                            all(sw.must_pass([0], [fb_], via_edges=[(sbb, si["edges"][lab_])])[0] for fb_ in fl_blocks):
                        okf = True
            ok = okf
    R.ob("store/set_written", ok,
         "SendState::set_written records exactly the count it is given (Write{written}) and moves to Flush only when "
         "written >= len", where=sw.span)
    # the three setters pass their arguments through
    n = 0
    widx, lidx = {}, {}
    for name in ("set_control_written", "set_retained_written", "set_release_written"):
        b = roles.method(f, OUTBOUND, name)
        cs = roles.calls_with_env(f, b, sw)
        # which of the setter's own parameters (by position, whatever they are called) reach set_written's `written` and `len`
        okc = len(cs) == 1
        if okc:
            o_ = 0 if pure else 1
            wt, lt = peel(cs[0][1](cs[0][0].args[o_])), peel(cs[0][1](cs[0][0].args[o_ + 1]))
            pn = {b.param_name(k): k - 1 for k in range(1, b.arg_count + 1)}
            okc = wt[0] == "param" and lt[0] == "param" and wt[1] in pn and lt[1] in pn and wt[1] != lt[1]
            # a parameter called `len` handed on as the count (or the reverse) is a swap inside the setter
            okc = okc and wt[1] != "len" and lt[1] != "written"
            if okc:
                widx[b.name], lidx[b.name] = pn[wt[1]], pn[lt[1]]
        n += 1
        R.ob("store/%s" % name, okc, "%s forwards the written count and the packet length unchanged" % name, where=b.span)
    cm = roles.conn_methods(f)
    pb, pcode = cm["perform_outbound_step"]
    setters = [roles.method(f, OUTBOUND, nm) for nm in ("set_control_written", "set_retained_written", "set_release_written")]

    def written_sinks(code, depth=0):
        """(call, term of the value that ends up as a setter's `written` argument, setter names) for the calls of `code`
        that reach a setter directly or through a function that forwards one of its own parameters"""
        out = []
        for c in code.calls.values():
            if c.bb not in code.reachable:
                continue
            tg = f.call_targets(c)
            hit = [s_ for s_ in setters if s_.name in tg]
            if hit and len(c.args) > 2:
                wi = set(widx.get(s_.name) for s_ in hit)
                li = set(lidx.get(s_.name) for s_ in hit)
                if len(wi) != 1 or None in wi or max(wi) >= len(c.args):
                    out.append((c, ("opaque", "setter"), set(s_.fn_name for s_ in hit)))
                    continue
                out.append((c, code.operand_term(c.args[next(iter(wi))]), set(s_.fn_name for s_ in hit)))
                if len(li) == 1 and None not in li and max(li) < len(c.args):
                    len_args.append((c, code.operand_term(c.args[next(iter(li))])))
                continue
            if depth >= 2:
                continue
            for g in tg:
                gb = f.bodies.get(g)
                if gb is None or gb.name == code.name or gb.kind not in ("fn", "assoc_fn") or gb.is_async:
                    continue
                for (c2, t2, names) in written_sinks(f.code(gb), depth + 1):
                    t2p = peel(t2)
                    idx = None
                    if t2p[0] == "param":
                        for k in range(1, gb.arg_count + 1):
                            if gb.param_name(k) == t2p[1]:
                                idx = k - 1
                    out.append((c, code.operand_term(c.args[idx]) if idx is not None and idx < len(c.args) else ("opaque", g), names))
        return out

    def is_count(y):
        r, nm = chain(y)
        r = peel(r)
        if isinstance(r, tuple) and r[0] == "await":
            r = peel(r[1])
        return (is_call(r, "write_current") or (isinstance(r, tuple) and r[0] == "call" and r[4] == IO_WRITE)) and nm == ["@Ok", "0"]

    len_args = []
    def is_count_call(r):
        r = peel(r)
        if isinstance(r, tuple) and r[0] == "await":
            r = peel(r[1])
        return is_call(r, "write_current") or (isinstance(r, tuple) and r[0] == "call" and len(r) > 4 and r[4] == IO_WRITE)

    sinks = written_sinks(pcode)
    reached = set()
    okp = bool(sinks)
    for (c, t, names) in sinks:
        reached |= names
        t = peel(t)
        # written_before + count
        if t[0] == "field":
            t = t[1]
        good = False
        if isinstance(t, tuple) and t[0] == "bin" and t[1].startswith("Add"):
            a, b2 = t[2], t[3]
            def is_before(y):
                alts_ = phi_alts(peel(y))
                return bool(alts_) and all(chain(z)[1][-1:] == ["written"] for z in alts_)
            good = (is_count(a) and is_before(b2)) or (is_count(b2) and is_before(a))
        okp = okp and good
    okp = okp and reached == set(s_.fn_name for s_ in setters)
    R.ob("store/step-accumulates", okp,
         "perform_outbound_step records written_before + count of the write that just completed", where=pb.span)
    # the flush that ends a packet (and lets its entry be marked sent / dropped) follows a write only when that write
    # completed the packet: the call is reached from the write only over the `written + count >= len` edge of a
    # comparison of the accumulated count with the packet's length
    wcalls = [c for c in pcode.calls.values() if c.bb in pcode.reachable and is_count_call(pcode.call_term(c.bb))]
    fl = roles.conn_methods(f).get("flush_current")
    okfl = bool(wcalls) and fl is not None
    nfl = 0
    if okfl:
        fcalls = [c for c in outq.calls_to(f, pcode, fl[0])]
        done_edges = []
        for sb in pcode.switches:
            if sb not in pcode.reachable:
                continue
            si = pcode.switch_info(sb)
            # the test itself, or a flag that carries it (`(packet, written >= len)` ... `if fully_written`): of the values
            # the flag may have, the one computed from the byte count is the one that reaches here from the write
            cands = [peel(x) for x in phi_alts(peel(si["subject"]))]
            cands = [x for x in cands if x[0] == "bin" and x[1] in ("Lt", "Ge", "Gt", "Le", "Eq", "Ne")
                     and any(is_count_call(y) for y in walk(x) if isinstance(y, tuple))]
            if len(cands) != 1:
                continue
            sj = cands[0]
            a, b2 = sj[2], sj[3]
            ca = any(is_count_call(y) for y in walk(a) if isinstance(y, tuple))
            cb = any(is_count_call(y) for y in walk(b2) if isinstance(y, tuple))
            if ca == cb:
                continue
            op = sj[1] if ca else {"Lt": "Gt", "Gt": "Lt", "Le": "Ge", "Ge": "Le", "Eq": "Eq", "Ne": "Ne"}[sj[1]]
            lab = {"Lt": False, "Ge": True, "Eq": True, "Ne": False}.get(op)     # acc < len: complete on false; acc >= len: on true
            if lab is not None and si["edges"].get(lab) is not None:
                done_edges.append((sb, si["edges"][lab]))
        # ... or the step asks the bookkeeping: the flag tested is the result of a chain of local calls that ends in
        # SendState::set_written and hands that function's own `reached Flush` answer through unchanged (a dispatcher over the
        # packet kind, the three setters -- which may only add `false` for "no such entry" -- and set_written returning
        # `*self == Flush` right after storing Flush exactly on `written >= len`)
        if ok:   # store/set_written holds: Flush is stored exactly on written >= len
            def reports_done(t_, depth=0):
                t_ = peel(t_)
                if depth > 4:
                    return False
                alts_ = [peel(a_) for a_ in phi_alts(t_)]
                if len(alts_) > 1:
                    calls_ = [a_ for a_ in alts_ if a_[0] == "call"]
                    rest_ = [a_ for a_ in alts_ if a_[0] != "call"]
                    return bool(calls_) and all(a_[0] == "const" and a_[2] == 0 for a_ in rest_) and all(reports_done(a_, depth + 1) for a_ in calls_)
                if t_[0] != "call" or t_[2] not in f.bodies:
                    return False
                cb_ = f.bodies[t_[2]]
                if cb_.name == sw.name:
                    r_ = peel(cb_.local_term(0))
                    if is_call(r_, "PartialEq::eq", "eq") and len(r_[3]) == 2:
                        x_, y_ = peel(r_[3][0]), peel(r_[3][1])
                        for u_, v_ in ((x_, y_), (y_, x_)):
                            while u_[0] in ("ref", "deref"):
                                u_ = peel(u_[1])
                            if u_ == ("param", "self") and v_[0] == "agg" and (v_[2] or "") == st and v_[3] == "Flush":
                                return True
                    return False
                if cb_.kind not in ("fn", "assoc_fn") or cb_.is_async:
                    return False
                return reports_done(f.code(cb_).local_term(0), depth + 1)
            for sb in pcode.switches:
                if sb not in pcode.reachable:
                    continue
                si = pcode.switch_info(sb)
                if reports_done(si["subject"]) and si["edges"].get(True) is not None:
                    done_edges.append((sb, si["edges"][True]))
        for w in wcalls:
            after = pcode.reach([w.target]) if w.target is not None else set()
            for c in fcalls:
                if c.bb in after:
                    nfl += 1
                    okfl = okfl and bool(done_edges) and pcode.must_pass([w.target], [c.bb], via_edges=done_edges)[0]
    R.ob("store/flush-after-complete-write", okfl and nfl >= 1,
         "in perform_outbound_step the flush that follows a write is reached only over the edge `written + count >= len` "
         "(a packet accepted in part is not flushed, marked sent or dropped)", where=pb.span)
    # the bookkeeping that retires a packet (mark Sent / drop the control entry) runs only once its flush has succeeded: in
    # every function that flushes the transport and then calls the completion, the completion is reached from the flush
    # only over its Ok edge -- never before the flush, never on its error edge.  An entry retired before its flush is lost
    # when the future is dropped at the flush, and has nothing left to re-arm when the flush fails.
    try:
        cfb, cfcode = roles.flush_completion(f)
    except AnchorLost:
        cfb = None
    ncf, okcf, whycf = 0, True, ""
    if cfb is not None:
        # the functions that mark a queue entry Sent (what the completion ends up calling)
        cen_ = outq.census(f)
        sent_fns = set()
        for q_ in outq.QUEUES:
            for (b2_, bb2_, field_, val_, span_) in cen_[q_]["elem_stores"]:
                if field_ == "state" and outq.is_sent(val_):
                    sent_fns.add(b2_.name)
        for name_, (b_, code_) in sorted(roles.conn_methods(f).items()):
            flushes = [c_ for c_ in code_.calls.values() if c_.bb in code_.reachable and c_.path == roles.IO_FLUSH]
            if code_.name == cfcode.name:
                # the bookkeeping was folded into the function that flushes: its sites are the calls that mark an entry Sent
                comp = [c_ for c_ in code_.calls.values() if c_.bb in code_.reachable and any(t_ in sent_fns for t_ in f.call_targets(c_))]
            else:
                comp = outq.calls_to(f, code_, cfb)
            if not comp or not flushes:
                continue
            ncf += 1
            ok_edges = []
            for c_ in flushes:
                res_, qs_ = roles.awaited_result_switches(code_, c_)
                for si_ in res_:
                    if si_["edges"].get("Ok") is not None:
                        ok_edges.append((si_["bb"], si_["edges"]["Ok"]))
                    elif si_["edges"].get("Err") is not None and si_.get("otherwise") is not None:
                        ok_edges.append((si_["bb"], si_["otherwise"]))
                for q_ in qs_:
                    if q_["cont"][1] is not None:
                        ok_edges.append(q_["cont"])
            for x_ in comp:
                if not ok_edges or not code_.must_pass([0], [x_.bb], via_edges=ok_edges)[0]:
                    okcf, whycf = False, " (in Connection::%s the completion at %s is reachable without a successful flush)" % (name_, code_.line(x_.bb))
    R.ob("store/complete-after-flush", okcf and ncf >= 1,
         "the completion bookkeeping of a flushed packet (entry marked Sent / control entry dropped, keep-alive refreshed) is "
         "reached only over the success edge of the transport flush%s" % whycf, where=pb.span)
    # ... and the length it hands over next to it is a packet length, not a count: the value in the `len` position of the
    # setter never derives from the transport's byte count (two `usize` arguments are easily transposed)
    okl = True
    for (c, t) in len_args:
        for y in walk(t):
            if isinstance(y, tuple) and is_count_call(y):
                okl = False
    R.ob("store/step-length-is-not-a-count", okl,
         "the argument perform_outbound_step passes in the setter's `len` position is the packet's length (it does not "
         "derive from the byte count of a write)", where=pb.span)


def rule_ping(R):
    """cancelling at a pending flush must not change what is sent: the "already queued" test that keeps the keep-alive
    from queueing a second PINGREQ has to see the one whose flush is still outstanding (shared with C10)"""
    from .c10 import clause_pending_ping_states
    clause_pending_ping_states(R, "ping/pending-states")


def rule_shared_sent(R):
    """a flush that completes after a cancellation is booked on the entry that was flushed (same queue, same identifier) -- C02's rule"""
    from .c02 import rule_sent as _r
    _r(R)


def rule_drain(R):
    """a cancelled operation may leave a queued packet half written; what the next operation sends must not depend on
    that: every direct transport write of an operation (QoS 0 PUBLISH, DISCONNECT) is preceded by a successful drain of the
    queues -- C01's rule, evaluated here"""
    from .c01 import rule_drain as _r
    _r(R)


def rule_shared_guard(R):
    """a cancelled operation leaves the handle live and consistent, or dead: at every transport call the latch is known to be unset on all paths (no teardown between two transport steps of one operation) -- C11's rule"""
    from .c11 import rule_guard as _r
    _r(R)


def run(R):
    R.rule("guard", rule_shared_guard)
    R.rule("drain", rule_drain)
    R.rule("sent", rule_shared_sent)
    R.rule("ping", rule_ping)
    R.rule("progress", rule_progress)
    R.rule("atomic", rule_atomic)
    R.rule("enq", rule_enq)
    R.rule("store", rule_store)
