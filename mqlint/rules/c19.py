"""C19 — invalid requests are refused locally and leave no trace; QoS capped when asked (structural clauses)."""
from ..core import AnchorLost, chain, peel, phi_alts, is_call, walk, show, same_shape
from .. import paths, oracle
from . import roles, outq, ops
from .roles import CONN
from .c01 import write_sites, INF, _interval
from .c04 import ret_value_on_path

EXPLANATION = (
    "Static clauses of C19 on mir_built: (table) the decision table of Property::is_valid_for (context x identifier, "
    "135 cells, extracted by constraint-tracking path enumeration) against MQTT 5: every property a client may attach "
    "must be accepted, everything else rejected, don't-care where the standard leaves freedom; (value) the value "
    "predicates of has_valid_value as intervals against the standard's ranges (accept exactly the legal values for "
    "properties with a range, everything for the others); (coverage) Properties::valid_for checks every property that "
    "Properties::serialize emits, in each representation; (order) in every operation the validation with the "
    "operation's own context constant dominates identifier allocation, encoding, enqueueing and every transport write; "
    "empty topic lists are refused before allocation; (qos) with auto-downgrade the header QoS, the identifier decision, "
    "the gate and the handle kind all use the downgraded value; (fit) a user-supplied packet with unbounded content must "
    "not be encoded into a fixed-size scratch (known finding: DISCONNECT with properties). State equality before/after a "
    "refusal is argued from (order) and is not compared as values."
)
ASSUMPTIONS = ["the MQTT 5 legality tables in mqlint/oracle.py (Table 2-4 and the per-packet property sections)"]

PROP = "properties::Property"
PID = "properties::PropertyIdentifier"
CTX = "properties::PropertyContext"


def rule_table(R):
    f = R.f
    iv = roles.method(f, PROP, "is_valid_for")
    R.touch(iv)
    ctx_variants = [v["name"] for v in f.adts[CTX]["variants"]]
    id_variants = [v["name"] for v in f.adts[PID]["variants"]]

    # the table, cell by cell: is_valid_for evaluated over the finite domain (context, identifier) with a legal value --
    # one reading for a `matches!` on the pair, a `match` per context, helper predicates and `==` tests
    from .. import valueset
    hv0 = roles.method(f, PROP, "has_valid_value")
    cdis = {v["name"]: v["discr"] for v in f.adts[CTX]["variants"]}
    idis = {v["name"]: v["discr"] for v in f.adts[PID]["variants"]}
    table = {}
    unknown = False
    for cc in ctx_variants:
        for ii in id_variants:
            env = {("param", "context"): {cdis[cc]}, ("call", "Into::into"): {idis[ii]}, ("call", "From::from"): {idis[ii]},
                   ("call", hv0.name): {1}}
            vs = valueset.evaluate_fn(f, iv, env, max_paths=400)
            if vs is None or len(vs) != 1:
                unknown = True
                table[(cc, ii)] = None if vs is None else "conflict"
            else:
                table[(cc, ii)] = next(iter(vs))
    R.ob("table/extracted", not unknown and len(table) >= len(ctx_variants) * 27,
         "the validity table of is_valid_for could be extracted completely (%d cells)" % len(table), where=iv.span, nontrivial=False)
    n = 0
    for cc in ctx_variants:
        must = oracle.MUST_ACCEPT.get(cc)
        if must is None:
            R.ob("table/context/%s" % cc, False, "unknown property context %s (no oracle row)" % cc, where=iv.span)
            continue
        dc = oracle.DONT_CARE.get(cc, set())
        for ii in id_variants:
            if ii == "Invalid":
                continue
            n += 1
            got = table.get((cc, ii))
            if ii in dc:
                continue
            want = 1 if ii in must else 0
            R.ob("table/%s/%s" % (cc, ii), got == want,
                 "%s property %s must be %s [MQTT 5 Table 2-4] (is_valid_for says %s)"
                 % (cc, ii, "accepted" if want else "rejected", {1: "accepted", 0: "rejected"}.get(got, got)), where=iv.span)
    R.floor("table", n, 135, "context x identifier cells")
    # the identifier tested is the property's own (From<&Property>), checked cell by cell under C09.props/id
    okself = any(is_call(x, "Into::into", "From::from") and x[3] and chain(x[3][0])[0] == ("param", "self")
                 for bb in iv.switches for x in walk(iv.switch_info(bb)["subject"]))
    R.ob("table/own-identifier", okself, "is_valid_for classifies the property by its own identifier", where=iv.span)
    # value check comes first and its failure rejects
    hv = roles.method(f, PROP, "has_valid_value")
    cs = outq.calls_to(f, iv, hv)
    okv = len(cs) == 1
    if okv:
        sis = iv.result_switches(lambda x: peel(x)[0] == "call" and peel(x)[1] == cs[0].bb)
        okv = False
        for si in sis:
            fe = si["edges"].get(False)
            if fe is not None:
                vals = [iv.rvalue_term(s["rv"]) for bb in iv.reach([fe], avoid=[si["edges"].get(True)]) for s in iv.blocks[bb]["stmts"]
                        if s["k"] == "assign" and s["dst"]["l"] == 0]
                okv = bool(vals) and all(v[0] == "const" and v[2] == 0 for v in vals)
    R.ob("table/value-check-rejects", okv, "a property with an illegal value is invalid in every context", where=iv.span)


def value_rows(f, hv):
    """variant -> list of (interval or 'all', verdict) from has_valid_value"""
    variants = [v["name"] for v in f.adts[PROP]["variants"]]
    rows = {}
    for lf in paths.explore(hv, 0, lambda t: t == ("param", "self"), lambda b, bb: False, max_paths=4000):
        if lf["kind"] != "return":
            continue
        v = ret_value_on_path(hv, lf["path"])
        c = lf["cons"].get(())
        vs = [c] if isinstance(c, str) else [x for x in variants if c is None or x not in c[1]]
        for var in vs:
            rows.setdefault(var, []).append(v)
    return rows


def pred_interval(f, t, var):
    """interval of payload values for which the boolean term t is true, for variant var; 'all' for const true"""
    t = peel(t)
    if t[0] == "const":
        return "all" if t[2] == 1 else "none"
    if t[0] == "bin" and t[1] in ("Le", "Lt", "Ge", "Gt", "Eq", "Ne"):
        a, b = t[2], t[3]
        def payload(x):
            return any(y[0] == "downcast" and y[2] == var for y in walk(x)) or x[0] == "phi" or (x[0] == "deref")
        if b[0] == "const" and b[2] is not None and payload(a):
            return _interval(t[1], b[2], True, False)
        if a[0] == "const" and a[2] is not None and payload(b):
            return _interval(t[1], a[2], True, True)
        return None
    if is_call(t, "RangeInclusive::<Idx>::contains", "contains") and len(t[3]) == 2:
        rng = peel(t[3][0])
        if is_call(rng, "RangeInclusive::<Idx>::new") and len(rng[3]) == 2 and all(x[0] == "const" and x[2] is not None for x in rng[3]):
            return (rng[3][0][2], rng[3][1][2])
    return None


def _is_wire_length_bound(t, var):
    """`len(<one payload field of var>) <= 65535` (or `< 65536`), in either orientation"""
    t = peel(t)
    if t[0] != "bin" or t[1] not in ("Le", "Lt", "Ge", "Gt"):
        return False
    a, b, op = peel(t[2]), peel(t[3]), t[1]
    if op in ("Ge", "Gt"):
        a, b, op = b, a, {"Ge": "Le", "Gt": "Lt"}[op]
    for _ in range(3):
        if b[0] == "cast" or (is_call(b, "From::from", "Into::into") and len(b[3]) == 1):
            b = peel(b[2] if b[0] == "cast" else b[3][0])
    if b[0] != "const" or b[2] != (65535 if op == "Le" else 65536):
        return False
    if not (is_call(a, "len") and len(a[3]) == 1):
        return False
    inner = peel(a[3][0])
    for _ in range(6):
        if inner[0] in ("ref", "deref"):
            inner = peel(inner[1])
        elif inner[0] == "field" and inner[2] in ("0",) and peel(inner[1])[0] not in ("downcast",):
            inner = peel(inner[1])       # a newtype around the slice
        else:
            break
    return not any(x[0] == "bin" for x in walk(inner)) and any(x[0] == "downcast" and x[2] == var for x in walk(inner))


def rule_value(R):
    f = R.f
    hv = roles.method(f, PROP, "has_valid_value")
    R.touch(hv)
    rows = value_rows(f, hv)
    client = set()
    for s in oracle.MUST_ACCEPT.values():
        client |= s
    widths = {"byte": 0xFF, "u16": 0xFFFF, "u32": 0xFFFFFFFF, "varint": 0xFFFFFFFF}
    for var in sorted(client):
        vals = rows.get(var, [])
        ivs = [pred_interval(f, v, var) if v is not None else None for v in vals]
        rule = oracle.VALUE_RULES.get(var)
        wire = oracle.PROPERTY_BY_NAME[var][1]
        hi = widths.get(wire)
        if rule is None:
            ok = bool(ivs) and all(i == "all" or (hi is not None and i == (0, INF)) for i in ivs)
            if not ok and wire in ("utf8", "binary", "utf8pair") and vals and all(v is not None for v in vals):
                # a string or binary field cannot be longer than 65535 bytes on the wire: a test of one field's own length
                # against that bound (and nothing tighter) refuses nothing legal
                ok = any(_is_wire_length_bound(v, var) for v in vals) and all(
                    _is_wire_length_bound(v, var) or (peel(v)[0] == "const" and (peel(v)[2] == 1 or len(vals) > 1)) for v in vals)
            R.ob("value/%s" % var, ok,
                 "every value of %s is legal for a client to send, so has_valid_value must accept all of them (extracted %s)"
                 % (var, ivs), where=hv.span)
        else:
            if rule[0] == "le":
                want = (0, rule[1])
            elif rule[0] == "range":
                want = (rule[1], rule[2])
            else:
                want = (1, INF)
            ok = len(ivs) == 1 and ivs[0] not in (None, "all", "none")
            if ok:
                lo, hi2 = ivs[0]
                top = widths.get(wire, INF)
                ok = lo == want[0] and min(hi2, top) == min(want[1], top)
            R.ob("value/%s" % var, ok,
                 "has_valid_value must accept exactly the legal values of %s: %s (extracted %s)" % (var, want, ivs), where=hv.span)


def rule_coverage(R):
    """valid_for must look at every property serialize emits"""
    f = R.f
    PD = "properties::PropertiesData"
    PROPS = "properties::Properties"
    vf = roles.method(f, PROPS, "valid_for")
    R.touch(vf)
    want = {"Slice": {"0"}, "Encoded": {"0"}, "WithCorrelation": {"correlation", "properties"}}

    def arms(b):
        for bb in sorted(b.switches):
            si = b.switch_info(bb)
            if si["enum"] == PD:
                out = {}
                for v, tgt in si["edges"].items():
                    others = [t for k, t in si["edges"].items() if k != v]
                    arm = b.reach([tgt]) - b.reach(others)
                    used = set()
                    for x in arm:
                        for s in b.blocks[x]["stmts"]:
                            if s["k"] == "assign":
                                for y in walk(b.rvalue_term(s["rv"])):
                                    if y[0] == "field" and y[1][0] == "downcast" and y[1][2] == v:
                                        used.add(y[2])
                        if x in b.calls:
                            for a in b.calls[x].args:
                                for y in walk(b.operand_term(a)):
                                    if y[0] == "field" and y[1][0] == "downcast" and y[1][2] == v:
                                        used.add(y[2])
                    # an arm that falls back on the generic iteration over self covers everything
                    if any(x in b.calls and b.calls[x].is_("Properties::<'a>::iter", "iter_inner") and
                           _chain0(b, b.calls[x]) for x in arm):
                        used = set(want.get(v, used))
                    out[v] = used
                return out
        return None

    def _chain0(b, c):
        return bool(c.args) and chain(b.operand_term(c.args[0]))[0] == ("param", "self")
    own = arms(vf)
    if own is not None:
        for v, w in want.items():
            R.ob("coverage/valid_for/%s" % v, own.get(v) == w,
                 "Properties::valid_for matches on the representation: in %s it must examine %s (examines %s) — every "
                 "property that will be serialised has to be validated" % (v, sorted(w), sorted(own.get(v, []))), where=vf.span)
    else:
        # iterator based: all(iter(self), |p| p.is_ok_and(|p| p.is_valid_for(context)))
        # read as a loop (also what `.all(..)` stands for): a fresh self.iter(); every element passes is_valid_for(context)
        # before the next one is fetched; a failing element ends the loop; `true` only on exhaustion
        ivf = roles.method(f, PROP, "is_valid_for")
        nexts = [c for c in vf.calls.values() if c.bb in vf.reachable and c.is_("core::iter::Iterator::next")]
        ok = len(nexts) == 1
        ctx_ok = False
        if ok:
            nx = nexts[0]
            fresh = any(is_call(x, "Properties::<'a>::iter", "iter", "iter_inner") and chain(x[3][0])[0] == ("param", "self")
                        for x in walk(vf.operand_term(nx.args[0])) if x[0] == "call")
            sw = None
            for bb in vf.switches:
                si = vf.switch_info(bb)
                if si["enum"] == "core::option::Option" and any(a[0] == "call" and a[1] == nx.bb for a in phi_alts(peel(si["subject"]))):
                    sw = si
            ivc = outq.calls_to(f, vf, ivf)
            for c in ivc:
                r, names = chain(vf.operand_term(c.args[1]))
                ctx_ok = ctx_ok or (r[0] == "param" and "context" in r[1])
            ok = fresh and sw is not None and bool(ivc) and sw["edges"].get("Some") is not None and sw["edges"].get("None") is not None
            if ok:
                some_t, none_t = sw["edges"]["Some"], sw["edges"]["None"]
                ok = vf.must_pass([some_t], [nx.bb], via_blocks=[c.bb for c in ivc])[0]
                # a rejected element is not skipped
                for c in ivc:
                    for si in vf.result_switches(lambda x, c=c: peel(x)[0] == "call" and peel(x)[1] == c.bb):
                        fe = si["edges"].get(False)
                        if fe is not None and nx.bb in vf.reach([fe]):
                            ok = False
                # `true` only once the iteration is exhausted
                for lf in paths.explore(vf, 0, lambda t: False, lambda b, x: False):
                    if lf["kind"] != "return":
                        continue
                    v = paths.value_on_path(vf, lf["path"], 0)
                    if v is not None and v[0] == "const" and v[2] == 1:
                        p_ = lf["path"]
                        if not any(p_[i] == sw["bb"] and p_[i + 1] == none_t for i in range(len(p_) - 1)):
                            ok = False
                    elif v is None or not (v[0] == "const" and v[2] == 0):
                        ok = False
        R.ob("coverage/valid_for/iterates-all", ok and ctx_ok,
             "Properties::valid_for applies is_valid_for(context) to every element of self.iter()", where=vf.span)
        it = [b for b in f.bodies.values() if b.kind == "assoc_fn" and b.fn_name == "iter_inner" and b.self_ty and b.self_ty.startswith(PROPS)]
        if len(it) != 1:
            raise AnchorLost("Properties::iter_inner")
        got = arms(it[0])
        for v, w in want.items():
            R.ob("coverage/iter/%s" % v, got is not None and got.get(v) == w,
                 "the property iterator built for representation %s covers %s (covers %s)" % (v, sorted(w), sorted((got or {}).get(v, []))),
                 where=it[0].span)
        nx = [b for b in f.bodies.values() if b.kind == "assoc_fn" and b.fn_name == "next" and b.self_ty and b.self_ty.startswith("properties::PropertiesIter")]
        if len(nx) != 1:
            raise AnchorLost("PropertiesIter::next")
        nb = nx[0]
        ok2 = False
        for bb in nb.switches:
            si = nb.switch_info(bb)
            if si["enum"] and si["enum"].endswith("PropertiesIterInner") and "WithCorrelation" in si["edges"]:
                tgt = si["edges"]["WithCorrelation"]
                others = [t for k, t in si["edges"].items() if k != "WithCorrelation"]
                arm = nb.reach([tgt]) - nb.reach(others)
                fields = set()
                for x in arm:
                    for s in nb.blocks[x]["stmts"]:
                        if s["k"] == "assign":
                            for y in walk(nb.rvalue_term(s["rv"])):
                                if y[0] == "field" and y[1][0] == "downcast" and y[1][2] == "WithCorrelation":
                                    fields.add(y[2])
                    if x in nb.calls:
                        for a in nb.calls[x].args:
                            for y in walk(nb.operand_term(a)):
                                if y[0] == "field" and y[1][0] == "downcast" and y[1][2] == "WithCorrelation":
                                    fields.add(y[2])
                # every field the variant has takes part (the correlation entry, the user properties and the cursor -- whatever
                # they are called and however the "already yielded" state is kept)
                want_f = set()
                for v_ in f.adts.get(si["enum"], {}).get("variants", []):
                    if v_["name"] == "WithCorrelation":
                        want_f = set(fl_["name"] for fl_ in v_["fields"])
                ok2 = bool(want_f) and want_f <= fields and len(want_f) >= 3
        R.ob("coverage/iter/next-with-correlation", ok2,
             "iterating a correlated property set yields the correlation entry and every user property", where=nb.span)


CONTEXT_OF = {"publish": "Publish", "subscribe": "Subscribe", "unsubscribe": "Unsubscribe", "disconnect_with": "Disconnect"}


def rule_order(R):
    f = R.f
    cm = roles.conn_methods(f)
    vf = roles.method(f, "properties::Properties", "valid_for")
    for op, ctx in sorted(CONTEXT_OF.items()):
        b, code = cm[op]
        R.touch(code)
        vcs = outq.calls_to(f, code, vf)
        good = []
        for c in vcs:
            a = code.operand_term(c.args[1])
            if a[0] == "agg" and a[2] == CTX and a[3] == ctx:
                found_ = False
                for si in code.result_switches(lambda x, c=c: peel(x)[0] == "call" and peel(x)[1] == c.bb):
                    if si["edges"].get(True) is not None:
                        good.append((si["bb"], si["edges"][True]))
                        found_ = True
                if not found_:
                    # the verdict kept in a flag: `let bad = props.is_some_and(|p| !p.valid_for(ctx)); if bad { refuse }` --
                    # the flag is `!valid_for(..)` (or false when there is nothing to validate); its false edge is "valid"
                    for sb in code.switches:
                        if sb not in code.reachable:
                            continue
                        si = code.switch_info(sb)
                        alts_ = [peel(x) for x in phi_alts(peel(si["subject"]))]
                        negs = [x for x in alts_ if x[0] == "un" and x[1] == "Not" and peel(x[2])[0] == "call" and peel(x[2])[1] == c.bb]
                        poss = [x for x in alts_ if x[0] == "call" and x[1] == c.bb]
                        rest = [x for x in alts_ if x not in negs and x not in poss]
                        if negs and not poss and all(x[0] == "const" and x[2] == 0 for x in rest) and si["edges"].get(False) is not None:
                            good.append((sb, si["edges"][False]))
                        elif poss and not negs and all(x[0] == "const" and x[2] == 1 for x in rest) and si["edges"].get(True) is not None:
                            good.append((sb, si["edges"][True]))
        R.ob("order/%s/context" % op, bool(good) and len(vcs) == len(good),
             "Connection::%s validates its properties for the %s context (found %d validation calls, %d with that context)"
             % (op, ctx, len(vcs), len(good)), where=b.span)
        sinks = {}
        if op in ops.ENQ_OPS:
            P = ops.pipeline(f, op)
            for a in P.alloc_sites:
                sinks[a] = "identifier allocation"
            for c in P.encodes:
                sinks[c.bb] = "arena encode"
            for c in P.retains:
                sinks[c.bb] = "enqueue"
            for (bb, j, v, sp) in P.quota_stores:
                sinks[bb] = "quota decrement"
        for c in code.calls.values():
            if c.bb in code.reachable and c.is_("MqttSerializer::<'a>::encode", "MqttSerializer::<'a>::encode_publish"):
                sinks[c.bb] = "encode"
        for c in write_sites(f, code):
            sinks[c.bb] = "transport write"
        for c in code.calls.values():
            # tearing the handle down (latch, session-level disconnect handling) is a trace as well
            if c.bb in code.reachable and (any(t in roles.latch_fns(f) for t in f.call_targets(c)) or c.is_("handle_disconnect")):
                sinks[c.bb] = "handle teardown"
        if op == "disconnect_with":
            # validation is skipped only when the packet carries no property block at all
            extra = []
            for bb in code.switches:
                si = code.switch_info(bb)
                if any(is_call(x, "Disconnect::<'a>::properties", "properties") for x in walk(si["subject"])) and si["edges"].get("None") is not None:
                    extra.append((bb, si["edges"]["None"]))
            good = good + extra
        bad = None
        for bb, what in sorted(sinks.items()):
            ok, off = code.must_pass([0], [bb], via_edges=good)
            if not ok:
                bad = (bb, what)
                break
        R.ob("order/%s/validate-first" % op, bool(good) and bad is None and bool(sinks),
             "in Connection::%s the successful validation dominates identifier allocation, encoding, enqueueing, quota "
             "changes and every transport write (a refused request leaves no trace)%s"
             % (op, "" if bad is None else ": %s at %s is reachable without it" % (bad[1], code.line(bad[0]))),
             where=code.line(bad[0]) if bad else b.span)
        # the validated list is the one that is sent
        if op in ("subscribe", "unsubscribe"):
            okp = all(chain(peel(code.operand_term(c.args[0])))[0] == ("param", "properties") or
                      any(x == ("param", "properties") for x in walk(code.operand_term(c.args[0]))) for c in vcs)
            sent = [code.rvalue_term(s["rv"]) for bb, j, s in code.assigns() if "agg" in s["rv"]
                    and s["rv"]["agg"].get("adt") in ("packets::Subscribe", "packets::Unsubscribe")]
            okp = okp and all(any(x == ("param", "properties") for x in walk(dict(zip(t[4], t[5]))["properties"])) for t in sent)
            R.ob("order/%s/same-list" % op, okp and bool(sent), "%s validates the very property list it sends" % op, where=b.span)
        if op == "publish":
            hdr = [code.rvalue_term(s["rv"]) for bb, j, s in code.assigns() if "agg" in s["rv"] and s["rv"]["agg"].get("adt") == "packets::PublishHeader"]
            okp = bool(hdr) and all(chain(dict(zip(t[4], t[5]))["properties"])[1] == ["properties"] for t in hdr) and \
                all(chain(code.operand_term(c.args[0]))[1] == ["properties"] for c in vcs)
            R.ob("order/publish/same-list", okp, "publish validates the very property set it sends", where=b.span)
    # empty topic lists
    for op in ("subscribe", "unsubscribe"):
        b, code = cm[op]
        P = ops.pipeline(f, op)
        edges = []
        errs = True
        for bb in code.switches:
            si = code.switch_info(bb)
            s = peel(si["subject"])
            empty_lab = None
            if is_call(s, "is_empty") and any(x == ("param", "topics") for x in walk(s)):
                empty_lab = True
            elif s[0] == "bin" and s[1] in ("Eq", "Ne") and any(peel(x)[0] == "const" and peel(x)[2] == 0 for x in (s[2], s[3])) \
                    and any(is_call(peel(x), "len") and any(y == ("param", "topics") for y in walk(x)) for x in (s[2], s[3])):
                empty_lab = (s[1] == "Eq")       # `topics.len() == 0`
            if empty_lab is not None and si["edges"].get(not empty_lab) is not None:
                edges.append((bb, si["edges"][not empty_lab]))
                te = si["edges"].get(empty_lab)
                vals = [code.rvalue_term(st["rv"]) for x in code.reach([te], avoid=[si["edges"][not empty_lab]]) for st in code.blocks[x]["stmts"]
                        if st["k"] == "assign" and st["dst"]["l"] == 0] if te is not None else []
                e_ok = bool(vals) and all("InvalidRequest" in show(v) for v in vals)
                if not e_ok and te is not None:
                    # the refusal may be produced in a folded-in helper and come back through `?`: follow the paths
                    vs2 = []
                    for lf in paths.explore(code, te, lambda t_: False, lambda b_, x_: False, max_paths=400):
                        if lf["kind"] == "return":
                            vs2.append(paths.value_on_path(code, [bb] + lf["path"], 0))
                    e_ok = bool(vs2) and all(v is not None and "InvalidRequest" in show(v) for v in vs2)
                errs = errs and e_ok
        ok = bool(edges) and errs and all(code.must_pass([0], [a], via_edges=edges)[0] for a in P.alloc_sites)
        R.ob("order/%s/empty-list" % op, ok,
             "an empty topic list is refused with InvalidRequest before an identifier is allocated", where=b.span)
    # Will::new validates every property for the Will context
    wn = roles.method(f, "will::Will", "new")
    reach = f.reachable_bodies([wn.name])
    ivf = roles.method(f, PROP, "is_valid_for")
    def contexts_at(body_, call_, arg_i, depth=0):
        """PropertyContext variants that can arrive at argument arg_i of call_ (in body_) on call chains from Will::new:
        a literal, or a parameter that the callers inside `reach` supply"""
        a = peel(body_.operand_term(call_.args[arg_i]))
        out = set()
        for alt in phi_alts(a):
            alt = peel(alt)
            if alt[0] == "agg" and alt[2] == CTX:
                out.add(alt[3])
            elif alt[0] == "param" and depth < 3:
                pi = [k for k in range(1, body_.arg_count + 1) if body_.param_name(k) == alt[1]]
                found = False
                for n2 in reach:
                    b2 = f.bodies[n2]
                    for c2 in outq.calls_to(f, b2, body_):
                        if pi and pi[0] - 1 < len(c2.args):
                            found = True
                            out |= contexts_at(b2, c2, pi[0] - 1, depth + 1)
                if not found:
                    out.add("?")
            else:
                out.add("?")
        return out
    ctxs = set()
    for n in reach:
        bb_ = f.bodies[n]
        for c in outq.calls_to(f, bb_, ivf):
            ctxs |= contexts_at(bb_, c, 1)
    okw = ctxs == {"Will"}
    R.ob("order/will/context", okw, "Will::new validates the will properties for the Will context", where=wn.span)


def rule_qos(R):
    f = R.f
    cm = roles.conn_methods(f)
    b, code = cm["publish"]
    hdr = [code.rvalue_term(s["rv"]) for bb, j, s in code.assigns() if bb in code.reachable and "agg" in s["rv"]
           and s["rv"]["agg"].get("adt") == "packets::PublishHeader"]
    if len(hdr) != 1:
        raise AnchorLost("PublishHeader aggregate in publish")
    q = dict(zip(hdr[0][4], hdr[0][5]))["qos"]
    alts = phi_alts(q)
    has_req = any(chain(a)[1] == ["qos"] and chain(a)[0] == ("param", "publication") for a in alts)
    has_cap = any(any(x[0] == "field" and x[2] == "max_qos" for x in walk(a)) for a in alts)
    R.ob("qos/header-downgraded", has_req and has_cap and len(alts) == 2,
         "the QoS sent in the PUBLISH header is the requested QoS or the broker's Maximum QoS (found %s)" % show(q), where=b.span)
    # the cap alternative is guarded by downgrade_qos && qos > max_qos
    okg = False
    for bb in code.switches:
        si = code.switch_info(bb)
        if any(x[0] == "field" and x[2] == "downgrade_qos" for x in walk(si["subject"])):
            okg = True
    okcmp = any(is_call(x, "PartialOrd::gt", "gt") and any(y[0] == "field" and y[2] == "max_qos" for y in walk(x))
                for bb in code.switches for x in walk(code.switch_info(bb)["subject"]) if x[0] == "call")
    # `requested.min(max_qos)`: the minimum is the cap exactly when the request exceeds it
    okcmp = okcmp or any(isinstance(x, tuple) and is_call(x, "Ord::min", "min") and any(y[0] == "field" and y[2] == "max_qos" for y in walk(x))
                         for x in walk(q))
    R.ob("qos/downgrade-guard", okg and okcmp,
         "the downgrade happens only when enabled and only when the requested QoS exceeds the broker's maximum", where=b.span)
    # identifier decision, gate and handle kind use the downgraded value
    uses = []
    for c in code.calls.values():
        if c.bb not in code.reachable:
            continue
        if c.is_("bool>::then", "then") and c.args:
            t = code.operand_term(c.args[0])
            if is_call(peel(t), "PartialOrd::gt", "gt"):
                uses.append(("identifier decision", peel(peel(t)[3][0]), c.span))
        if c.is_("Connection::<'_, 'buf, IO>::can_publish", "can_publish") and len(c.args) > 1:
            uses.append(("capacity gate", code.operand_term(c.args[1]), c.span))
    P_ = ops.pipeline(f, "publish")
    for bb in code.switches:
        si = code.switch_info(bb)
        s = peel(si["subject"])
        if is_call(s, "PartialEq::eq", "eq") and any(x[0] == "agg" and x[3] == "ExactlyOnce" for x in walk(s)):
            uses.append(("handle kind", peel(s[3][0]), code.line(bb)))
        # `match qos { AtMostOnce => None, _ => Some(next_packet_id()) }`
        if si["enum"] and si["enum"].endswith("QoS") and P_.alloc_sites and not any(u[0] == "identifier decision" for u in uses):
            amo = si["edges"].get("AtMostOnce")
            others_ = [(bb, t_) for k_, t_ in si["edges"].items() if k_ != "AtMostOnce"]
            if si["otherwise"] not in si["edges"].values() and code.blocks[si["otherwise"]]["term"]["k"] != "unreachable":
                others_.append((bb, si["otherwise"]))
            if amo is not None and others_ and all(code.must_pass([0], [a], via_edges=others_)[0] for a in P_.alloc_sites) \
                    and not any(a in code.reach([amo], avoid=[bb]) for a in P_.alloc_sites):
                uses.append(("identifier decision", s, code.line(bb)))
        # `match qos { ExactlyOnce => PublishExactlyOnce, .. }`
        if si["enum"] and si["enum"].endswith("QoS") and si["edges"].get("ExactlyOnce") is not None \
                and not any(u[0] == "handle kind" for u in uses):
            kinds_ = [bb2 for bb2, j2, s2 in code.assigns() if bb2 in code.reachable and "agg" in s2["rv"]
                      and s2["rv"]["agg"].get("variant") == "PublishExactlyOnce"]
            if kinds_ and all(code.must_pass([0], [k_], via_edges=[(bb, si["edges"]["ExactlyOnce"])])[0] for k_ in kinds_):
                uses.append(("handle kind", s, code.line(bb)))
        # `if qos > AtMostOnce { Some(next_packet_id()) } else { None }` -- also what `(qos > ..).then(|| ..)` reads as
        if is_call(s, "PartialOrd::gt", "gt") and any(x[0] == "agg" and x[3] == "AtMostOnce" for x in walk(s)) \
                and si["edges"].get(True) is not None and P_.alloc_sites \
                and all(code.must_pass([0], [a], via_edges=[(bb, si["edges"][True])])[0] for a in P_.alloc_sites) \
                and not any(u[0] == "identifier decision" for u in uses):
            uses.append(("identifier decision", peel(s[3][0]), code.line(bb)))
    R.floor("qos/uses", len(uses), 3, "uses of the effective QoS in publish")
    for what, t, span in uses:
        R.ob("qos/%s" % what.replace(" ", "-"), same_shape(peel(t), peel(q)),
             "the %s in publish uses the QoS actually sent (downgraded), not the requested one (uses %s)" % (what, show(t)), where=span)
    # handle kind table
    kinds = [code.operand_term(c.args[0]) for c in code.calls.values() if c.bb in code.reachable and c.is_("mqtt_client::Op::new")]
    okk = len(kinds) == 1 and sorted(a[3] for a in phi_alts(kinds[0]) if a[0] == "agg") == ["PublishAtLeastOnce", "PublishExactlyOnce"]
    R.ob("qos/handle-kinds", okk, "publish returns a QoS 1 or QoS 2 handle according to that test", where=b.span)


def rule_fit(R):
    f = R.f
    n = 0
    for name, (b, code) in sorted(roles.public_ops(f).items()):
        for c in code.calls.values():
            if c.bb not in code.reachable or not c.is_("MqttSerializer::<'a>::encode"):
                continue
            buf = code.operand_term(c.args[0])
            pkt = code.operand_term(c.args[1])
            fixed = any(x[0] == "repeat" for x in walk(buf)) or any(x[0] == "agg" and x[1] == "array" for x in walk(buf))
            r, names = chain(pkt)
            user = r[0] == "param"
            kind = [g for g in c.gargs if g.startswith("packets::")]
            kind = kind[0].split("::")[1].split("<")[0] if kind else "?"
            n += 1
            # unbounded content: the packet type contains Properties (or strings)
            adt = f.adts.get("packets::" + kind, {})
            unbounded = any("Properties" in fl["ty"] or "str" in fl["ty"] or "[u8]" in fl["ty"]
                            for v in adt.get("variants", []) for fl in v["fields"])
            R.ob("fit/%s/%s" % (name, kind), not (fixed and user and unbounded),
                 "Connection::%s encodes the caller's %s — whose size is unbounded (it may carry properties) — into a "
                 "fixed-size stack buffer (%s): every legal %s with a property fails with BufferTooSmall instead of being sent"
                 % (name, kind, show(buf)[:50], kind.upper()), where=c.span)
    R.floor("fit", n, 1, "direct encodes in public operations")


def rule_negotiated(R):
    """auto-downgrade compares against the Maximum QoS of the CONNACK of this connection"""
    roles.clause_negotiated_per_connection(R, "qos", ("max_qos",))
    roles.clause_connack_walk_complete(R, "qos/connack-walk-complete")


def rule_dead(R):
    """requests on a dead handle are rejected: a handle is dead once a fatal error (transport loss, broker DISCONNECT,
    fatal protocol violation) was reported, so every exit that reports one first passes the latch that the `live` gate of
    the operations tests -- the C11 latch clauses, re-evaluated under C19"""
    from . import c11
    from ..engine import Run
    tmp = Run("C11", R.f, R.cfg)
    tmp.rule("fatal", c11.rule_fatal)
    tmp.rule("entry", c11.rule_entry)       # every operation tests the latch before anything else
    n = 0
    for o in tmp.obs:
        parts = o.key.split("/", 2)
        if len(parts) == 3 and (parts[1].startswith("fatal") or parts[1] in ("entry", "dead-branch", "dead-value", "canpub")):
            n += 1
            R.ob("dead/%s/%s" % (parts[1], parts[2]), o.ok, o.msg, where=o.where, detail=o.detail)
        elif "ANCHOR-LOST" in o.key:
            R.ob("dead/" + o.key.split("/", 1)[1], o.ok, o.msg, where=o.where, detail=o.detail)
    R.floor("dead", n, 10, "fatal error sites")


def run(R):
    R.rule("dead", rule_dead)
    R.rule("negotiated", rule_negotiated)
    R.rule("table", rule_table)
    R.rule("value", rule_value)
    R.rule("coverage", rule_coverage)
    R.rule("order", rule_order)
    R.rule("qos", rule_qos)
    R.rule("fit", rule_fit)
