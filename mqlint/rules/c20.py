"""C20 — reply helpers address exactly the requester (structural clauses: a wiring chain)."""
from ..core import AnchorLost, chain, peel, phi_alts, is_call, walk, show
from . import roles, outq

EXPLANATION = (
    "Static clauses of C20 on mir_built — one wiring chain, link by link: Properties::{response_topic, correlation_data} "
    "return the payload of the first Ok(ResponseTopic / CorrelationData) of a fresh self.iter(); InboundPublish::"
    "response_target builds the target from those two independent lookups and yields None without a topic (`?`); "
    "ResponseTarget / OwnedResponseTarget::publication pass the topic to Publication::new and the correlation data to "
    "correlate(), which stores Property::CorrelationData(data) via with_correlation; with_properties keeps the correlation "
    "entry; Properties::serialize emits it (C09.block); to_owned uses only fallible conversions whose error edges map to "
    "BufferTooSmall (no slicing or truncation); reply/reply_owned return Option by type. Byte-level encoding is C09."
)
ASSUMPTIONS = ["heapless String/Vec TryFrom fail instead of truncating (as documented)"]

PROPS = "properties::Properties"
INB = "mqtt_client::InboundPublish"


def first_of(f, name, variant):
    """(function, fresh iteration?, yields exactly the first Ok(variant) payload?) -- read as a loop over self.iter()
    (`find_map(..)` stands for that loop): Some(x) is returned only with x = payload of an Ok(Property::<variant>) element,
    the search stops there, and None is returned only when the iteration is exhausted"""
    from .. import paths
    b = roles.method(f, PROPS, name)
    nexts = [c for c in b.calls.values() if c.bb in b.reachable and c.is_("core::iter::Iterator::next")]
    if len(nexts) != 1:
        return b, False, False
    nx = nexts[0]
    def builds_iterator(fn_name, depth=0):
        """the function hands out a newly built PropertiesIter (or the result of a function that does)"""
        g = f.bodies.get(fn_name)
        if g is None or depth > 2:
            return False
        alts = phi_alts(g.local_term(0))
        return bool(alts) and all(
            (peel(a)[0] == "agg" and (peel(a)[2] or "").endswith("PropertiesIter")) or
            (peel(a)[0] == "call" and peel(a)[2] in f.bodies and peel(a)[3] and chain(peel(a)[3][0])[0] == ("param", "self")
             and builds_iterator(peel(a)[2], depth + 1)) for a in alts)
    fresh = any(x[3] and chain(x[3][0])[0] == ("param", "self") and (is_call(x, "iter") or builds_iterator(x[2]))
                for x in walk(b.operand_term(nx.args[0])) if x[0] == "call")
    sw = None
    for bb in b.switches:
        si = b.switch_info(bb)
        if si["enum"] == "core::option::Option" and any(a[0] == "call" and a[1] == nx.bb for a in phi_alts(peel(si["subject"]))):
            sw = si
    if sw is None or sw["edges"].get("None") is None:
        return b, fresh, False
    okc = True
    somes = 0
    for lf in paths.explore(b, 0, lambda t: False, lambda bd, x: False):
        if lf["kind"] == "limit":
            return b, fresh, False
        if lf["kind"] != "return":
            continue
        v = paths.value_on_path(b, lf["path"], 0)
        p_ = lf["path"]
        exhausted = any(p_[i] == sw["bb"] and p_[i + 1] == sw["edges"]["None"] for i in range(len(p_) - 1))
        alts = phi_alts(v) if v is not None else []
        for a in alts:
            if a[0] == "agg" and a[3] == "Some" and a[5]:
                r, n = chain(a[5][0])
                if r[0] == "call" and r[1] == nx.bb and n == ["@Some", "0", "@Ok", "0", "@" + variant, "0"] and not exhausted:
                    somes += 1
                    continue
                okc = False
            elif a[0] == "agg" and a[3] == "None":
                # nothing found: only once every element has been looked at -- unless this is the closure's own
                # "not this one" value travelling with a Some (flow-insensitive alternative of the same local)
                if not exhausted and len(alts) == 1:
                    okc = False
            else:
                okc = False
    return b, fresh, okc and somes >= 1


def rule_lookup(R):
    f = R.f
    for name, variant in (("response_topic", "ResponseTopic"), ("correlation_data", "CorrelationData")):
        b, okf, okc = first_of(f, name, variant)
        R.touch(b)
        R.ob("lookup/%s/first-of-fresh-iter" % name, okf,
             "Properties::%s searches a fresh iteration over all properties (find_map over self.iter()), so the position "
             "among other properties does not matter" % name, where=b.span)
        R.ob("lookup/%s/payload" % name, okc,
             "the lookup yields exactly the payload of an Ok(Property::%s) and nothing for any other entry" % variant, where=b.span)
        ib = roles.method(f, INB, name)
        t = peel(ib.local_term(0))
        okd = t[0] == "call" and t[2] == b.name and chain(t[3][0])[1] == ["properties"]
        R.ob("lookup/%s/delegates" % name, okd, "InboundPublish::%s looks the value up in the message's own properties" % name, where=ib.span)


def rule_target(R):
    f = R.f
    try:
        rt = roles.method(f, INB, "response_target")
        holders = [rt]
    except AnchorLost:
        # the helper was folded into its users: each reply helper builds the target itself
        rt = None
        holders = [roles.method(f, INB, "reply"), roles.method(f, INB, "reply_owned")]
    n = 0
    for hb_ in holders:
        R.touch(hb_)
        aggs = [hb_.rvalue_term(s["rv"]) for bb, j, s in hb_.assigns() if bb in hb_.reachable and "agg" in s["rv"]
                and (s["rv"]["agg"].get("adt") or "").endswith("ResponseTarget") and not (s["rv"]["agg"].get("adt") or "").endswith("OwnedResponseTarget")]
        suffix = "" if rt is not None else "/" + hb_.fn_name
        if len(aggs) != 1:
            R.ob("target/aggregate" + suffix, False, "ResponseTarget is not built exactly once in %s" % hb_.fn_name, where=hb_.span)
            continue
        n += 1
        fl = dict(zip(aggs[0][4], aggs[0][5]))
        tp = peel(fl["topic"])
        cd = peel(fl["correlation_data"])
        # the topic is the payload of response_topic(): `?`, `let Some(..) else`, match -- without a topic no target
        src_ = tp[1] if tp[0] == "ok" else (chain(tp)[0] if chain(tp)[1] == ["@Some", "0"] else None)
        def from_message(t_):
            """the receiver of the lookup is the message itself / its properties -- `self`, or a parameter for which every
            caller hands in the properties of the message it was called on"""
            r_, n_ = chain(t_)
            if r_ == ("param", "self"):
                return True
            if isinstance(r_, tuple) and r_[0] == "param" and not n_:
                pi = [k for k in range(1, hb_.arg_count + 1) if hb_.param_name(k) == r_[1]]
                sites = [(b2, c2) for b2 in f.bodies.values() if not f.in_fuzzing(b2) for c2 in outq.calls_to(f, b2, hb_)]
                return bool(pi) and bool(sites) and all(
                    pi[0] - 1 < len(c2.args) and chain(b2.operand_term(c2.args[pi[0] - 1])) == (("param", "self"), ["properties"])
                    for (b2, c2) in sites)
            return False
        okt = src_ is not None and is_call(peel(src_), "response_topic") and from_message(peel(src_)[3][0])
        okc = is_call(cd, "correlation_data") and from_message(cd[3][0])
        R.ob("target/topic" + suffix, okt,
             "the reply target's topic is the message's response topic, and without one there is no target (`?`) (found %s)" % show(fl["topic"]),
             where=hb_.span)
        R.ob("target/correlation" + suffix, okc,
             "the reply target's correlation data is an independent lookup over all of the message's properties (found %s)"
             % show(fl["correlation_data"]), where=hb_.span)
    # reply / reply_owned use it
    for name in ("reply", "reply_owned"):
        b = roles.method(f, INB, name)
        uses = bool(outq.calls_to(f, b, rt)) if rt is not None else any(h.name == b.name for h in holders)
        okr = uses and b.locals[0]["ty"].startswith(("core::option::Option", "core::result::Result<core::option::Option"))
        R.ob("target/%s" % name, okr, "InboundPublish::%s is derived from response_target and is optional by type" % name, where=b.span)


def rule_publication(R):
    f = R.f
    for adt, topic_chain, corr_chain in (("publication::ResponseTarget", ["topic"], ["correlation_data"]),
                                         ("publication::OwnedResponseTarget", ["topic"], ["correlation_data"])):
        b = roles.method(f, adt, "publication")
        R.touch(b)
        short = adt.rsplit("::", 1)[-1]
        # delegation: `ResponseTarget { topic: <stored topic>, correlation_data: <stored data> }.publication(payload)`
        # (the borrowed form is checked on its own)
        rt = peel(b.local_term(0))
        if short == "OwnedResponseTarget" and rt[0] == "call" and rt[2] in f.bodies and f.bodies[rt[2]].fn_name == "publication" \
                and roles.self_is(f.bodies[rt[2]], "publication::ResponseTarget") and rt[3]:
            tgt = peel(rt[3][0])
            okn = okc = False
            if tgt[0] == "agg" and (tgt[2] or "").endswith("ResponseTarget"):
                fl = dict(zip(tgt[4], tgt[5]))
                ex = ("as_str", "as_deref", "Deref::deref")
                tt = roles.expand_getter(f, fl.get("topic"))
                cc = roles.expand_getter(f, fl.get("correlation_data"))
                okn = chain(tt, extra=ex)[0] == ("param", "self") and chain(tt, extra=ex)[1][-1:] == ["topic"]
                okc = chain(cc, extra=ex)[0] == ("param", "self") and chain(cc, extra=ex)[1][-1:] == ["correlation_data"]
            R.ob("publication/%s/topic" % short, okn, "%s::publication addresses the stored response topic" % short, where=b.span)
            R.ob("publication/%s/correlation" % short, okc,
                 "%s::publication attaches exactly the stored correlation data when present" % short, where=b.span)
            continue
        news = [c for c in b.calls.values() if c.bb in b.reachable and c.is_("Publication::<'a, P>::new", "Publication::new")]
        cors = [c for c in b.calls.values() if c.bb in b.reachable and c.is_("correlate")]
        extra = ("as_str", "as_deref", "Deref::deref")
        okn = len(news) == 1 and chain(b.operand_term(news[0].args[0]), extra=extra)[1][-1:] == topic_chain \
            and chain(b.operand_term(news[0].args[0]), extra=extra)[0] == ("param", "self")
        okc = len(cors) == 1
        if okc:
            d = b.operand_term(cors[0].args[1])
            d = roles.expand_getters_deep(f, d)    # `self.correlation_data()` instead of `self.correlation_data.as_deref()`
            r, n = chain(d, extra=extra)
            okc = r == ("param", "self") and "correlation_data" in n and n[-2:] == ["@Some", "0"]
            # on the Some edge the data is attached on every path
            some_t = None
            for sbb in b.switches:
                si = b.switch_info(sbb)
                rr, nn = chain(roles.expand_getters_deep(f, si["subject"]), extra=extra)
                if si["enum"] == "core::option::Option" and "correlation_data" in nn and si["edges"].get("Some") is not None:
                    some_t = si["edges"]["Some"]
            okc = okc and some_t is not None and b.must_pass([some_t], b.returns, via_blocks=[cors[0].bb])[0]
        R.ob("publication/%s/topic" % short, okn, "%s::publication addresses the stored response topic" % short, where=b.span)
        R.ob("publication/%s/correlation" % short, okc,
             "%s::publication attaches exactly the stored correlation data when present" % short, where=b.span)
    clause_correlation_kept(R, "publication")


def clause_correlation_kept(R, prefix):
    """correlation data asked for with `.correlate()` (or by the reply helpers) is in the property set that is encoded,
    whatever else the builder is told afterwards (shared with C09)"""
    f = R.f
    cor = roles.method(f, "publication::Publication", "correlate")
    t = [c for c in cor.calls.values() if c.bb in cor.reachable and c.is_("with_correlation")]
    R.ob(prefix + "/correlate", len(t) == 1 and peel(cor.operand_term(t[0].args[1])) == ("param", "data"),
         "Publication::correlate stores its argument through Properties::with_correlation", where=cor.span)
    pr = roles.method(f, "publication::Publication", "properties")
    t = [c for c in pr.calls.values() if c.bb in pr.reachable and c.is_("with_properties")]
    R.ob(prefix + "/properties", len(t) == 1 and peel(pr.operand_term(t[0].args[1])) == ("param", "properties"),
         "Publication::properties installs the user properties through Properties::with_properties", where=pr.span)
    wc = roles.method(f, PROPS, "with_correlation")
    aggs = [wc.rvalue_term(s["rv"]) for bb, j, s in wc.assigns() if bb in wc.reachable and "agg" in s["rv"]
            and s["rv"]["agg"].get("adt") == "properties::PropertiesData"]
    okw = bool(aggs) and all(a[3] == "WithCorrelation" for a in aggs)
    for a in aggs:
        fl = dict(zip(a[4], a[5]))
        c = peel(fl.get("correlation", ("unknown",)))
        okw = okw and c[0] == "agg" and c[3] == "CorrelationData" and peel(c[5][0]) == ("param", "data")
    R.ob(prefix + "/with_correlation", okw,
         "with_correlation always yields a property set whose correlation entry is Property::CorrelationData(data)", where=wc.span)
    wp = roles.method(f, PROPS, "with_properties")
    keep = False
    for bb in wp.switches:
        si = wp.switch_info(bb)
        if si["enum"] == "properties::PropertiesData" and "WithCorrelation" in si["edges"]:
            tgt = si["edges"]["WithCorrelation"]
            others = [t2 for k, t2 in si["edges"].items() if k != "WithCorrelation"]
            arm = wp.reach([tgt]) - wp.reach(others)
            for x in arm:
                for s in wp.blocks[x]["stmts"]:
                    if s["k"] == "assign" and "agg" in s["rv"] and s["rv"]["agg"].get("variant") == "WithCorrelation":
                        a = wp.rvalue_term(s["rv"])
                        fl = dict(zip(a[4], a[5]))
                        r, n = chain(fl["correlation"])
                        keep = n[-2:] == ["@WithCorrelation", "correlation"] and peel(fl["properties"]) == ("param", "properties")
                        keep = keep and wp.must_pass([tgt], wp.returns, via_blocks=[x])[0]
                        # ... and no return is reached without asking whether a correlation entry is present
                        # (an early exit on, say, an empty list would drop it)
                        keep = keep and wp.must_pass([0], wp.returns, via_blocks=[bb])[0]
    R.ob(prefix + "/with_properties-keeps-correlation", keep,
         "attaching user properties to a correlated publication keeps the correlation entry and installs the new list", where=wp.span)


def _checked_whole_extend(f, b, c):
    """`vec.extend_from_slice(src)` on a heapless Vec whose result is checked (`?` / match with the error returned) and whose
    source is a whole value (no sub-slice): all-or-nothing, so it cannot shorten the copy"""
    if not (c.path or "").startswith("heapless::vec::") or len(c.args) < 2:
        return False
    srct = b.operand_term(c.args[1])
    if any(isinstance(x, tuple) and (is_call(x, "Index::index", "index", "get", "split_at", "take") or (x[0] == "agg" and "Range" in (x[2] or "")))
           for x in walk(srct)):
        return False
    res = [si for si in b.result_switches(lambda x, c=c: peel(x)[0] == "call" and peel(x)[1] == c.bb)]
    if not res:
        return False
    for si in res:
        et = si["edges"].get("Err")
        if et is None:
            return False
        # every path from the Err edge returns an Err
        from .. import paths as _paths
        vals = []
        for lf in _paths.explore(b, et, lambda t_: False, lambda b_, x_: False, max_paths=200):
            if lf["kind"] == "return":
                vals.append(_paths.value_on_path(b, [si["bb"]] + lf["path"], 0))
        if not vals or not all(v is not None and ((peel(v)[0] == "agg" and peel(v)[3] == "Err") or
                                                  is_call(peel(v), "core::ops::FromResidual::from_residual", "from_residual")) for v in vals):
            return False
    return True


def rule_owned(R):
    f = R.f
    to = roles.method(f, "publication::ResponseTarget", "to_owned")
    R.touch(to)
    reach = f.reachable_bodies([to.name])
    bad = []
    conv = 0
    extends = []
    for n in reach:
        b = f.bodies[n]
        for c in b.calls.values():
            if c.bb not in b.reachable:
                continue
            nm = (c.path or "").rsplit("::", 1)[-1]
            if nm == "extend_from_slice" and _checked_whole_extend(f, b, c):
                extends.append(c)
                continue
            if nm in ("truncate", "split_at", "get", "get_unchecked", "index", "from_utf8_unchecked", "push_str", "extend_from_slice",
                      "from_slice", "chars", "take") or "Index" in (c.path or ""):
                bad.append((c.path, c.span))
            if c.is_("TryInto::try_into", "TryFrom::try_from"):
                conv += 1
    R.ob("owned/no-truncation", not bad,
         "ResponseTarget::to_owned performs no slicing / truncating / partial copy (found %s)" % bad[:2], where=to.span)
    agg = [to.rvalue_term(s["rv"]) for bb, j, s in to.assigns() if bb in to.reachable and "agg" in s["rv"]
           and (s["rv"]["agg"].get("adt") or "").endswith("OwnedResponseTarget")]
    ok = len(agg) == 1
    if ok:
        fl = dict(zip(agg[0][4], agg[0][5]))
        def fallible(t, src):
            t = peel(t)
            alts_ = phi_alts(t)
            if len(alts_) > 1 or (t[0] == "agg" and t[2] == "core::option::Option"):
                # an optional field copied case by case: None stays None, Some(x) is copied fallibly
                somes_ = [a for a in alts_ if a[0] == "agg" and a[3] == "Some" and a[5]]
                nones_ = [a for a in alts_ if a[0] == "agg" and a[3] == "None"]
                if somes_ and len(somes_) + len(nones_) == len(alts_):
                    return all(fallible(a[5][0], src) for a in somes_)
            # `let mut v = Vec::new(); v.extend_from_slice(src).map_err(..)?; Some(v)`: heapless refuses the whole slice when it
            # does not fit (nothing is copied), and the refusal is handed on
            if t[0] == "call" and (t[2] or "").startswith("heapless::vec::") and (t[2] or "").endswith("::new"):
                for c_ in extends:
                    a0 = peel(to.operand_term(c_.args[0]))
                    while a0[0] in ("ref", "deref"):
                        a0 = peel(a0[1])
                    if a0[0] == "call" and a0[1] == t[1] and any(x[0] == "field" and x[2] == src for x in walk(to.operand_term(c_.args[1]))):
                        return True
            r = roles.ok_payload_source(t)   # the Result whose Ok payload is stored (through `?`, match, map_err)
            return r is not None and is_call(r, "try_into", "try_from", "transpose") and \
                any(is_call(x, "try_into", "try_from") for x in walk(r) if x[0] == "call") and \
                any(x[0] == "field" and x[2] == src for x in walk(t))
        ok = fallible(fl["topic"], "topic") and fallible(fl["correlation_data"], "correlation_data")
    R.ob("owned/fallible", ok and (conv + len(extends)) >= 1,
         "both owned copies are made with TryFrom/TryInto and `?` on the mapped error (a target that does not fit is an "
         "error, never a shortened copy)", where=to.span)
    # the mapped error is BufferTooSmall
    errs = set()
    for c in f.children(to):
        t = c.local_term(0)
        for x in walk(t):
            if x[0] == "agg" and x[2] and x[2].endswith("ResourceError"):
                errs.add(x[3])
    # error mappers that read as part of the function itself (`.map_err(|_| ..)` is a match arm after the normal form)
    for bb, j, s_ in to.assigns():
        rv = s_["rv"]
        if bb in to.reachable and "agg" in rv and (rv["agg"].get("adt") or "").endswith("ResourceError"):
            errs.add(rv["agg"]["variant"])
    R.ob("owned/error-kind", errs == {"BufferTooSmall"}, "the conversion errors are reported as BufferTooSmall (found %s)" % sorted(errs), where=to.span)


def rule_decode(R):
    """the lookups find what the broker sent only if every property identifier decodes to *its own* Property variant: an
    identifier that is read correctly but wrapped as ResponseTopic (or CorrelationData) makes a request without a response
    topic look answerable, or sends the reply to another string of the request (shared with C09.props/read)"""
    from .c09 import property_read_table
    f = R.f
    vis, read, built, okup, _vsi = property_read_table(f)
    R.touch(vis)
    n = 0
    for idn in sorted(built):
        if idn == "Invalid":
            continue
        n += 1
        R.ob("decode/%s" % idn, built.get(idn) == [idn],
             "property identifier %s decodes to Property::%s and nothing else (builds %s)" % (idn, idn, built.get(idn)), where=vis.span)
    R.floor("decode", n, 27, "property identifiers decoded")


def rule_property_cursor(R):
    """response topic and correlation data are found wherever they stand in the block: the iterator advances by exactly what each property occupied -- C08's clause"""
    from .c08 import clause_property_cursor
    clause_property_cursor(R, "props-iter")


def rule_shared_block(R):
    """the reply carries the correlation data *and* the user properties: the declared length of a correlated property
    block is the sum of the encoded sizes of everything `serialize` emits for it -- C09's rule"""
    from .c09 import rule_block as _r
    _r(R)


def rule_shared_len16(R):
    """"carrying exactly that correlation data": binary data (and the response topic) of every length up to 65535 is written
    with a checked two-byte length -- C09's rule"""
    from .c09 import rule_len16 as _r
    _r(R)


def run(R):
    R.rule("len16", rule_shared_len16)
    R.rule("block", rule_shared_block)
    R.rule("props-iter", rule_property_cursor)
    R.rule("decode", rule_decode)
    R.rule("lookup", rule_lookup)
    R.rule("target", rule_target)
    R.rule("publication", rule_publication)
    R.rule("owned", rule_owned)
