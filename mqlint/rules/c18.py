"""C18 — operation handles tell the truth about completion and invalidation (structural clauses)."""
from ..core import AnchorLost, chain, peel, phi_alts, is_call, walk, show
from .. import paths
from . import roles, outq, ops
from .roles import SESSION, SDATA, OUTBOUND
from .c02 import arm_of, param_packet
from .c04 import ret_value_on_path
from .c06 import reason_hook

EXPLANATION = (
    "Static clauses of C18 on mir_built: (status) the decision table of Session::status, extracted by constraint-"
    "tracking path enumeration with the lookups as tracked predicates: a generation mismatch yields Invalidated before "
    "anything else; QoS 1 / SUBSCRIBE / UNSUBSCRIBE handles are Pending exactly while their identifier is in the retained "
    "list; QoS 2 handles exactly while it is in the retained list or the release list; (lookup) the lookups compare the "
    "handle's identifier with the entries' identifiers; (handle) every handle is created with the kind of its operation, "
    "the allocator's identifier and the generation current at creation; the generation is only advanced by the session "
    "reset; (final-ack) in each of the five acknowledgement arms the entry is removed before the reason code is examined, "
    "the failure is returned (`?`), process_received_packet passes Rejected through without latching, and a failing PUBREC "
    "queues no PUBREL (so the handle is complete). Identifier reuse is C07."
)
ASSUMPTIONS = []

STATUS = "mqtt_client::OpStatus"
KIND = "mqtt_client::OpKind"


def rule_status(R):
    f = R.f
    try:
        st = roles.method(f, SESSION, "status")
    except AnchorLost:
        # no three-valued `status` any more: the three public predicates are decided directly
        return rule_status_predicates(R)
    R.touch(st)
    hr = roles.method(f, OUTBOUND, "has_retained")
    hp = roles.method(f, OUTBOUND, "has_pending_release")
    kinds = [v["name"] for v in f.adts[KIND]["variants"]]

    def hook(body, bb, si):
        s = peel(si["subject"])
        e = si["edges"]
        if True in e and False in e:
            def _gen_side(x):
                x = peel(x)
                r_, n_ = chain(x)
                if n_[-1:] == ["generation"]:
                    return "op" if r_ == ("param", "op") else "self"
                if is_call(x, "generation"):
                    return "self"
                return None
            if s[0] == "bin" and s[1] in ("Ne", "Eq") and {_gen_side(s[2]), _gen_side(s[3])} == {"op", "self"}:
                ne = s[1] == "Ne"
                return ("gen",), {"mismatch": e[True if ne else False], "match": e[False if ne else True]}
            # `op.kind == OpKind::X` constrains the kind like a match arm does
            if is_call(s, "PartialEq::eq", "eq") and len(s[3]) == 2:
                sides = [peel(s[3][0]), peel(s[3][1])]
                ks_ = [x for x in sides if x[0] == "agg" and x[2] == KIND]
                fs_ = [x for x in sides if chain(x) == (("param", "op"), ["kind"])]
                if len(ks_) == 1 and len(fs_) == 1:
                    return ("op", "kind"), {ks_[0][3]: e[True], ("not", frozenset([ks_[0][3]])): e[False]}
            for alt in phi_alts(s):
                a = peel(alt)
                if a[0] == "call" and a[2] == hr.name:
                    return ("retained",), {"yes": e[True], "no": e[False]}
                if a[0] == "call" and a[2] == hp.name:
                    return ("release",), {"yes": e[True], "no": e[False]}
        return None

    def root_is(t):
        r, n = chain(t)
        return "kind" if (t[0] == "field" and t[2] == "kind") or False else False
    # explore with the kind enum tracked through its field chain
    leaves = paths.explore(st, 0, lambda t: "op" if t == ("param", "op") else False, lambda b, bb: False, switch_hook=hook, max_paths=4000)
    rows = []
    for lf in leaves:
        if lf["kind"] != "return":
            continue
        v = ret_value_on_path(st, lf["path"])
        res = v[3] if v is not None and v[0] == "agg" and v[2] == STATUS else None
        k = None
        for key, val in lf["cons"].items():
            if isinstance(key, tuple) and key and key[0] == "op" and key[-1] == "kind":
                k = val
        ks = [k] if isinstance(k, str) else [x for x in kinds if k is None or x not in k[1]]
        rows.append((lf["cons"].get(("gen",)), ks, lf["cons"].get(("retained",)), lf["cons"].get(("release",)), res))
    # table checks
    bad = []
    seen = set()
    for (gen, ks, ret, rel, res) in rows:
        if gen == "mismatch":
            if res != "Invalidated" or ret is not None or rel is not None:
                bad.append(("generation mismatch must yield Invalidated without consulting the queues", (gen, ks, ret, rel, res)))
            seen.add("mismatch")
            continue
        if gen != "match":
            bad.append(("every verdict must first compare the generation", (gen, ks, ret, rel, res)))
            continue
        for k in ks:
            q2 = k == "PublishExactlyOnce"
            pending = (ret == "yes") or (q2 and rel == "yes")
            determined = ret is not None and (ret == "yes" or not q2 or rel is not None)
            if not determined:
                bad.append(("verdict for %s reached without consulting %s" % (k, "retained and release lists" if q2 else "the retained list"),
                            (gen, k, ret, rel, res)))
                continue
            if not q2 and rel is not None and ret == "no" and False:
                pass
            want = "Pending" if pending else "Complete"
            if res != want:
                bad.append(("%s with retained=%s release=%s must be %s" % (k, ret, rel, want), (gen, k, ret, rel, res)))
            seen.add(k)
    R.ob("status/table", not bad and seen >= set(kinds) | {"mismatch"},
         "Session::status: Invalidated on generation mismatch (checked first); otherwise Pending exactly while the "
         "identifier is retained (or, for QoS 2, waiting for PUBCOMP), else Complete — %d decision paths%s"
         % (len(rows), "" if not bad else "; " + bad[0][0] + " " + str(bad[0][1])), where=st.span)
    # non-QoS2 kinds must not depend on the release list
    dep = [r for r in rows if r[0] == "match" and r[3] is not None and any(k != "PublishExactlyOnce" for k in r[1])]
    R.ob("status/release-only-qos2", not dep, "only QoS 2 handles consult the release list", where=st.span)
    # arguments of the lookups: op.packet_id
    n = 0
    for c in st.calls.values():
        if c.bb in st.reachable and any(t in (hr.name, hp.name) for t in f.call_targets(c)):
            n += 1
            r, nm = chain(st.operand_term(c.args[1]))
            R.ob("status/lookup-arg#%d" % n, r == ("param", "op") and nm == ["packet_id"],
                 "status looks up the handle's own identifier", where=c.span)
    R.floor("status/lookup-arg", n, 2, "queue lookups in status")
    # the lookups themselves compare identifiers
    for b, q in ((hr, "retained"), (hp, "pending_release")):
        ok = roles.membership_loop(b, q, roles.eq_test_taken("packet_id", ("param", "packet_id")))
        okc = True
        R.ob("status/lookup/%s" % b.fn_name, ok and okc,
             "%s is true exactly when some entry of `%s` carries the identifier" % (b.fn_name, q), where=b.span)
    # is_pending / is_complete / is_invalidated map to the three verdicts
    for name, verdict in (("is_pending", "Pending"), ("is_complete", "Complete"), ("is_invalidated", "Invalidated")):
        b = roles.method(f, SESSION, name)
        t = peel(b.local_term(0))
        ok = is_call(t, "PartialEq::eq", "eq") and any(is_call(x, "status") for x in walk(t)) and any(
            x[0] == "agg" and x[2] == STATUS and x[3] == verdict for x in walk(t))
        if not ok:
            # `matches!(self.status(op), OpStatus::<verdict>)`: a switch on the verdict whose <verdict> edge alone yields true
            for sb in b.switches:
                if sb not in b.reachable:
                    continue
                si = b.switch_info(sb)
                if si["enum"] == STATUS and any(is_call(x, "status") for x in walk(si["subject"])):
                    res = {}
                    labs = dict(si["edges"])
                    if si.get("otherwise") is not None and si["otherwise"] not in labs.values():
                        labs["*"] = si["otherwise"]
                    for lab, tgt in labs.items():
                        vs = set()
                        for lf in paths.explore(b, tgt, lambda t_: False, lambda b_, x_: False, max_paths=50):
                            if lf["kind"] == "return":
                                v_ = paths.value_on_path(b, [sb] + lf["path"], 0)
                                vs.add(peel(v_)[2] if v_ is not None and peel(v_)[0] == "const" else None)
                        res[lab] = vs
                    ok = res.get(verdict) == {1} and all(v == {0} for k, v in res.items() if k != verdict) and len(res) >= 2
        R.ob("status/%s" % name, ok, "Session::%s is status(op) == %s" % (name, verdict), where=b.span)
        # the handle's query of the same name answers with the session's: same predicate, same operation, not negated
        from .roles import CONN
        try:
            cbm = roles.method(f, CONN, name)
        except AnchorLost:
            cbm = None
        if cbm is not None:
            ct = peel(cbm.local_term(0))
            okc = (ct[0] == "call" and ct[2] == b.name and len(ct[3]) == 2 and chain(ct[3][0])[1][-1:] == ["session"]
                   and peel(ct[3][1]) == ("param", "op")) or \
                  (is_call(ct, "PartialEq::eq", "eq") and any(is_call(x, "status") for x in walk(ct)) and any(
                      x[0] == "agg" and x[2] == STATUS and x[3] == verdict for x in walk(ct)))
            R.ob("status/connection/%s" % name, okc,
                 "Connection::%s answers with Session::%s of the same operation (found %s)" % (name, name, show(ct)[:100]), where=cbm.span)


def _status_hook(f, hr, hp):
    def hook(body, bb, si):
        s = peel(si["subject"])
        e = si["edges"]
        if True in e and False in e:
            def _gen_side(x):
                x = peel(x)
                r_, n_ = chain(x)
                if n_[-1:] == ["generation"]:
                    return "op" if r_ == ("param", "op") else "self"
                if is_call(x, "generation"):
                    return "self"
                return None
            neg = False
            if s[0] == "un" and s[1] == "Not":
                neg, s = True, peel(s[2])
            if s[0] == "bin" and s[1] in ("Ne", "Eq") and {_gen_side(s[2]), _gen_side(s[3])} == {"op", "self"}:
                ne = (s[1] == "Ne") != neg
                return ("gen",), {"mismatch": e[True if ne else False], "match": e[False if ne else True]}
            if is_call(s, "PartialEq::eq", "eq") and len(s[3]) == 2:
                sides = [peel(s[3][0]), peel(s[3][1])]
                ks_ = [x for x in sides if x[0] == "agg" and x[2] == KIND]
                fs_ = [x for x in sides if chain(x) == (("param", "op"), ["kind"])]
                if len(ks_) == 1 and len(fs_) == 1:
                    return ("op", "kind"), {ks_[0][3]: e[True], ("not", frozenset([ks_[0][3]])): e[False]}
            for alt in phi_alts(s):
                a = peel(alt)
                if a[0] == "call" and a[2] == hr.name:
                    return ("retained",), {"yes": e[not neg], "no": e[neg]}
                if a[0] == "call" and a[2] == hp.name:
                    return ("release",), {"yes": e[not neg], "no": e[neg]}
        return None
    return hook


def rule_status_predicates(R):
    """`is_pending`, `is_complete`, `is_invalidated` written out without a three-valued status: each is tabulated over
    (generation matches?, kind, identifier retained?, identifier waiting for PUBCOMP?) and compared with what the status
    table demands -- invalidated exactly on a generation mismatch (decided before any lookup), pending exactly while the
    identifier is retained (or, for QoS 2, in the release list), complete otherwise"""
    f = R.f
    hr = roles.method(f, OUTBOUND, "has_retained")
    hp = roles.method(f, OUTBOUND, "has_pending_release")
    kinds = [v["name"] for v in f.adts[KIND]["variants"]]
    hook = _status_hook(f, hr, hp)
    bad = []
    covered = 0
    pending_rows = []
    for name in ("is_pending", "is_complete", "is_invalidated"):
        b = roles.method(f, SESSION, name)
        R.touch(b)
        seen = set()
        for lf in paths.explore(b, 0, lambda t: "op" if t == ("param", "op") else False, lambda b_, bb: False, switch_hook=hook, max_paths=4000):
            if lf["kind"] == "limit":
                bad.append(("path limit in %s" % name, ()))
            if lf["kind"] != "return":
                continue
            v = paths.value_on_path(b, lf["path"], 0)
            val = bool(v[2]) if v is not None and v[0] == "const" and v[2] in (0, 1) else None
            if val is None and v is not None and v[0] == "un" and v[1] == "Not" and peel(v[2])[0] == "const" and peel(v[2])[2] in (0, 1):
                val = not bool(peel(v[2])[2])
            k = None
            for key, kv in lf["cons"].items():
                if isinstance(key, tuple) and key and key[0] == "op" and key[-1] == "kind":
                    k = kv
            ks = [k] if isinstance(k, str) else [x for x in kinds if k is None or x not in k[1]]
            gen, ret, rel = lf["cons"].get(("gen",)), lf["cons"].get(("retained",)), lf["cons"].get(("release",))
            if val is None and v is not None and gen is None:
                # the verdict *is* the generation comparison (`!self.is_current(op)`)
                x_ = peel(v)
                neg_ = False
                if x_[0] == "un" and x_[1] == "Not":
                    neg_, x_ = True, peel(x_[2])

                def _gs(y):
                    y = peel(y)
                    r_, n_ = chain(y)
                    if n_[-1:] == ["generation"]:
                        return "op" if r_ == ("param", "op") else "self"
                    return "self" if is_call(y, "generation") else None
                if x_[0] == "bin" and x_[1] in ("Eq", "Ne") and {_gs(x_[2]), _gs(x_[3])} == {"op", "self"}:
                    says_mismatch = (x_[1] == "Ne") != neg_
                    if name == "is_invalidated" and says_mismatch and ret is None and rel is None:
                        seen |= set(ks) | {"mismatch"}
                    else:
                        bad.append(("%s returns the generation comparison itself" % name, ()))
                    continue
            if val is None and v is not None:
                # the verdict *is* the result of a lookup (`=> retained`, `!self.is_in_flight(op)`): both outcomes
                x_ = peel(v)
                neg_ = False
                if x_[0] == "un" and x_[1] == "Not":
                    neg_, x_ = True, peel(x_[2])
                which = None
                for alt in phi_alts(x_):
                    a_ = peel(alt)
                    if a_[0] == "call" and a_[2] == hr.name and ret is None:
                        which = "ret"
                    elif a_[0] == "call" and a_[2] == hp.name and rel is None:
                        which = "rel"
                if which is not None:
                    pending_rows.append((name, gen, ks, ret, rel, which, neg_))
                    continue
            if gen == "mismatch":
                seen.add("mismatch")
                if val != (name == "is_invalidated"):
                    bad.append(("%s on a generation mismatch is %s" % (name, val), (gen, ks, ret, rel)))
                continue
            if gen != "match":
                bad.append(("%s reaches a verdict without comparing the generation" % name, (gen, ks, ret, rel, val)))
                continue
            if name == "is_invalidated":
                seen |= set(ks)
                if val is not False:
                    bad.append(("is_invalidated although the generation matches", (gen, ks, ret, rel, val)))
                continue
            for kk in ks:
                q2 = kk == "PublishExactlyOnce"
                determined = ret is not None and (ret == "yes" or not q2 or rel is not None)
                if not determined:
                    bad.append(("%s for %s decided without consulting the in-flight tables" % (name, kk), (gen, kk, ret, rel, val)))
                    continue
                pending = (ret == "yes") or (q2 and rel == "yes")
                want = pending if name == "is_pending" else (not pending)
                if val != want:
                    bad.append(("%s for %s with retained=%s release=%s is %s" % (name, kk, ret, rel, val), ()))
                if not q2 and rel is not None and ret == "no":
                    bad.append(("%s for %s consults the release list" % (name, kk), ()))
                seen.add(kk)
        for (nm_, gen, ks, ret, rel, which, neg_) in [r for r in pending_rows if r[0] == name]:
            for outcome in ("yes", "no"):
                ret2 = outcome if which == "ret" else ret
                rel2 = outcome if which == "rel" else rel
                val = (outcome == "yes") != neg_
                if gen != "match":
                    bad.append(("%s hands on a lookup result without comparing the generation" % name, (gen, ks)))
                    continue
                for kk in ks:
                    q2 = kk == "PublishExactlyOnce"
                    determined = ret2 is not None and (ret2 == "yes" or not q2 or rel2 is not None)
                    if not determined:
                        bad.append(("%s for %s decided without consulting the in-flight tables" % (name, kk), (gen, kk, ret2, rel2, val)))
                        continue
                    pending = (ret2 == "yes") or (q2 and rel2 == "yes")
                    want = pending if name == "is_pending" else (not pending)
                    if name == "is_invalidated":
                        want = False
                    if val != want:
                        bad.append(("%s for %s with retained=%s release=%s is %s" % (name, kk, ret2, rel2, val), ()))
                    if not q2 and which == "rel":
                        bad.append(("%s for %s consults the release list" % (name, kk), ()))
                    seen.add(kk)
        if seen >= set(kinds) | {"mismatch"}:
            covered += 1
    R.ob("status/table", not bad and covered == 3,
         "is_pending / is_complete / is_invalidated: invalidated exactly on a generation mismatch (checked first); otherwise "
         "pending exactly while the identifier is retained (or, for QoS 2, waiting for PUBCOMP), else complete%s"
         % ("" if not bad else "; " + bad[0][0] + " " + str(bad[0][1])), where=roles.method(f, SESSION, "is_pending").span)
    for b, q in ((hr, "retained"), (hp, "pending_release")):
        ok = roles.membership_loop(b, q, roles.eq_test_taken("packet_id", ("param", "packet_id")))
        R.ob("status/lookup/%s" % b.fn_name, ok,
             "%s is true exactly when some entry of `%s` carries the identifier" % (b.fn_name, q), where=b.span)
    n = 0
    for name in ("is_pending", "is_complete"):
        b = roles.method(f, SESSION, name)
        for c in b.calls.values():
            if c.bb in b.reachable and any(t in (hr.name, hp.name) for t in f.call_targets(c)):
                n += 1
                r, nm = chain(b.operand_term(c.args[1]))
                R.ob("status/lookup-arg/%s#%d" % (name, n), r == ("param", "op") and nm == ["packet_id"],
                     "%s looks up the handle's own identifier" % name, where=c.span)
    R.floor("status/lookup-arg", n, 2, "queue lookups in the predicates")


KIND_OF = {"subscribe": ["Subscribe"], "unsubscribe": ["Unsubscribe"], "publish": ["PublishAtLeastOnce", "PublishExactlyOnce"]}


def rule_handle(R):
    f = R.f
    n = 0
    for op in ops.ENQ_OPS:
        P = ops.pipeline(f, op)
        code = P.code
        for c in P.op_news:
            n += 1
            k = code.operand_term(c.args[0])
            ks = sorted(a[3] for a in phi_alts(k) if a[0] == "agg")
            R.ob("handle/%s/kind" % op, ks == sorted(KIND_OF[op]), "the handle returned by %s has kind %s (found %s)" % (op, KIND_OF[op], ks),
                 where=c.span)
            g = peel(code.operand_term(c.args[2]))
            okg_ = (is_call(g, "generation") and chain(g[3][0])[1][-1:] == ["data"]) or \
                (g[0] == "field" and g[2] == "generation" and g[3] == roles.SDATA and chain(g)[1][-2:] == ["data", "generation"])
            R.ob("handle/%s/generation" % op, okg_,
                 "the handle records the session generation current at creation", where=c.span)
            # created only after the enqueue succeeded
            ret = ops.first(P.retains, "retain", op)
            conts, _ = ops.cont_edges(code, ret)
            R.ob("handle/%s/after-enqueue" % op, bool(conts) and code.must_pass([0], [c.bb], via_edges=conts)[0],
                 "a handle exists only for a request that was enqueued", where=c.span)
    R.floor("handle", n, 3, "handle constructions")
    # Op::new stores its arguments
    on = [b for b in f.bodies.values() if b.kind == "assoc_fn" and b.fn_name == "new" and b.self_ty == "mqtt_client::Op"]
    if len(on) != 1:
        raise AnchorLost("Op::new")
    t = peel(on[0].local_term(0))
    fl = dict(zip(t[4], t[5])) if t[0] == "agg" else {}
    R.ob("handle/ctor", fl.get("kind") == ("param", "kind") and fl.get("packet_id") == ("param", "packet_id") and fl.get("generation") == ("param", "generation"),
         "Op::new stores kind, identifier and generation unchanged", where=on[0].span)
    # generation: accessor returns the field
    try:
        g = roles.method(f, SDATA, "generation")
    except AnchorLost:
        g = None       # the counter is read directly where the handle is built (checked per operation above)
    if g is not None:
        R.ob("handle/generation-accessor", chain(g.local_term(0)) == (("param", "self"), ["generation"]),
             "SessionData::generation returns the counter", where=g.span)


ACK_ARMS = {"PubAck": "retained_removal", "PubRec": "retained_removal", "SubAck": "retained_removal",
            "UnsubAck": "retained_removal", "PubComp": "release_removal"}


def rule_fresh(R):
    """handles are invalidated by the session reset: it has to run whenever the broker reports a fresh session, before the
    handshake can fail for another reason (shared with C05)"""
    from .c05 import clause_fresh_reset
    clause_fresh_reset(R, "invalidate/fresh")


def clause_remove_then_report(R, prefix, arms=None):
    """in each acknowledgement arm the in-flight entry is removed before the reason code is examined (a failing code
    still ends the exchange: the entry, its arena bytes and its slot are released, the handle completes), and every path
    that removed an entry goes on to examine the reason code"""
    f = R.f
    hb, sw = outq.inbound_handler(f)
    R.touch(hb)
    for arm, role in sorted(ACK_ARMS.items()):
        if arms is not None and arm not in arms:
            continue
        _, entry, blocks = outq.handler_arm(f, arm)
        rem = outq.role_fn(f, role)
        rcalls = [c for c in outq.calls_to(f, hb, rem) if arm_of(hb, sw, c.bb) == [arm]]
        # reason checks in this arm
        qs = hb.q_edges(lambda x, arm=arm: is_call(peel(x), "ReasonCode::as_result") and any(
            y[0] == "downcast" and y[2] == arm for y in walk(x)))
        qs = [q for q in qs if arm_of(hb, sw, q["bb"]) == [arm]]
        ok = bool(rcalls) and bool(qs)
        if ok:
            for q in qs:
                okq, off, np_ = paths.every_path_passes(hb, entry, q["bb"], via_blocks=[c.bb for c in rcalls])
                ok = ok and okq
        R.ob("%s/%s/remove-then-report" % (prefix, arm), ok,
             "in the %s arm the in-flight entry is removed before the reason code is examined, and a failure code is "
             "returned with `?` (the handle is complete and the poll that consumed the ack reports Rejected)" % arm,
             where=hb.line(entry))
        # every successful-removal path reaches a reason check before returning Ok
        tstarts = []
        for rc in rcalls:
            tstarts += [t_ for (_, t_) in outq.removed_edges(f, hb, rc, rem)]
        okc = bool(tstarts)
        qbbs = set(q["bb"] for q in qs)
        if any(hb.on_cycle(q["bb"]) for q in qs):
            # SUBACK / UNSUBACK: one reason code per topic, examined in a loop (an empty list has nothing to examine)
            loops = [q["bb"] for q in qs if hb.on_cycle(q["bb"])]
            R.ob("%s/%s/reason-always-checked" % (prefix, arm), True,
                 "the %s arm examines every reason code of the list in a loop" % arm, where=hb.line(loops[0]), nontrivial=False)
            continue
        for ts in tstarts:
            if hb.must_pass([entry], [ts], via_blocks=sorted(qbbs))[0]:
                continue       # a later re-test of the "removed" flag: the reason code was examined on the way here
            for lf in paths.explore(hb, ts, lambda x: False, lambda b, bb: bb in qbbs):
                if lf["kind"] == "return" and not lf["marked"]:
                    okc = False
        R.ob("%s/%s/reason-always-checked" % (prefix, arm), okc,
             "every path of the %s arm that removed an entry examines the reason code(s) before returning" % arm, where=hb.line(entry))


def rule_final_ack(R):
    f = R.f
    hb, sw = outq.inbound_handler(f)
    clause_remove_then_report(R, "final-ack")
    # a failing PUBREC queues no PUBREL
    qrel = outq.role_fn(f, "queue_release")
    _, entry, blocks = outq.handler_arm(f, "PubRec")
    hook = reason_hook("PubRec")
    bad = False
    npaths = 0
    qb = set(c.bb for c in outq.calls_to(f, hb, qrel))
    for lf in paths.explore(hb, entry, lambda x: False, lambda b, bb: bb in qb, switch_hook=hook):
        if lf["kind"] != "return":
            continue
        failing = any(k[0] == "reason" and v == "fail" for k, v in lf["cons"].items() if isinstance(k, tuple))
        if failing:
            npaths += 1
            if lf["marked"]:
                bad = True
    R.ob("final-ack/PubRec/failure-completes", not bad and npaths > 0,
         "a PUBREC with a failure code leaves nothing in the release list, so the QoS 2 handle reports complete", where=hb.line(entry))
    # process_received_packet: Peer(Rejected) passes through (not latched, not swallowed)
    cm = roles.conn_methods(f)
    pb, pcode = cm["process_received_packet"]
    hc = outq.calls_to(f, pcode, hb)
    ok = len(hc) == 1
    if ok:
        from .c11 import result_root_pred, latch_mark
        leaves = paths.explore(pcode, hc[0].target, result_root_pred(pcode, hc[0]), latch_mark(f))
        found = False
        for lf in leaves:
            if lf["kind"] != "return":
                continue
            c1 = lf["cons"].get(("@Err", "0"))
            c2 = lf["cons"].get(("@Err", "0", "@Peer", "0"))
            if c1 == "Peer" and not (c2 == "InvalidPacket"):
                v = ret_value_on_path(pcode, lf["path"])
                passes = v is not None and v[0] == "agg" and v[3] == "Err" and "Peer" in show(v)
                found = found or (passes and not lf["marked"])
                if not passes:
                    ok = False
        ok = ok and found
    R.ob("final-ack/rejected-surfaced", ok,
         "process_received_packet returns a Peer(Rejected) error of the handler unchanged, to the poll that consumed the "
         "acknowledgement", where=pb.span)


def rule_invalidate(R):
    """handles are invalidated exactly by a fresh session: the reset always advances the generation a handle is
    compared with, and nothing else writes it"""
    from .c05 import clause_reset_unconditional
    f = R.f
    clause_reset_unconditional(R, "invalidate/on-every-fresh-session")
    rst = outq.session_reset(f)
    n = 0
    for (b, bb, j, dst, rv, s, final) in f.field_stores(roles.SDATA, "generation"):
        if b.fn_name == "new":
            continue
        n += 1
        R.ob("invalidate/only-by-reset/%s" % b.fn_name, b.name == rst.name,
             "the generation that handles are compared with changes only in the session reset (found a store in %s)" % b.name, where=s["span"])
    R.floor("invalidate/only-by-reset", n, 1, "stores to the generation counter")


def rule_ack_lookup(R):
    """an operation is complete once its final acknowledgement arrived: the acknowledgement finds the entry it names --
    the lookup tests the identifier only, nothing that changes while the packet is in flight (send progress, the arena
    offset, the DUP patch applied before every replay) -- and removes that entry (shared with C02 / C03 / C07)"""
    f = R.f
    outq.clause_removal_index(R, "ack/retained-removes-the-acknowledged-entry", outq.role_fn(f, "retained_removal"), "retained")
    outq.clause_removal_index(R, "ack/release-removes-the-acknowledged-entry", outq.role_fn(f, "release_removal"), "pending_release")
    outq.clause_removal_result(R, "ack/retained-removal-reports-removal", outq.role_fn(f, "retained_removal"), "retained")
    outq.clause_removal_result(R, "ack/release-removal-reports-removal", outq.role_fn(f, "release_removal"), "pending_release")


def rule_reason(R):
    """a failure reason code is surfaced by the poll that consumed it: which codes are failures is ReasonCode::success (MQTT 5 2.4: below 0x80) -- shared clause"""
    roles.clause_reason_predicates(R, "reason")


def run(R):
    R.rule("reason", rule_reason)
    R.rule("ack", rule_ack_lookup)
    R.rule("status", rule_status)
    R.rule("handle", rule_handle)
    R.rule("final-ack", rule_final_ack)
    R.rule("fresh", rule_fresh)
    R.rule("invalidate", rule_invalidate)
