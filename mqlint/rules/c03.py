"""C03 — QoS 2 outbound exchange is exactly-once (structural clauses)."""
from ..core import AnchorLost, chain, peel, phi_alts, is_call, walk, show
from .. import paths
from . import roles, outq, ops
from .c02 import arm_of, param_packet

EXPLANATION = (
    "Static clauses of C03 on mir_built: (rel) in the PUBREC arm of the inbound handler every feasible path to the "
    "PUBREL enqueue passes the success edge of the retained-removal (so the PUBLISH can never be sent again) and the "
    "success edge of the reason-code check (a failing PUBREC queues nothing), and the queued identifier is the "
    "PUBREC's; (comp) release entries are removed only in the removal function, which only the PUBCOMP arm calls with "
    "that packet's identifier; (order) no order-breaking operation on the release queue; (wire) the PUBREL is "
    "serialised from the release step's own identifier and release entries are re-armed for replay. Path-sensitive "
    "must-pass with constant propagation of boolean locals; interleavings of exchanges are covered through these "
    "per-entry invariants only."
)
ASSUMPTIONS = ["heapless::Vec::remove preserves the order of the remaining elements"]


def rule_rel(R):
    f = R.f
    hb, sw = outq.inbound_handler(f)
    R.touch(hb)
    _, entry, blocks = outq.handler_arm(f, "PubRec")
    qrel = outq.role_fn(f, "queue_release")
    rem = outq.role_fn(f, "retained_removal")
    qcalls = [c for c in outq.calls_to(f, hb, qrel)]
    n = 0
    for c in qcalls:
        arms = arm_of(hb, sw, c.bb)
        n += 1
        R.ob("rel/arm#%d" % n, arms == ["PubRec"],
             "a PUBREL may only be queued from the PUBREC arm of the inbound handler (found in %s)" % arms, where=c.span)
        if arms != ["PubRec"]:
            continue
        # removal success edge
        rcalls = [rc for rc in outq.calls_to(f, hb, rem) if rc.bb in blocks and arm_of(hb, sw, rc.bb) == ["PubRec"]]
        true_edges = []
        for rc in rcalls:
            true_edges += outq.removed_edges(f, hb, rc, rem)
        ok, off, np_ = paths.every_path_passes(hb, entry, c.bb, via_edges=true_edges) if true_edges else (False, None, 0)
        R.stats["paths"] += np_
        R.ob("rel/after-removal#%d" % n, ok,
             "every feasible path to the PUBREL enqueue passes the success edge of the retained-removal for that "
             "PUBREC (after a PUBREC the PUBLISH is gone and cannot be sent again)%s"
             % ("" if ok else ": path %s avoids it" % (off,)), where=c.span)
        # reason check
        def is_reason(x):
            x = peel(x)
            return is_call(x, "ReasonCode::as_result") and any(
                y[0] == "downcast" and y[2] == "PubRec" for y in walk(x))
        qs = hb.q_edges(is_reason)
        conts = [q["cont"] for q in qs if q["cont"][1] is not None]
        ok2, off2, np2 = paths.every_path_passes(hb, entry, c.bb, via_edges=conts) if conts else (False, None, 0)
        R.ob("rel/after-reason#%d" % n, ok2,
             "every feasible path to the PUBREL enqueue passes the success edge of the PUBREC reason-code check "
             "(a failing PUBREC ends the exchange without PUBREL)", where=c.span)
        idt = hb.operand_term(c.args[1])
        root, names = chain(idt)
        R.ob("rel/id#%d" % n, root == ("param", param_packet(hb)) and names == ["@PubRec", "0", "packet_id"],
             "the queued PUBREL carries the identifier of the PUBREC (found %s)" % show(idt), where=c.span)
    R.exact("rel", len(qcalls), 1, "PUBREL enqueue call sites in the crate's inbound handler")
    # nobody else queues a release
    for b in f.bodies.values():
        if f.in_fuzzing(b) or b.name == hb.name:
            continue
        for c in outq.calls_to(f, b, qrel):
            R.ob("rel/caller/%s" % b.fn_name, False, "PUBREL queued outside the inbound handler, in %s" % b.name, where=c.span)


def rule_comp(R):
    f = R.f
    cen = outq.census(f)
    rem = outq.role_fn(f, "release_removal")
    clr = outq.role_fn(f, "clear")
    allowed = {rem.name, clr.name}
    n = 0
    for (b, c, m, mut) in cen["pending_release"]["calls"]:
        if m in outq.SHRINK and mut:
            n += 1
            R.ob("comp/who/%s/%s" % (b.fn_name, m), b.name in allowed,
                 "the release list may only shrink in the PUBCOMP removal (`%s`) and in `%s`; found `%s` in %s"
                 % (rem.fn_name, clr.fn_name, m, b.name), where=c.span)
    R.floor("comp/who", n, 2, "shrinking calls on `pending_release`")
    hb, sw = outq.inbound_handler(f)
    ncall = 0
    for b in f.bodies.values():
        if f.in_fuzzing(b):
            continue
        for c in outq.calls_to(f, b, rem):
            ncall += 1
            if b.name != hb.name:
                R.ob("comp/caller/%s" % b.fn_name, False,
                     "release removal called outside the inbound handler, in %s" % b.name, where=c.span)
                continue
            arms = arm_of(hb, sw, c.bb)
            idt = hb.operand_term(c.args[1])
            root, names = chain(idt)
            ok = arms == ["PubComp"] and root == ("param", param_packet(hb)) and names == ["@PubComp", "0", "packet_id"]
            R.ob("comp/caller/%s" % "+".join(arms), ok,
                 "a release entry is removed only in the PUBCOMP arm, by that PUBCOMP's identifier (arm %s, id %s)"
                 % (arms, show(idt)), where=c.span)
    R.exact("comp/caller", ncall, 1, "call sites of the release removal")
    outq.clause_removal_index(R, "comp/removes-the-acknowledged-entry", rem, "pending_release")
    outq.clause_removal_result(R, "comp/reports-removal", rem, "pending_release")
    # the PUBREC that opens the release exchange finds the PUBLISH it names, also when that PUBLISH was replayed (DUP set)
    outq.clause_removal_index(R, "rel/pubrec-finds-the-publish", outq.role_fn(f, "retained_removal"), "retained")


def rule_order(R):
    f = R.f
    cen = outq.census(f)
    n = 0
    for (b, c, m, mut) in cen["pending_release"]["calls"]:
        n += 1
        if m in outq.ORDER_BREAKING:
            R.ob("order/pending_release/%s/%s" % (b.fn_name, m), False,
                 "`%s` on `pending_release` in %s does not preserve the order in which the PUBRECs were received "
                 "(replayed PUBRELs must keep that order, MQTT-4.6.0-4)" % (m, b.name), where=c.span)
    R.ob("order/pending_release", True, "no order-breaking operation on `pending_release`")
    R.floor("order", n, 5, "method calls on the release queue")


def rule_wire(R):
    f = R.f
    cm = roles.conn_methods(f)
    pb, pcode = cm["perform_outbound_step"]
    calls = [c for c in pcode.calls.values() if c.bb in pcode.reachable and c.is_("serialize_pubrel")]
    n = 0
    for c in calls:
        n += 1
        idt = pcode.operand_term(c.args[1])
        root, names = chain(idt)
        R.ob("wire/pubrel-id#%d" % n, names == ["@Release", "0", "packet_id"],
             "the PUBREL written for a release step carries that step's identifier (found %s)" % show(idt), where=c.span)
    R.floor("wire", n, 1, "serialize_pubrel call sites")
    # release step identifiers come from the entry
    ns = roles.method(f, roles.OUTBOUND, "next_step")
    m = 0
    for sc in outq.step_constructions(f, ns):
        if sc["kind"] != "Release":
            continue
        fields = sc["fields"]
        r1, n1 = chain(fields.get("packet_id"), extra=outq.ELEM) if fields.get("packet_id") is not None else (None, [])
        m += 1
        R.ob("wire/step-id#%d" % m, "pending_release" in n1 and n1[-1:] == ["packet_id"],
             "a release step is built from an entry of the release list (packet_id = %s)"
             % (show(fields.get("packet_id")) if fields.get("packet_id") is not None else None), where=sc["span"])
    R.floor("wire/step", m, 1, "ReleaseStep constructions")
    re = outq.rearm_sites(f)
    _, ccode = roles.session_connect(f)
    R.ob("wire/rearmed", any(q.get("pending_release") == "always" for n, q in re.items() if outq.calls_to(f, ccode, f.bodies[n])),
         "release entries are re-armed for replay on a new connection (PUBREL, not PUBLISH, is retransmitted)")


def rule_final(R):
    """a PUBCOMP (and a PUBREC) ends its stage of the exchange whatever its reason code: the entry is removed before the
    code is examined -- a PUBCOMP carrying 0x92 after a lost PUBCOMP must not leave the PUBREL to be replayed for ever
    (shared with C18)"""
    from .c18 import clause_remove_then_report
    clause_remove_then_report(R, "final", arms=("PubComp", "PubRec"))


def rule_reason(R):
    """a PUBREC carrying a failure code ends the exchange without PUBREL: which codes are failures is ReasonCode::success / failed (MQTT 5 2.4: below 0x80) -- shared clause"""
    roles.clause_reason_predicates(R, "reason")


def rule_shared_sent(R):
    """a PUBREL whose flush completed is marked sent in the release queue -- C02's rule"""
    from .c02 import rule_sent as _r
    _r(R)


def clause_ack_reaches_removal(R, key, arm, role):
    """Every acknowledgement is looked up: no path through its arm of the inbound handler leaves the handler before the
    removal from the table it acknowledges was attempted.  A test placed in front of it that returns early consumes the
    acknowledgement -- after a PUBREC of an accepted message no PUBREL follows; after a PUBACK / PUBCOMP the entry stays and
    is re-sent on the next resumed connection although it was acknowledged."""
    from .. import paths
    f = R.f
    hb, sw = outq.inbound_handler(f)
    _, entry, blocks = outq.handler_arm(f, arm)
    rem = outq.role_fn(f, role)
    rblocks = set(c.bb for c in outq.calls_to(f, hb, rem) if c.bb in blocks)
    if not rblocks:
        raise AnchorLost("%s-removal-call" % arm)
    early = None
    for lf in paths.explore(hb, entry, lambda x: False, lambda b, bb: False, stop_pred=lambda b, x: x in rblocks, max_paths=3000):
        if lf["kind"] in ("return", "limit") and early is None:
            early = lf["path"][-1]
    R.ob(key, early is None,
         "every path through the %s arm attempts the removal (%s) before it leaves the handler (an early return "
         "consumes the acknowledgement)" % (arm, rem.fn_name), where=hb.line(early) if early is not None else hb.line(entry))


def clause_pubrec_reaches_removal(R, key):
    clause_ack_reaches_removal(R, key, "PubRec", "retained_removal")


def clause_pubrec_success_continues(R, key):
    """A PUBREC that accepted the message (any success code: 0x00, 0x10 "no matching subscribers") takes the PUBLISH out of
    the retained list -- from then on only the release entry keeps the identifier reserved and gets the PUBREL sent.  So on
    every path of the PUBREC arm on which the retained removal succeeded and the reason code was found to be a success,
    the release entry is queued.  The reason tests (failed / success / as_result / `?`) are correlated as outcomes of one
    predicate; a test against one particular success code is not, so `reason != Success` standing in for `failed()` leaves
    a path where a success code ends the exchange silently."""
    from .c06 import reason_hook
    from .. import paths
    f = R.f
    hb, sw = outq.inbound_handler(f)
    _, entry, blocks = outq.handler_arm(f, "PubRec")
    rem = outq.role_fn(f, "retained_removal")
    qrel = outq.role_fn(f, "queue_release")
    rcalls = [c for c in outq.calls_to(f, hb, rem) if c.bb in blocks]
    qb = set(c.bb for c in outq.calls_to(f, hb, qrel) if c.bb in blocks)
    starts = []
    all_removed = [e_ for rc in rcalls for e_ in outq.removed_edges(f, hb, rc, rem)]
    for rc in rcalls:
        for (_, t_) in outq.removed_edges(f, hb, rc, rem):
            # only the first test of the "removed" outcome (a later re-test starts behind the reason check)
            if not any(t_ in hb.reach([t2]) and t_ != t2 for (_, t2) in outq.removed_edges(f, hb, rc, rem)):
                starts.append(t_)
    bad, n = None, 0
    base_hook = reason_hook("PubRec")

    def hook(body, bb, si):
        r = base_hook(body, bb, si)
        if r is not None:
            return r
        # a flag that carries the verdict (`let resolved = reason.failed(); .. queue_release = !resolved`): on the paths
        # followed here (the removal succeeded) the flag is that verdict, possibly negated
        e = si["edges"]
        if True not in e or False not in e:
            return None
        for alt in phi_alts(si["subject"]):
            a, neg = peel(alt), False
            while a[0] == "un" and a[1] == "Not":
                a, neg = peel(a[2]), not neg
            if a[0] != "call" or not any(y[0] == "downcast" and y[2] == "PubRec" for y in walk(a)):
                continue
            key = ("reason", show(peel(a[3][0]))) if a[3] else None
            if key is None:
                continue
            if is_call(a, "ReasonCode::failed"):
                return key, ({"fail": e[False], "ok": e[True]} if neg else {"fail": e[True], "ok": e[False]})
            if is_call(a, "ReasonCode::success"):
                return key, ({"ok": e[False], "fail": e[True]} if neg else {"ok": e[True], "fail": e[False]})
        return None
    for ts in starts:
        for lf in paths.explore(hb, ts, lambda x: False, lambda b, bb: bb in qb, switch_hook=hook, max_paths=3000):
            if lf["kind"] != "return":
                continue
            failing = any(k[0] == "reason" and v == "fail" for k, v in lf["cons"].items() if isinstance(k, tuple))
            # a later re-test of the removal's outcome (`if !first_pubrec { .. }`) can only go the "removed" way on these paths
            infeasible = False
            pth = lf["path"]
            for k_ in range(len(pth) - 1):
                for (sb_, t_) in all_removed:
                    if pth[k_] == sb_ and pth[k_ + 1] != t_:
                        infeasible = True
            if infeasible:
                continue
            v = paths.value_on_path(hb, lf["path"], 0)
            is_err = v is not None and ((peel(v)[0] == "agg" and peel(v)[3] == "Err") or is_call(peel(v), "core::ops::FromResidual::from_residual", "from_residual"))
            if failing or is_err:
                continue
            n += 1
            if not lf["marked"]:
                bad = lf
    R.ob(key, bool(starts) and bool(qb) and n > 0 and bad is None,
         "in the PUBREC arm every path on which the PUBLISH was taken out of the retained list and the reason code was a "
         "success queues the release entry (%d such paths)%s" % (n, "" if bad is None else ": one returns without it"),
         where=hb.line(entry))


def rule_success_continues(R):
    clause_pubrec_success_continues(R, "rel/success-continues")
    clause_pubrec_reaches_removal(R, "rel/pubrec-reaches-removal")
    clause_ack_reaches_removal(R, "comp/pubcomp-reaches-removal", "PubComp", "release_removal")


def run(R):
    R.rule("success-continues", rule_success_continues)
    R.rule("sent", rule_shared_sent)
    R.rule("reason", rule_reason)
    R.rule("final", rule_final)
    R.rule("rel", rule_rel)
    R.rule("comp", rule_comp)
    R.rule("order", rule_order)
    R.rule("wire", rule_wire)
