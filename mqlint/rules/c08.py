"""C08 — any inbound bytes: valid packets accepted, malformed rejected, no panic (structural clauses)."""
import re
from ..core import AnchorLost, chain, peel, phi_alts, is_call, walk, show
from .. import paths, panics, oracle, valueset
from . import roles, outq
from .roles import CONN
from .c04 import ret_value_on_path

EXPLANATION = (
    "Static clauses of C08 on mir_built: (panic) every panic-capable site (MIR Assert terminators — bounds and arithmetic "
    "overflow — and calls to unwrap/expect/slice indexing/copy_from_slice/remove/explicit panics) in the functions "
    "reachable from the inbound entry points (reader, decoder and all serde visitor impls, property iteration, inbound "
    "handler, delivery, reply helpers) is enumerated; each must be discharged automatically (constant condition, type-level "
    "fact such as try_into::<[u8;N]> of try_take_n(N)) or by a table entry that names the dominating guard(s), which are "
    "re-verified on the current tree; a new site, or a site whose guard disappeared, is a violation; (tables) the decode "
    "tables of the control-packet visitor — type dispatch, required flag nibble per type, QoS 3 rejection, the packets "
    "that may carry a trailing payload — against MQTT 5; (varint) the canonical varint reader: four bytes at most, top "
    "nibble bound, overlong check on the terminating byte, and the reader's fixed-header probe bound; (unreachable) the "
    "three unreachable!()/expect sites are dead by variant-set flow; (latch) decode and protocol errors latch the handle "
    "(the C11 inbound clauses re-evaluated here). Exact field values for every valid packet are decided only as far as the "
    "C09 tables (types and layouts)."
)
ASSUMPTIONS = ["serde's derived Deserialize impls for the packet structs call the deserializer's primitives in field order",
               "usize arithmetic on lengths of in-memory slices cannot overflow (sum of lengths bounded by addressable memory)"]


def inbound_bodies(f):
    cm = roles.conn_methods(f)
    entries = []
    for b in f.bodies.values():
        if b.kind not in ("fn", "assoc_fn"):
            continue
        n = b.name
        if n.startswith("de::") or (n.startswith("<") and (" as packets::_::_serde::de::" in n or "Deserialize" in n or "de::" in n.split(" as ")[0])):
            entries.append(n)
    for n in ("process_received_packet", "decode_inbound_publish", "poll", "recv", "drive", "read_packet"):
        if n not in cm:
            raise AnchorLost("Connection::" + n)
        entries.append(cm[n][1].name)
    entries.append(roles.free_fn(f, "fill_packet_reader").name)
    entries.append(outq.inbound_handler(f)[0].name)
    entries.append(roles.handshake(f)[2].name)
    for b in f.bodies.values():
        if b.kind == "assoc_fn" and b.self_ty and (b.self_ty.startswith("mqtt_client::InboundPublish") or b.self_ty.startswith("properties::Properties<")
                                                   or b.self_ty.startswith("properties::PropertiesIter") or b.self_ty.startswith("publication::ResponseTarget")):
            entries.append(b.name)

    def excluded(n):
        b = f.bodies[n]
        root = f.bodies.get(b.root, b)
        if root.trait and root.trait.endswith("Serialize"):
            return True
        if n.startswith("ser::") or n.startswith("mqtt_client::outbound::"):
            return True
        if root.name.startswith("mqtt_client::session::drive::") and root.fn_name not in (
                "fill_packet_reader", "poll", "recv", "drive", "read_packet", "wait_for_progress", "drive_packet"):
            return True
        if root.name.startswith("mqtt_client::session::operations::"):
            return True
        if "write_packet" in n or "Serialize" in n or "defmt::Format" in n:
            return True
        if root.fn_name in ("size", "encoded_len") and (root.name.startswith("properties::") or root.name.startswith("varint::")):
            return True  # encoded-size computations for outbound packets: not driven by inbound bytes
        return False
    cg = f.callgraph()
    seen = set()
    work = [e for e in entries if e in f.bodies and not excluded(e)]
    while work:
        x = work.pop()
        if x in seen:
            continue
        seen.add(x)
        for y in cg.get(x, ()):
            if y not in seen and not excluded(y):
                work.append(y)
    return [f.bodies[n] for n in sorted(seen) if not f.in_fuzzing(f.bodies[n])]


# key pattern (regex on the site key) -> (required guard substrings, reason)
DISCHARGE = [
    (r"ElementAccess.*next_element_seed/assert:overflow-Sub#1$", ["0_usize < *self.count"],
     "count -= 1 under `count > 0`"),
    (r"SeqAccess<'a, 'de> as de::SeqAccess.*next_element_seed/assert:overflow-Sub#1$", ["0_usize < *self.length"],
     "original_remaining - len(): the deserializer's index only grows during the element, so len() only shrinks"),
    (r"PropertiesIter.*::next/assert:overflow-Add#\d+$", ["(*self.inner as Encoded).index < <impl [T]>::len(&*(*self.inner as Encoded).props)"],
     "index += deserialized_bytes(): at most the length of the remaining slice", r"as Encoded\)\.index, .*deserialized_bytes"),
    (r"PropertiesIter.*::next/assert:overflow-Add#\d+$", [],
     "index += 1 after props.get(index) returned Some: index < len <= isize::MAX", r"as (Slice|WithCorrelation)\)\.index, 1_usize\)"),
    (r"PropertiesIter.*::next/call:index#1$", ["(*self.inner as Encoded).index < <impl [T]>::len(&*(*self.inner as Encoded).props)"],
     "props[index..] under index < props.len()"),
    (r"MqttDeserializer::<'a>::len/assert:overflow-Sub#1$", [],
     "buf.len() - index: index is only advanced by pop / try_take_n under their own guards (index <= buf.len() is invariant)"),
    (r"MqttDeserializer::<'a>::pop/assert:BoundsCheck#1$", ["0_usize != <'a>::len(&*self)"], "buf[index] under len() != 0"),
    (r"MqttDeserializer::<'a>::pop/assert:overflow-Add#1$",
     [("0_usize != <'a>::len(&*self)", "<impl [T]>::split_first(&*<'a>::remainder(&*self)) is Some",
       "<impl [T]>::first(&*<'a>::remainder(&*self)) is Some")],
     "index += 1 under len() != 0 (or: the remainder has a first element)"),
    (r"MqttDeserializer::<'a>::remainder/call:index#1$", [], "buf[index..]: index <= buf.len() is invariant (see len)"),
    (r"MqttDeserializer::<'a>::try_take_n/(assert:overflow-Add#[12]|call:index#1)$",
     [("n <= <'a>::len(&*self)", "<impl [T]>::get(&*<'a>::remainder(&*self), RangeTo{end: n}) is Some")],
     "buf[index..index+n] and index += n under n <= len() (or: remainder().get(..n) is Some, i.e. n <= remainder().len())"),
    (r"PacketReader::<'a>::commit/assert:overflow-Add#1$", [],
     "read_bytes += count: count is at most the length of the window handed out by receive_buffer, which ends inside the buffer"),
    (r"PacketReader::<'a>::probe_fixed_header/assert:overflow-(Mul|Shl|Add)#\d$", ["1_usize < *self.read_bytes"],
     "at most four length bytes are folded (take(4)): index*7 <= 21, 7-bit parts, sums below 2^28 + 5"),
    (r"PacketReader::<'a>::probe_fixed_header/call:index#1$", ["1_usize < *self.read_bytes"],
     "buffer[1..read_bytes] under read_bytes > 1 (read_bytes <= buffer.len(): only committed counts of windows inside the buffer)"),
    (r"PacketReader::<'a>::receive_buffer/assert:overflow-Add#1$", ["*self.packet_length is None"], "read_bytes + 1: read_bytes <= buffer.len()"),
    (r"PacketReader::<'a>::receive_buffer/call:index_mut#1$", ["<= <impl [T]>::len(&**self.buffer)"],
     "buffer[read_bytes..end] under end <= buffer.len() (C14.rx); read_bytes < end while no packet is available"),
    (r"PacketReader::<'a>::take_packet/call:index#1$", [],
     "buffer[..packet_length]: the length was accepted by receive_buffer (<= buffer.len()) before its bytes could be read"),
    (r"decode_inbound_publish/call:index#\d+$", [],
     "buffer[..packet_length] with the length take_packet just sliced successfully on the same buffer",
     r"packet_reader\.buffer.*RangeTo\{end: packet_length\}$"),
    (r"handle_packet/call:swap_remove#1$", ["is Some"], "swap_remove(index) with the index position() just returned"),
    # x - min(c, x / 2): the subtrahend is at most x / 2 <= x, whatever x is -- identified by the expression, no guard needed
    (r"keepalive_send_interval/assert:overflow-Sub#\d+$", [],
     "keepalive - min(5000, keepalive/2) >= 0 for every keepalive (not inbound-data dependent)",
     r"^SubWithOverflow\((?P<x>.+), Ord::min\((\d+_u64, Div\((?P=x), 2_u64\)|Div\((?P=x), 2_u64\), \d+_u64)\)\)\.1$"),
]


def norm_guard(g):
    """one spelling for equivalent unsigned comparisons with zero: `0 < x`, `0 != x`, `x != 0`, `1 <= x`; a field of
    `self` and a parameter of the same name read alike (a method turned into an associated function over its fields)"""
    g = re.sub(r"\*+self\.(\w+)", r"\1", g)
    g = re.sub(r"&\*+(\w+)", r"\1", g)
    m = re.match(r"^0_(\w+) (?:<|!=) (.+)$", g)
    if m:
        return "%s != 0_%s" % (m.group(2), m.group(1))
    m = re.match(r"^1_(\w+) <= (.+)$", g)
    if m:
        return "%s != 0_%s" % (m.group(2), m.group(1))
    return g


def takes_exactly_n(f, name):
    """function `name` returns Ok(&buf[i..i + n]) (n its second parameter): a slice of exactly n bytes"""
    b = f.bodies.get(name)
    if b is None or b.arg_count < 2:
        return False
    n = ("param", b.param_name(2))
    oks = [a for a in phi_alts(b.local_term(0)) if a[0] == "agg" and a[3] == "Ok"]
    if not oks:
        return False
    for a in oks:
        v = peel(a[5][0])
        if not (is_call(v, "core::ops::Index::index") and len(v[3]) == 2):
            return False
        rng = peel(v[3][1])
        if not (rng[0] == "agg" and (rng[2] or "").endswith("ops::Range") and len(rng[5]) == 2):
            return False
        st, en = peel(rng[5][0]), peel(rng[5][1])
        if en[0] == "field" and en[1][0] == "bin":
            en = en[1]
        if not (en[0] == "bin" and en[1].startswith("Add") and {show(peel(en[2])), show(peel(en[3]))} == {show(st), show(n)}):
            return False
    return True


def auto_discharge(f, s):
    """(ok, how) for sites that need no table entry"""
    b, bb = s["body"], s["bb"]
    if s["const"]:
        return True, "constant condition"
    if s["kind"] == "assert":
        t = b.blocks[bb]["term"]
        cond = peel(b.operand_term(t["cond"]))
        if cond[0] == "bin" and cond[1] in ("Lt", "Le"):
            a_ = valueset.evaluate(f, cond[2])
            b_ = valueset.evaluate(f, cond[3])
            if a_ and b_ and len(a_) == 1 and len(b_) == 1:
                x_, y_ = list(a_)[0], list(b_)[0]
                if ((x_ < y_) if cond[1] == "Lt" else (x_ <= y_)) == t["expected"]:
                    return True, "constant condition %s" % show(cond)
        # shift amount drawn from a literal array / constant stepped range, all below the bound
        if cond[0] == "bin" and cond[1] == "Lt" and cond[3][0] == "const" and cond[3][2] is not None:
            sq = const_sequence(cond[2])
            if sq and all(0 <= e < cond[3][2] for e in sq):
                return True, "shift amounts %s < %d" % (sq, cond[3][2])
        if cond[0] == "bin" and cond[1] == "Eq" and cond[2][0] == "const" and cond[3][0] == "const" and t["expected"] is False \
                and cond[2][2] != cond[3][2]:
            return True, "constant divisor"
        # x + 1 after x was validated as an index (x < len): no overflow; a - b under b <= a: no underflow
        ar = None
        for x in walk(cond):
            if x[0] == "bin" and x[1] in ("AddWithOverflow", "SubWithOverflow"):
                ar = x
        if ar is not None:
            fs = panics.facts(b, bb)
            lhs, rhs = show(peel(ar[2])), show(peel(ar[3]))
            if ar[1] == "AddWithOverflow" and peel(ar[3])[0] == "const" and peel(ar[3])[2] == 1:
                for (op, l, r, _) in fs:
                    if op == "lt" and l == lhs:
                        return True, "%s + 1 where %s < %s holds" % (lhs, l, r)
            if ar[1] == "SubWithOverflow":
                for (op, l, r, _) in fs:
                    if op in ("lt", "le") and l == rhs and r == lhs:
                        return True, "%s - %s where %s %s %s holds" % (lhs, rhs, l, "<" if op == "lt" else "<=", r)
                if peel(ar[3])[0] == "const" and peel(ar[3])[2] == 1:
                    # x - 1 where x is known to be non-zero
                    for (op, l, r, _) in fs:
                        if (op == "lt" and re.match(r"^0_\w+$", l) and r == lhs) or (op == "ne" and {l, r} >= {lhs} and any(re.match(r"^0_\w+$", z) for z in (l, r))):
                            return True, "%s - 1 where %s is non-zero" % (lhs, lhs)
        return False, ""
    c = b.calls[bb]
    if s["what"] == "unwrap":
        a = peel(b.operand_term(c.args[0]))
        # <[u8; N]>::try_from(try_take_n(N)?)
        if is_call(a, "TryInto::try_into", "TryFrom::try_from") and a[3]:
            inner = peel(a[3][0])
            if isinstance(inner, tuple) and inner[0] == "ok" and is_call(peel(inner[1]), "try_take_n"):
                n = peel(inner[1])[3][1]
                tc = b.calls.get(a[1])
                want = "[u8; %s]" % n[2] if n[0] == "const" else None
                if tc is not None and want and any(want in g for g in tc.gargs):
                    return True, "conversion of the %s-byte slice returned by try_take_n(%s) to %s" % (n[2], n[2], want)
        if is_call(a, "NonZero::<T>::new") and a[3] and a[3][0][0] == "const" and a[3][0][2] not in (0, None):
            return True, "NonZero::new of a non-zero constant"
    if s["what"] == "copy_from_slice" and len(c.args) == 2:
        # [u8; N].copy_from_slice(take_n(N)?): both lengths are the same constant
        dst = peel(b.operand_term(c.args[0]))
        while isinstance(dst, tuple) and dst[0] == "cast":
            dst = peel(dst[2])
        n_dst = dst[2] if isinstance(dst, tuple) and dst[0] == "repeat" else (len(dst[5]) if isinstance(dst, tuple) and dst[0] == "agg" and dst[1] == "array" else None)
        src = peel(b.operand_term(c.args[1]))
        if isinstance(src, tuple) and src[0] == "ok":
            inner = peel(src[1])
            if is_call(inner, "try_take_n") and len(inner[3]) == 2 and inner[3][1][0] == "const" and takes_exactly_n(f, inner[2]):
                if n_dst is not None and n_dst == inner[3][1][2]:
                    return True, "copy of the %d-byte slice returned by try_take_n(%d) into a %d-byte array" % (n_dst, n_dst, n_dst)
    if s["what"] in ("index", "index_mut"):
        rng = peel(b.operand_term(c.args[1]))
        if rng[0] == "agg" and (rng[2] or "").endswith("RangeFull"):
            return True, "indexing with .. cannot fail"
    return False, ""


def rule_panic(R):
    f = R.f
    bodies = inbound_bodies(f)
    for b in bodies:
        R.touch(b)
    sites = panics.enumerate_sites(f, bodies)
    n = 0
    special = set()
    for s in sites:
        if s["what"] in ("panic_fmt", "panic", "expect") and re.search(r"(poll|recv|decode_inbound_publish|process_received_packet)", s["fn"]):
            special.add(s["key"])
            continue
        n += 1
        ok, how = auto_discharge(f, s)
        if ok:
            R.ob("panic/%s" % s["key"], True, "%s at %s cannot fire: %s" % (s["what"], s["span"], how), where=s["span"])
            continue
        gs = panics.guards(s["body"], s["bb"])
        entry = None
        for row in DISCHARGE:
            pat, need, reason = row[:3]
            # a fourth column identifies the site by what it does rather than by its position in the function
            if re.search(pat, s["key"]) and (len(row) < 4 or re.search(row[3], s["detail"])):
                entry = (need, reason)
                break
        if entry is None:
            R.ob("panic/%s" % s["key"], False,
                 "undischarged panic-capable site on the inbound path: %s (%s) in %s; dominating guards: %s"
                 % (s["what"], s["detail"][:100], s["fn"], gs[:4]), where=s["span"])
            continue
        need, reason = entry
        # a tuple lists equivalent spellings of one required guard
        missing = [g for g in need
                   if not any(norm_guard(alt) in norm_guard(have) for have in gs for alt in (g if isinstance(g, tuple) else (g,)))]
        R.ob("panic/%s" % s["key"], not missing,
             "%s in %s is safe because: %s%s" % (s["what"], s["fn"], reason,
                                                 "" if not missing else " — but the guard `%s` no longer dominates it (guards now: %s)"
                                                 % (missing[0] if not isinstance(missing[0], tuple) else missing[0][0], gs[:4])),
             where=s["span"])
    R.floor("panic", n, 28, "panic-capable sites on the inbound path")
    return sites, special


def _passed_on_variants(f, code, p):
    """variants a non-literal Progress value `p` can have where it is returned as Ok(p) (path-sensitive)"""
    from .. import paths
    prog = [n for n in f.adts if n.endswith("Progress")]
    allv = [v["name"] for v in f.adts[prog[0]]["variants"]] if len(prog) == 1 else None
    if allv is None:
        return {"?" + show(p)[:30]}
    sites = []
    for bb, j, s in code.assigns():
        if bb in code.reachable and s["dst"]["l"] == 0 and not s["dst"]["proj"]:
            t = peel(code.rvalue_term(s["rv"]))
            if t[0] == "agg" and t[3] == "Ok" and t[5] and peel(t[5][0]) == p:
                sites.append(bb)
    out = set()
    if not sites:
        return {"?" + show(p)[:30]}
    leaves = paths.explore(code, 0, lambda r: peel(r) == p, lambda b, bb: False, stop_pred=lambda b, bb: bb in sites, max_paths=20000)
    for l in leaves:
        if l["kind"] == "limit":
            return {"?path-limit"}
        if l["kind"] != "stop":
            continue
        c = l["cons"].get(())
        if isinstance(c, str):
            out.add(c)
        elif isinstance(c, tuple):
            out |= set(allv) - set(c[1])
        else:
            out |= set(allv)
    return out


def rule_atomic(R):
    """a malformed packet is never partially acted upon: while the CONNACK's property block is still being examined,
    nothing is written into session state -- the values are kept aside (locals / a local struct) and applied only once
    the whole block was accepted.  A store through `&mut self.<field>` inside the property loop adopts a value from a
    packet that a later property may still cause to be rejected."""
    f = R.f
    call, hb, hcode = roles.handshake(f)
    bad = []
    n = 0
    for cb in [hcode] + [c for c in f.children(hcode) if c.kind == "closure"]:
        arms_blocks = set()
        for bb in sorted(cb.switches):
            if bb not in cb.reachable:
                continue
            si = cb.switch_info(bb)
            if si["enum"] != "properties::Property":
                continue
            for v, tgt in si["edges"].items():
                others = [t for k, t in si["edges"].items() if k != v] + [si["otherwise"]]
                arms_blocks |= cb.reach([tgt], avoid=[bb]) - cb.reach([o for o in others if o != tgt], avoid=[bb])
        if not arms_blocks:
            continue
        n += 1
        # captures of this closure that are `&mut <state field>`
        state_caps = {}
        if cb.kind == "closure":
            for bb2, j2, s2 in hcode.assigns():
                rv = s2["rv"]
                if "agg" in rv and rv["agg"].get("def") == cb.name:
                    names = rv["agg"].get("fields", [])
                    for k, op in enumerate(rv["ops"]):
                        pl = op.get("move") or op.get("copy")
                        if pl is None or pl["proj"] or k >= len(names):
                            continue
                        for dd in hcode.defs().get(pl["l"], []):
                            if dd[0] == "stmt":
                                rv2 = hcode.blocks[dd[1]]["stmts"][dd[2]]["rv"]
                                if "ref" in rv2 and rv2.get("mut"):
                                    st = [e for e in rv2["ref"]["proj"] if isinstance(e, dict) and e.get("of") in roles.STATE_ADTS]
                                    if st:
                                        state_caps[names[k]] = "%s.%s" % (st[-1]["of"].rsplit("::", 1)[-1], st[-1].get("name"))
        for (sb, j, dst, rv, s_) in cb.stores():
            if sb not in arms_blocks:
                continue
            st = [e for e in dst["proj"] if isinstance(e, dict) and e.get("of") in roles.STATE_ADTS]
            if st:
                bad.append(("%s.%s" % (st[-1]["of"].rsplit("::", 1)[-1], st[-1].get("name")), s_["span"]))
                continue
            t = cb.place_term(dst)
            if t[0] == "deref" and t[1][0] == "param" and t[1][1] in state_caps:
                bad.append((state_caps[t[1][1]], s_["span"]))
        # ... and calls that are handed `&mut <state field>` (`self.client_id.clear()`, `.push_str(..)`) mutate it just the same
        for cbb, c in cb.calls.items():
            if cbb not in arms_blocks:
                continue
            for a in c.args:
                pl = a.get("move") or a.get("copy")
                if pl is None or not str(pl.get("ty") or "").startswith("&mut "):
                    continue
                t = cb.operand_term(a)
                hit = None
                for x in walk(t):
                    if isinstance(x, tuple) and x[0] == "field" and x[3] in roles.STATE_ADTS:
                        hit = "%s.%s" % (x[3].rsplit("::", 1)[-1], x[2])
                    elif isinstance(x, tuple) and x[0] == "param" and x[1] in state_caps:
                        hit = state_caps[x[1]]
                if hit:
                    bad.append((hit, c.span))
    R.ob("atomic/connack-properties", n >= 1 and not bad,
         "the handshake applies nothing from the CONNACK before its whole property block was accepted%s"
         % ("" if not bad else ": the property loop stores into %s" % bad[0][0]), where=bad[0][1] if bad else hb.span)


def rule_unreachable(R):
    f = R.f
    cm = roles.conn_methods(f)
    # poll / recv: wait_for_progress never returns Idle
    wb, wcode = cm["wait_for_progress"]
    vals = set()
    for alt in phi_alts(wcode.local_term(0)):
        a = peel(alt)
        if a[0] == "agg" and a[3] == "Ok":
            p = peel(a[5][0])
            if p[0] == "agg" and (p[2] or "").endswith("Progress"):
                vals.add(p[3])
            else:
                # a Progress value handed on from elsewhere: on every path to the return it was tested not to be Idle
                vals |= _passed_on_variants(f, wcode, p)
    pr_sites = [s_ for s_ in panics.enumerate_sites(f, [cm["poll"][1], cm["recv"][1]]) if s_["what"] in ("panic_fmt", "panic", "expect")]
    if not pr_sites:
        R.ob("unreachable/poll-recv", True, "poll/recv contain no unreachable!() / panic site at all", where=wb.span)
    else:
        R.ob("unreachable/poll-recv", vals == {"Inbound", "Advanced"},
             "the unreachable!() for Progress::Idle in poll/recv is dead: wait_for_progress only ever returns Inbound or Advanced "
             "(returns %s)" % sorted(vals), where=wb.span)
    # process_received_packet: handler never returns InvalidRequest / NotReady / WriteZero
    hb, sw = outq.inbound_handler(f)
    direct = set()
    for n in f.reachable_bodies([hb.name]):
        b = f.bodies[n]
        root = f.bodies.get(b.root, b)
        if root.trait == "core::convert::From" or f.in_fuzzing(b):
            continue  # error conversions are accounted separately below
        direct |= paths.own_error_variants(b)
    bad = sorted(v for v in direct if v.split(".")[0] in ("InvalidRequest", "NotReady", "WriteZero", "Transport"))
    # through conversions only SerError::Custom could become InvalidRequest; the handler serialises only fixed control
    # packets (no strings, no unsupported serde types), checked by the packet kinds it encodes
    enc_kinds = set()
    for n in f.reachable_bodies([hb.name]):
        for c in f.bodies[n].calls.values():
            if c.is_("MqttSerializer::<'a>::encode") and c.bb in f.bodies[n].reachable:
                enc_kinds |= set(g.split("::")[1].split("<")[0] for g in c.gargs if g.startswith("packets::"))
    okk = enc_kinds <= {"PubAck", "PubRec", "PubComp", "PubRel", "PingReq"}
    R.ob("unreachable/handler-errors", not bad and okk,
         "the unreachable!() arm of process_received_packet is dead: nothing reachable from the inbound handler constructs "
         "InvalidRequest / NotReady / WriteZero / Transport (constructs %s), and the only packets it serialises are fixed-size "
         "acknowledgements (%s), whose encoding cannot raise a custom serialisation error" % (sorted(direct), sorted(enc_kinds)),
         where=hb.span)
    # decode_inbound_publish: same bytes, decoded successfully a moment ago, nothing touched the buffer in between
    db, dcode = cm["decode_inbound_publish"]
    pb, pcode = cm["process_received_packet"]
    ok = True
    n = 0
    dpb, dp = cm["drive_packet"]
    for bb, j, s in dp.assigns():
        rv = s["rv"]
        if bb in dp.reachable and "agg" in rv and (rv["agg"].get("adt") or "").endswith("Progress") and rv["agg"].get("variant") == "Inbound":
            n += 1
            pcs = [c.bb for c in outq.calls_to(f, dp, pb)]
            okd = bool(pcs) and dp.must_pass([0], [bb], via_blocks=pcs)[0]
            # no transport access between the handler call and this return value
            # from the handler call that produced this verdict (the last one on the path) to the verdict
            region = set()
            back = dp.coreach([bb], avoid=pcs)
            for pc in pcs:
                fwd = dp.reach([dp.calls[pc].target], avoid=pcs)
                if bb in fwd:
                    region |= fwd & back
            io = [x for x in region if x in dp.calls and f.call_does_io(dp.calls[x]) and x not in pcs]
            ok = ok and okd and not io
    for name in ("drive", "poll", "recv"):
        b, code = cm[name]
        for c in outq.calls_to(f, code, db):
            # between obtaining Progress::Inbound and decoding: no transport access
            io = [x for x in code.reach([0]) if x in code.calls and f.call_does_io(code.calls[x]) and c.bb in code.after(x)
                  and not any(y.is_("wait_for_progress", "drive_packet") for y in [code.calls[x]])]
            ok = ok and not io
    R.ob("unreachable/redecode", ok and n >= 1,
         "the expect()/unreachable!() in decode_inbound_publish are dead: the same buffer prefix was decoded successfully as a "
         "PUBLISH by take_packet, and no transport access can touch the buffer between that and the re-decode", where=db.span)


def flag_requirement(vs, start, disp_bb):
    """what the decoder demands of the fixed-header flag nibble on the way from the per-type arm `start` to the
    dispatch match: 'any', 'none', the required value, or None when the condition is not of the form
    `(header & 15) == c`.  Path-sensitive: works for a verdict kept in a local, returned by a helper, or tested in place."""
    leaves = paths.explore(vs, start, lambda t: False, lambda b, x: False, stop_pred=lambda b, x: x == disp_bb, max_paths=2000)
    acc, rej = [], []
    for lf in leaves:
        if lf["kind"] == "limit":
            return None
        conds = set()
        p = lf["path"]
        for i in range(len(p) - 1):
            sb = p[i]
            if sb not in vs.switches:
                continue
            on = vs.switches[sb]["on"]
            pl = on.get("move") or on.get("copy")
            if pl is None or pl["proj"] or pl["ty"] != "bool":
                continue
            si = vs.switch_info(sb)
            val = paths.value_on_path(vs, p[:i + 1], pl["l"])
            if val is None:
                continue
            cc = panics.canon_cmp(val)
            if cc is None:
                continue
            taken = None
            for lab in (True, False):
                if si["edges"].get(lab) == p[i + 1]:
                    taken = lab
            if taken is None:
                continue
            if not taken:
                cc = panics.negate(cc)
            if "BitAnd" in cc[1] + cc[2] and "15" in cc[1] + cc[2]:
                conds.add(cc)
        (acc if lf["kind"] == "stop" else rej).append(conds)
    if not acc:
        return "none"
    if all(not c for c in acc) and not any(c for c in rej):
        return "any"
    vals = set()
    for c in acc:
        if len(c) != 1:
            return None
        (op, a, b2) = list(c)[0]
        if op != "==":
            return None
        num = [x for x in (a, b2) if re.match(r"^\d+_u8$", x)]
        if len(num) != 1:
            return None
        vals.add(int(num[0].split("_")[0]))
    if len(vals) != 1:
        return None
    want = list(vals)[0]
    # every rejecting path that depends on the flags rejects exactly the complement
    for c in rej:
        for (op, a, b2) in c:
            if op != "!=" or not any(x == "%d_u8" % want for x in (a, b2)):
                return None
    return want


def rule_tables(R):
    f = R.f
    vs = f.bodies.get("<de::received_packet::ControlPacketVisitor as packets::_::_serde::de::Visitor<'de>>::visit_seq")
    if vs is None:
        raise AnchorLost("ControlPacketVisitor::visit_seq")
    R.touch(vs)
    MT = "wire::MessageType"
    sws = [vs.switch_info(bb) for bb in sorted(vs.switches) if vs.switch_info(bb)["enum"] == MT]
    if len(sws) != 2:
        raise AnchorLost("visit_seq:type-matches", "expected the flag match and the dispatch match, found %d" % len(sws))
    flag_sw, disp_sw = sws
    if vs.dominates(disp_sw["bb"], flag_sw["bb"]) and not vs.dominates(flag_sw["bb"], disp_sw["bb"]):
        flag_sw, disp_sw = disp_sw, flag_sw  # block numbers do not follow program order in an inlined helper
    variants = [v["name"] for v in f.adts[MT]["variants"]]
    # flags: which local receives the verdict
    def arm_blocks(si, v):
        tgt = si["edges"].get(v, si["otherwise"] if v in si.get("otherwise_variants", []) else None)
        if tgt is None:
            return None, set()
        others = [t for k, t in si["edges"].items() if t != tgt]
        return tgt, vs.reach([tgt], avoid=[disp_sw["bb"]]) - vs.reach(others, avoid=[disp_sw["bb"]])
    for v in variants:
        tgt, arm = arm_blocks(flag_sw, v)
        got = flag_requirement(vs, tgt, disp_sw["bb"]) if tgt is not None else None
        if v in oracle.SERVER_SENT:
            want = "any" if v == "Publish" else list(oracle.legal_flags(v))[0]
            R.ob("tables/flags/%s" % v, got == want,
                 "an inbound %s must carry fixed-header flags %s [MQTT 5 Table 2-2] (the decoder requires: %s)" % (v, want, got), where=vs.span)
    # QoS 3 rejected
    okq = any(is_call(x, "TryFrom::try_from", "try_from") and "QoS" in " ".join(vs.calls[x[1]].gargs) and
              any(y[0] == "bin" and y[1] == "BitAnd" and any(z[0] == "const" and z[2] == 3 for z in walk(y)) for y in walk(x))
              for bb in vs.reachable if bb in vs.calls for x in [vs.call_term(bb)])
    qs = vs.q_edges(lambda x: any(is_call(y, "try_from") and "QoS" in " ".join(vs.calls[y[1]].gargs) for y in walk(x) if y[0] == "call"))
    if okq and not qs:
        # match form (also what `.map_err(..)?` reads as): the Err edge of the conversion's result only leads to error returns
        for bb in vs.reachable:
            c = vs.calls.get(bb)
            if c is None or not (c.is_("TryFrom::try_from", "try_from") and "QoS" in " ".join(c.gargs)):
                continue
            res, _q = roles.awaited_result_switches(vs, c)
            for si in res:
                et = si["edges"].get("Err")
                if et is None:
                    continue
                lv = [lf for lf in paths.explore(vs, et, lambda t: False, lambda b, x: False) if lf["kind"] == "return"]
                vals = [paths.value_on_path(vs, [si["bb"]] + lf["path"], 0) for lf in lv]
                if lv and all(v is not None and ((v[0] == "agg" and v[3] == "Err") or is_call(v, "from_residual")) for v in vals):
                    qs = [si]
    R.ob("tables/qos3", okq and bool(qs), "the PUBLISH QoS is decoded with QoS::try_from((header >> 1) & 3) and QoS 3 is an error", where=vs.span)
    # dispatch
    for v in variants:
        tgt, arm = arm_blocks(disp_sw, v)
        built = sorted(set(s["rv"]["agg"]["variant"] for bb in arm for s in vs.blocks[bb]["stmts"]
                           if s["k"] == "assign" and "agg" in s["rv"] and (s["rv"]["agg"].get("adt") or "").endswith("ReceivedPacket")))
        if v in oracle.SERVER_SENT:
            R.ob("tables/dispatch/%s" % v, built == [v],
                 "packet type %s is decoded into ReceivedPacket::%s (builds %s)" % (v, v, built), where=vs.span)
        else:
            errs = [1 for bb in arm for s in vs.blocks[bb]["stmts"] if s["k"] == "assign" and "agg" in s["rv"] and s["rv"]["agg"].get("variant") == "Err"] + \
                   [1 for bb in arm if bb in vs.calls and vs.calls[bb].is_("de::Error::custom", "Error::custom")]
            R.ob("tables/dispatch/%s" % v, not built and bool(errs),
                 "a %s packet (never sent by a broker to this client) is rejected, not decoded (builds %s)" % (v, built), where=vs.span)
    # the type comes from header >> 4 via MessageType::try_from
    okt = any(is_call(x, "try_from") and "MessageType" in " ".join(vs.calls[x[1]].gargs) and
              any(y[0] == "bin" and y[1] == "Shr" and any(z[0] == "const" and z[2] == 4 for z in (y[2], y[3])) for y in walk(x))
              for bb in vs.reachable if bb in vs.calls for x in [vs.call_term(bb)])
    R.ob("tables/type-nibble", okt, "the packet type is the high nibble of the first byte, converted with MessageType::try_from", where=vs.span)
    # trailing payload whitelist in from_buffer
    fb = roles.method(f, "de::received_packet::ReceivedPacket", "from_buffer")
    R.touch(fb)
    si = None
    for bb in sorted(fb.switches):
        s2 = fb.switch_info(bb)
        if s2["enum"] and s2["enum"].endswith("ReceivedPacket"):
            si = s2
    if si is None:
        raise AnchorLost("from_buffer:match")
    allowed = sorted(k for k in si["edges"])
    rest = si.get("otherwise_variants", [])
    ow_err = False
    ow = si["otherwise"]
    vals = [fb.rvalue_term(s["rv"]) for bb in fb.reach([ow]) - fb.reach(list(si["edges"].values())) for s in fb.blocks[bb]["stmts"]
            if s["k"] == "assign" and s["dst"]["l"] == 0]
    ow_err = bool(vals) and all(v[0] == "agg" and v[3] == "Err" for v in vals)
    R.ob("tables/trailing-payload", allowed == ["Publish", "SubAck", "UnsubAck"] and ow_err,
         "bytes left after the variable header are accepted only for PUBLISH (payload), SUBACK and UNSUBACK (reason codes); "
         "for every other packet they are trailing garbage and rejected (accepted for %s)" % allowed, where=fb.span)
    # guarded by remaining non-empty, and the remainder is what is stored
    okr = any(is_call(peel(fb.switch_info(bb)["subject"]), "is_empty") or
              (peel(fb.switch_info(bb)["subject"])[0] == "un" and is_call(peel(peel(fb.switch_info(bb)["subject"])[2]), "is_empty"))
              for bb in fb.switches)
    R.ob("tables/exact-consumption", okr, "from_buffer inspects what the decoder left unconsumed", where=fb.span)


def const_sequence(t):
    """the finite list of values a `for` loop variable takes when the iterated expression is a literal array or a constant
    stepped range (`[0, 7, 14, 21]`, `(0..=21).step_by(7)`, `(0..28).step_by(7)`), else None"""
    for x in walk(t):
        if x[0] == "agg" and x[1] == "array" and x[5] and all(e[0] == "const" and e[2] is not None for e in x[5]):
            return [e[2] for e in x[5]]
    for x in walk(t):
        if is_call(x, "core::iter::Iterator::step_by") and len(x[3]) == 2 and peel(x[3][1])[0] == "const" and peel(x[3][1])[2]:
            step = peel(x[3][1])[2]
            src = peel(x[3][0])
            lo = hi = None
            if is_call(src, "RangeInclusive::<Idx>::new") and len(src[3]) == 2:
                a, b = peel(src[3][0]), peel(src[3][1])
                if a[0] == "const" and b[0] == "const" and a[2] is not None and b[2] is not None:
                    lo, hi = a[2], b[2] + 1
            elif src[0] == "agg" and (src[2] or "").endswith("ops::Range") and len(src[5]) == 2:
                a, b = peel(src[5][0]), peel(src[5][1])
                if a[0] == "const" and b[0] == "const" and a[2] is not None and b[2] is not None:
                    lo, hi = a[2], b[2]
            if lo is not None and 0 < (hi - lo) // step < 64:
                return list(range(lo, hi, step))
    return None


def rule_varint(R):
    f = R.f
    rv = roles.free_fn(f, "read_mqtt_u32_varint")
    R.touch(rv)
    shifts = None
    loop_next = None
    for c in rv.calls.values():
        if c.bb in rv.reachable and c.is_("core::iter::Iterator::next"):
            sq = const_sequence(rv.operand_term(c.args[0]))
            if sq is not None:
                shifts, loop_next = sq, c
    R.ob("varint/four-bytes", shifts == [0, 7, 14, 21],
         "a variable byte integer is read from at most four bytes with shifts 0, 7, 14, 21 (found %s)" % shifts, where=rv.span)
    # after the loop: invalid
    loop_sw = None
    for bb in rv.switches:
        si = rv.switch_info(bb)
        if si["enum"] == "core::option::Option" and loop_next is not None and \
                any(a[0] == "call" and a[1] == loop_next.bb for a in phi_alts(peel(si["subject"]))):
            loop_sw = si
    ok_after = False
    if loop_sw is not None and loop_sw["edges"].get("None") is not None:
        vals = [rv.rvalue_term(s["rv"]) for bb in rv.reach([loop_sw["edges"]["None"]], avoid=[loop_sw["edges"].get("Some")])
                for s in rv.blocks[bb]["stmts"] if s["k"] == "assign" and s["dst"]["l"] == 0]
        ok_after = bool(vals) and all(v[0] == "agg" and v[3] == "Err" for v in vals)
    R.ob("varint/unterminated", ok_after, "a fifth continuation byte (no terminator within four bytes) is an error", where=rv.span)
    # top nibble: on shift == 21, part > 0x0F -> invalid
    ok_top = False
    for bb in rv.switches:
        si = rv.switch_info(bb)
        s = peel(si["subject"])
        c = panics.canon_cmp(s)
        if c and ((c[0] == "<" and c[1].startswith("15_")) or (c[0] == "<=" and c[1].startswith("16_"))) and "127" in c[2]:
            te = si["edges"].get(True)
            # dominated by shift == 21
            dom = False
            for b2 in rv.switches:
                s2 = rv.switch_info(b2)
                c2 = panics.canon_cmp(s2["subject"])
                if c2 and c2[0] == "==" and any(x.startswith("21_") for x in c2[1:]) and s2["edges"].get(True) is not None:
                    dom = rv.must_pass([0], [bb], via_edges=[(b2, s2["edges"][True])])[0]
            vals = [rv.rvalue_term(st["rv"]) for x in rv.reach([te], avoid=[si["edges"].get(False)]) for st in rv.blocks[x]["stmts"]
                    if st["k"] == "assign" and st["dst"]["l"] == 0] if te is not None else []
            ok_top = dom and bool(vals) and all(v[0] == "agg" and v[3] == "Err" for v in vals)
    R.ob("varint/max-28-bits", ok_top, "the fourth byte may only contribute four bits (values above 268435455 are rejected)", where=rv.span)
    # overlong check on the terminating byte
    term_edge = None
    for bb in rv.switches:
        si = rv.switch_info(bb)
        c = panics.canon_cmp(si["subject"])
        if c and c[0] == "==" and "128" in (c[1] + c[2]) and si["edges"].get(True) is not None:
            term_edge = (bb, si["edges"][True], si["edges"].get(False))
    if term_edge is None:
        raise AnchorLost("varint:terminator-test")
    region = rv.reach([term_edge[1]], avoid=[term_edge[2]] if term_edge[2] is not None else [])
    verdict = None
    detail = ""
    for bb in sorted(region):
        if bb not in rv.switches:
            continue
        si = rv.switch_info(bb)
        c = panics.canon_cmp(si["subject"])
        if not c:
            continue
        txt = c[1] + " " + c[2]
        def is_shift(x):
            return x.startswith("(Iterator::next(") and x.endswith(" as Some).0")
        if (is_shift(c[1]) and re.match(r"^\d+_i32$", c[2])) or (is_shift(c[2]) and re.match(r"^\d+_i32$", c[1])):
            continue  # test on the shift itself
        errs_t = None
        te = si["edges"].get(True)
        if te is not None:
            vals = [rv.rvalue_term(st["rv"]) for x in rv.reach([te], avoid=[si["edges"].get(False)]) for st in rv.blocks[x]["stmts"]
                    if st["k"] == "assign" and st["dst"]["l"] == 0]
            errs_t = bool(vals) and all(v[0] == "agg" and v[3] == "Err" for v in vals)
        if c[0] == "==" and ("127" in txt or "FnMut::call_mut" in txt) and any(x.startswith("0_") for x in c[1:]) and errs_t:
            verdict = "good"
            detail = "%s %s %s" % (c[1], c[0], c[2])
        elif c[0] in ("<", "<=") and "loop" in txt and re.search(r"\d+_u32", txt) and errs_t:
            # the accumulated value compared with a constant: cannot be right for every shift (7, 14, 21)
            verdict = "bad"
            detail = "%s %s %s" % (c[1], c[0], c[2])
    if verdict is None:
        R.undecide("varint/overlong", "the overlong-encoding test on the terminating byte has an unrecognised form")
    else:
        # and it applies to every multi-byte encoding: guarded only by shift != 0
        R.ob("varint/overlong", verdict == "good",
             "a multi-byte encoding whose last byte contributes nothing is non-canonical and must be rejected for every "
             "length: the test must look at the terminating byte's 7-bit part (found `%s`%s)"
             % (detail, "" if verdict == "good" else ": comparing the accumulated value with one constant cannot be right for "
                "two-, three- and four-byte encodings alike"), where=rv.span)
    # the packet reader's own probe: at most four length bytes, error after five header bytes
    pf = roles.method(f, roles.READER, "probe_fixed_header")
    tk = [c for c in pf.calls.values() if c.bb in pf.reachable and c.is_("Iterator::take")]
    ok_take = len(tk) == 1 and pf.operand_term(tk[0].args[1])[0] == "const" and pf.operand_term(tk[0].args[1])[2] == 4
    ok_five = False
    for bb in pf.switches:
        si = pf.switch_info(bb)
        c = panics.canon_cmp(si["subject"])
        if c and c[0] == "<=" and c[1].startswith("5_") and "read_bytes" in c[2]:
            ok_five = True
        sj = peel(si["subject"])
        if not ok_five and sj[0] == "bin" and sj[1] in ("Le", "Lt", "Ge", "Gt"):
            # the same threshold spelled with constants (`1 + MAX_LENGTH_BYTES`): folded before it is compared
            from .c09 import _linear
            a, b_, op = sj[2], sj[3], sj[1]
            if op in ("Ge", "Gt"):
                a, b_, op = b_, a, {"Ge": "Le", "Gt": "Lt"}[op]
            la = _linear(a)
            if la is not None and set(la) == {1} and la[1] == (5 if op == "Le" else 4) and "read_bytes" in show(b_) \
                    and not any(x[0] == "bin" for x in walk(peel(b_))):
                ok_five = True
    R.ob("varint/reader-probe", ok_take and ok_five,
         "the reader resolves the packet length from at most four length bytes and fails once five header bytes gave none", where=pf.span)

def _varint_reader_shape(f, b0, shift_ok):
    """the constants of one variable-byte-integer reader body: (masks, accumulations) where masks is the multiset of `& k`
    constants and accumulations lists (op, shifted-by-a-recognised-shift, left operand carries the 7-bit group) for every
    `acc = acc <op> (group << shift)`"""
    def cst(t):
        t = peel(t)
        for _ in range(4):
            if t[0] == "cast":
                t = peel(t[2])
            elif is_call(t, "From::from", "from", "Into::into", "into") and len(t[3]) == 1:
                t = peel(t[3][0])
            else:
                break
        return t[2] if t[0] == "const" and isinstance(t[2], int) else None
    def has_group(t, depth=0):
        t = peel(t)
        if depth > 8:
            return False
        if t[0] == "bin" and t[1] in ("BitAnd", "Rem", "RemWithOverflow"):
            k = cst(t[3]) if cst(t[3]) is not None else cst(t[2])
            return (t[1] == "BitAnd" and k == 127) or (t[1] != "BitAnd" and k == 128)
        if is_call(t, "core::ops::BitAnd::bitand", "BitAnd::bitand") and len(t[3]) == 2:
            return 127 in (cst(t[3][0]), cst(t[3][1]))        # `&u8 & 0x7F` goes through the operator trait
        if t[0] == "cast":
            return has_group(t[2], depth + 1)
        if t[0] == "field":
            return has_group(t[1], depth + 1)
        if t[0] == "phi":
            return any(has_group(a, depth + 1) for a in t[1])
        if is_call(t, "From::from", "from", "Into::into", "into") and len(t[3]) == 1:
            return has_group(t[3][0], depth + 1)
        return False
    masks, shls, accs, odd = [], [], [], []
    bodies = [b0] + [c for c in f.children(b0) if c.kind == "closure"]
    for b in bodies:
        for bb, j, s_ in b.assigns():
            rv = s_["rv"]
            if bb not in b.reachable or "bin" not in rv:
                continue
            op = rv["bin"]
            t = peel(b.rvalue_term(rv))
            if t[0] == "field":
                t = peel(t[1])
            if t[0] != "bin":
                continue
            if op == "BitAnd":
                k = cst(t[3]) if cst(t[3]) is not None else cst(t[2])
                masks.append(k)
            elif op in ("Shl", "ShlUnchecked"):
                shls.append((has_group(t[2]), shift_ok(b, t[3], cst), s_["dst"]["l"], bb))
            elif op in ("Shr", "ShrUnchecked", "BitXor"):
                odd.append(op)
        for c in b.calls.values():
            if c.bb in b.reachable and c.is_("core::ops::BitAnd::bitand") and len(c.args) == 2:
                ks = [cst(b.operand_term(a)) for a in c.args]
                masks.append(ks[1] if ks[1] is not None else ks[0])
        for bb, j, s_ in b.assigns():
            rv = s_["rv"]
            if bb not in b.reachable or "bin" not in rv or rv["bin"] not in ("BitOr", "Add", "AddWithOverflow"):
                continue
            ops = rv.get("ops") or rv.get("args") or []
            t = peel(b.rvalue_term(rv))
            if t[0] == "field":
                t = peel(t[1])
            if t[0] != "bin":
                continue
            sides = [peel(t[2]), peel(t[3])]
            sh = [x for x in sides if x[0] == "bin" and x[1] in ("Shl", "ShlUnchecked")]
            if sh:
                accs.append((rv["bin"], sh[0]))
    # `.map(|(index, value)| group << (index * 7)).sum()`: the fold is the accumulation
    for b in bodies:
        for c in b.calls.values():
            if c.bb in b.reachable and c.is_("Iterator::sum", "core::iter::Iterator::sum") and shls:
                accs.append(("sum", None))
    return masks, shls, accs, odd


def rule_varint_reader(R):
    """the two variable-byte-integer readers (`read_mqtt_u32_varint` for property lengths and varint properties, the packet
    reader's `probe_fixed_header` for the Remaining Length) accumulate seven value bits per byte, least significant group
    first: the group is `byte & 0x7F`, the terminator test looks at `byte & 0x80`, and the group enters the value shifted by
    7 x (byte index) and *combined* with what was read so far (`|=` / `+=`).  Read off the constants; the length clauses
    (four bytes, 28 bits, overlong) are `varint/*` above."""
    f = R.f
    rv = roles.free_fn(f, "read_mqtt_u32_varint")
    pf = roles.method(f, roles.READER, "probe_fixed_header")
    R.touch(rv)
    R.touch(pf)
    def shift_is_loop_var(b, t, cst):
        # the shift is the loop variable of `for shift in [0, 7, 14, 21]` (its values are `varint/four-bytes`)
        t = peel(t)
        for _ in range(3):
            if t[0] == "cast":
                t = peel(t[2])
        return t[0] == "field" or (t[0] == "phi") or (t[0] == "call")
    def shift_is_index_times_7(b, t, cst):
        t = peel(t)
        for _ in range(3):
            if t[0] == "cast":
                t = peel(t[2])
        if t[0] == "field":
            t = peel(t[1])
        return t[0] == "bin" and t[1] in ("Mul", "MulWithOverflow") and 7 in (cst(t[2]), cst(t[3]))
    for name, b, shift_ok in (("value", rv, shift_is_loop_var), ("remaining-length", pf, shift_is_index_times_7)):
        masks, shls, accs, odd = _varint_reader_shape(f, b, shift_ok)
        R.ob("varint/reader/%s/group" % name, sorted(masks) == [127, 128],
             "each byte contributes `byte & 0x7F` and ends the integer when `byte & 0x80` is clear (found masks %s)"
             % [hex(m) if m is not None else "?" for m in masks], where=b.span)
        oks = len(shls) == 1 and shls[0][0] and shls[0][1] and not odd
        R.ob("varint/reader/%s/shift" % name, oks,
             "the seven-bit group is shifted left by 7 x its byte index (found %d shift(s)%s%s)"
             % (len(shls), "" if not shls or shls[0][0] else ", not of the 7-bit group",
                "" if not shls or shls[0][1] else ", by something else"), where=b.span)
        R.ob("varint/reader/%s/accumulate" % name, len(accs) == 1,
             "the shifted group is combined (`|=` / `+=`) with the groups read so far (found %d accumulation(s))" % len(accs), where=b.span)
    R.floor("varint/reader", 6, 6, "clauses")


def rule_latch(R):
    """decode / protocol errors latch the handle: the C11 inbound clauses, re-evaluated under C08"""
    from . import c11
    from ..engine import Run
    tmp = Run("C11", R.f, R.cfg)
    tmp.rule("fatal", c11.rule_fatal)
    n = 0
    for o in tmp.obs:
        if "fatal-inbound" in o.key or "fatal/read_packet" in o.key:
            n += 1
            R.ob("latch/" + o.key.split("/", 2)[2], o.ok, o.msg, where=o.where, detail=o.detail)
    R.floor("latch", n, 3, "inbound error sites")


def rule_decode_variants(R):
    """a spec-valid packet is accepted with exactly the field values sent: every property identifier decodes to its own
    Property variant (a Topic Alias Maximum read as Receive Maximum shrinks the window or rejects a legal CONNACK) --
    C20's / C09's read table, evaluated here"""
    from .c20 import rule_decode as _r
    _r(R)


def clause_property_cursor(R, prefix):
    """The iterator over an encoded property block decodes one property per call and advances its cursor by what that
    property occupied.  Two places have to agree on what the deserializer's byte count means: it is counted from where
    the deserializer was started.  Either the deserializer is started on the tail `props[index..]` (count = bytes of this
    item) and the cursor is advanced by it (`index += n`), or it is started at `index` inside the whole block (count =
    absolute offset) and the cursor is set to it (`index = n`).  A deserializer started at `index` whose count is *added*
    counts the offset twice: from the third property on the block is misread."""
    f = R.f
    nb = None
    for b in f.bodies.values():
        if b.fn_name == "next" and "PropertiesIter" in b.name and not f.in_fuzzing(b):
            nb = b
    if nb is None:
        raise AnchorLost("properties-iter-next", "PropertiesIter::next not found")
    R.touch(nb)
    st = [(bb, nb.rvalue_term(rv), s_) for (bb, j, dst, rv, s_) in nb.stores()
          if "@Encoded" in chain(nb.place_term(dst))[1] and chain(nb.place_term(dst))[1][-1:] == ["index"]]
    ok, why = len(st) == 1, "expected one store to the cursor of the encoded form, found %d" % len(st)
    if ok:
        t = peel(st[0][1])
        if t[0] == "field":
            t = peel(t[1])
        db = [x for x in walk(t) if isinstance(x, tuple) and is_call(x, "deserialized_bytes")]
        added = t[0] == "bin" and t[1].startswith("Add") and any(chain(y)[1][-1:] == ["index"] and "@Encoded" in chain(y)[1] for y in (t[2], t[3]))
        if len(db) != 1:
            ok, why = False, "the cursor is not advanced by the deserializer's byte count (%s)" % show(t)[:100]
        else:
            de = peel(db[0][3][0])
            start_rel = None      # True: started on the tail with count 0; False: started at `index` inside the whole block
            if de[0] == "agg" and (de[2] or "").endswith("MqttDeserializer"):
                fl = dict(zip(de[4], de[5]))
                ix, buf = peel(fl.get("index", ("unknown",))), peel(fl.get("buf", ("unknown",)))
                tail = is_call(buf, "Index::index", "index") and len(buf[3]) == 2 and peel(buf[3][1])[0] == "agg" and peel(buf[3][1])[4] == ["start"]
                if ix[0] == "const" and ix[2] == 0 and tail:
                    start_rel = True
                elif chain(ix)[1][-1:] == ["index"] and not tail:
                    start_rel = False
            elif de[0] == "call" and de[3]:
                # MqttDeserializer::new(&props[index..]) -- `new` starts the count at 0 (checked below)
                buf = peel(de[3][0])
                tail = is_call(buf, "Index::index", "index") and len(buf[3]) == 2 and peel(buf[3][1])[0] == "agg" and peel(buf[3][1])[4] == ["start"] \
                    and chain(peel(buf[3][1])[5][0])[1][-1:] == ["index"]
                nbody = f.bodies.get(de[2])
                zero = False
                if nbody is not None:
                    for bb2, j2, s2 in nbody.assigns():
                        if "agg" in s2["rv"] and (s2["rv"]["agg"].get("adt") or "").endswith("MqttDeserializer"):
                            a2 = nbody.rvalue_term(s2["rv"])
                            v2 = peel(dict(zip(a2[4], a2[5])).get("index", ("unknown",)))
                            zero = v2[0] == "const" and v2[2] == 0
                if tail and zero:
                    start_rel = True
            if start_rel is None:
                ok, why = False, "cannot tell where the deserializer was started (%s)" % show(de)[:100]
            elif start_rel != added:
                ok, why = False, ("the deserializer is started at the cursor inside the whole block, so its count is an absolute "
                                  "offset -- and that offset is added to the cursor" if added else
                                  "the deserializer is started on the tail, so its count is relative -- and the cursor is set to it")
        # deserialized_bytes is the cursor of the deserializer
        dbn = roles.method(f, "de::deserializer::MqttDeserializer", "deserialized_bytes")
        okg = chain(dbn.local_term(0))[1][-1:] == ["index"]
        R.ob("%s/count-is-the-cursor" % prefix, okg, "MqttDeserializer::deserialized_bytes returns its cursor", where=dbn.span)
    R.ob("%s/advance-matches-start" % prefix, ok,
         "PropertiesIter::next advances by exactly the bytes of the property it decoded: the deserializer's count and the "
         "cursor update agree on where counting started%s" % ("" if ok else " — " + why), where=nb.span)


def rule_property_cursor(R):
    clause_property_cursor(R, "props-iter")


def rule_shared_reader_reset(R):
    """a spec-valid packet is accepted after any history: the packet reader starts every connection empty -- `Session::connect` resets it (and the timers, and the send progress) before the handshake on every path -- C12's rule"""
    from .c12 import rule_reset as _r
    _r(R)


def rule_shared_prim(R):
    """a spec-valid packet is accepted with exactly the field values sent: integers are read big-endian in stream order --
    C09's rule"""
    from .c09 import rule_prim as _r
    _r(R)


def run(R):
    R.rule("prim", rule_shared_prim)
    R.rule("reader-reset", rule_shared_reader_reset)
    R.rule("props-iter", rule_property_cursor)
    R.rule("decode", rule_decode_variants)
    R.rule("panic", rule_panic)
    R.rule("unreachable", rule_unreachable)
    R.rule("tables", rule_tables)
    R.rule("varint", rule_varint)
    R.rule("varint-reader", rule_varint_reader)
    R.rule("latch", rule_latch)
    R.rule("atomic", rule_atomic)
