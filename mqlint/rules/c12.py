"""C12 — the session can always be reconnected, whatever happened before (structural clauses)."""
from ..core import AnchorLost, chain, peel, phi_alts, is_call, walk, show
from . import roles, outq, ops
from .roles import SESSION, RUNTIME, READER, OUTBOUND, SDATA

EXPLANATION = (
    "Static clauses of C12 on mir_built: (reset) in Session::connect the reader reset, the transport-timer reset and the "
    "unconditional re-arm of all three outbound queues each dominate the handshake call, and the reader reset stores 0 / "
    "None into both reader fields — so nothing of an earlier connection (partial inbound packet, partial send progress, "
    "deadlines) survives, however that connection ended; (first) a complete CONNECT is the first I/O on the new transport; "
    "(scratch) the buffer CONNECT is encoded into must not be storage whose free size depends on retained in-flight "
    "state (known finding: it is the free tail of the transmit arena); (dead-paths) connect() has no other way to fail "
    "before the handshake than these. That a conformant broker's answers lead to success is not decided (it needs the "
    "broker's behaviour)."
)
ASSUMPTIONS = ["a new transport is supplied per connect (forced by move; compile-fail witness in the thorough tier)"]


def stores_of(b, adt, field):
    out = []
    for (bb, j, dst, rv, s) in b.stores():
        if bb in b.reachable:
            fe = [e for e in dst["proj"] if isinstance(e, dict) and "f" in e]
            if fe and fe[-1]["name"] == field and fe[-1]["of"] == adt:
                out.append(b.rvalue_term(rv))
    return out


def rule_reset(R):
    f = R.f
    _, ccode = roles.session_connect(f)
    R.touch(ccode)
    call, hb, hcode = roles.handshake(f)
    # reader reset role: PacketReader method storing 0 into read_bytes and None into packet_length
    rr = [b for b in f.bodies.values() if b.kind == "assoc_fn" and roles.self_is(b, READER)
          and any(v[0] == "const" and v[2] == 0 for v in stores_of(b, READER, "read_bytes"))
          and any(v[0] == "agg" and v[3] == "None" for v in stores_of(b, READER, "packet_length"))
          and b.arg_count == 1]
    if len(rr) != 1:
        raise AnchorLost("reader-reset", "found %d candidates" % len(rr))
    rr = rr[0]
    R.touch(rr)
    oknone = all(v[0] == "const" and v[2] == 0 for v in stores_of(rr, READER, "read_bytes")) and \
        all(v[0] == "agg" and v[3] == "None" for v in stores_of(rr, READER, "packet_length")) and \
        rr.must_pass([0], rr.returns, via_blocks=[bb for (bb, j, dst, rv, s) in rr.stores()])[0]
    R.ob("reset/reader-fields", oknone,
         "the reader reset unconditionally forgets a partially received packet: read_bytes = 0 and packet_length = None",
         where=rr.span)
    # every piece of receive progress the reader keeps (any field but the borrowed buffer) is forgotten by the reset:
    # a field added later (cached header progress, a cursor) that survives the reset carries a partial packet over
    adt = f.adts.get(READER)
    if adt is None:
        raise AnchorLost("PacketReader-adt")
    nf = 0
    for fld in adt["variants"][0]["fields"]:
        if fld["ty"].startswith("&"):
            continue
        nf += 1
        sb = [bb for (bb, j, dst, rv, s) in rr.stores() if bb in rr.reachable and
              [e for e in dst["proj"] if isinstance(e, dict) and "f" in e][-1:] and
              [e for e in dst["proj"] if isinstance(e, dict) and "f" in e][0]["name"] == fld["name"]]
        okf = bool(sb) and rr.must_pass([0], rr.returns, via_blocks=sb)[0]
        R.ob("reset/reader-field/%s" % fld["name"], okf,
             "the reader reset re-initialises `%s` on every path (all receive progress is forgotten, whatever fields hold it)" % fld["name"],
             where=rr.span)
    R.floor("reset/reader-field", nf, 2, "progress fields of PacketReader")
    # transport-timer reset: RuntimeState method storing None into both deadlines
    tr = [b for b in f.bodies.values() if b.kind == "assoc_fn" and roles.self_is(b, RUNTIME) and b.arg_count == 1
          and any(v[0] == "agg" and v[3] == "None" for v in stores_of(b, RUNTIME, "next_ping"))
          and any(v[0] == "agg" and v[3] == "None" for v in stores_of(b, RUNTIME, "ping_timeout"))]
    if len(tr) != 1:
        raise AnchorLost("transport-reset", "found %d candidates" % len(tr))
    tr = tr[0]
    sites = outq.rearm_sites(f)
    rearm = [f.bodies[n] for n, q in sites.items() if all(q.get(x) == "always" for x in outq.QUEUES)]
    for role, cands, what in (("reader", [rr], "inbound reader reset"), ("timers", [tr], "keep-alive / transport timer reset"),
                              ("send-progress", rearm, "unconditional re-arm of all outbound queues")):
        blocks = []
        for cb in cands:
            blocks += [c.bb for c in outq.calls_to(f, ccode, cb)]
        ok = bool(blocks) and ccode.must_pass([0], [call.bb], via_blocks=blocks)[0]
        R.ob("reset/%s-before-handshake" % role, ok,
             "Session::connect performs the %s on every path before the handshake starts (it must not depend on how the "
             "previous connection ended: dropped, forgotten, failed or cancelled)" % what, where=call.span)


def rule_first(R):
    from .c01 import rule_first_last
    # same clause as C01.first, reported under C12
    f = R.f
    call, hb, hcode = roles.handshake(f)
    cwr = roles.connect_write(f)
    ios = cwr["ios"]
    ok = cwr["count"] == 1 and bool(cwr["calls"])
    if ok:
        conts = cwr["conts"]
        mine = set(c.bb for c in cwr["calls"])
        ok = bool(conts) and all(hcode.must_pass([0], [o.bb], via_edges=conts)[0] for o in ios if o.bb not in mine)
    R.ob("first/connect-first", ok,
         "the first transport access of every connection is the write of one complete CONNECT, and everything else in "
         "the handshake is dominated by its success", where=hb.span)
    _, ccode = roles.session_connect(f)
    pre = [c for c in ccode.calls.values() if c.bb in ccode.reachable and f.call_does_io(c) and c.bb != call.bb
           and not ccode.must_pass([0], [c.bb], via_blocks=[call.bb])[0]]
    R.ob("first/no-io-before-handshake", not pre, "Session::connect touches the transport only through the handshake",
         where=ccode.span)
    # connect() cannot fail before the handshake: no error return precedes the handshake call
    errs = []
    for bb in ccode.returns:
        pass
    early = ccode.reach([0], avoid=[call.bb])
    early_ret = [bb for bb in ccode.returns if bb in early]
    R.ob("first/no-early-failure", not early_ret,
         "Session::connect has no exit that bypasses the handshake (no state from earlier connections can make it refuse)",
         where=ccode.span)


def rule_scratch(R):
    f = R.f
    call, hb, hcode = roles.handshake(f)
    cwr = roles.connect_write(f)
    if cwr["count"] != 1 or cwr["buffer"] is None:
        raise AnchorLost("connect-write")
    c = cwr["calls"][0] if cwr["calls"] else None
    buf = cwr["buffer"]
    arena = False
    why = ""
    for x in walk(buf):
        if x[0] == "call" and x[2] in f.bodies and roles.self_is(f.bodies[x[2]], OUTBOUND):
            touched = f.fields_touched(x[2])
            if (OUTBOUND, "buf") in touched and ((OUTBOUND, "retained") in touched or (OUTBOUND, "used") in touched):
                arena = True
                why = "Outbound::%s, whose result depends on `used`/`retained`" % f.bodies[x[2]].fn_name
        if x[0] == "field" and x[2] == "buf" and x[3] == OUTBOUND:
            arena = True
            why = why or "Outbound.buf"
    R.ob("scratch/connect_handshake", not arena,
         "CONNECT must be encodable whatever is retained: its buffer must not be storage whose free size depends on "
         "in-flight state (found: %s = %s) — with a full arena every connect() fails with BufferTooSmall and only a "
         "connection could free the space" % (show(buf)[:120], why), where=cwr["span"])


def rule_advertised(R):
    """what CONNECT advertises must not depend on what happens to be in flight: a Receive Maximum computed from the
    *free* slots of the inbound QoS 2 table is 0 when the table is full -- a protocol error that a conformant broker
    answers by refusing the connection, on every later attempt (nothing drains the table while disconnected)"""
    f = R.f
    call, hb, hcode = roles.handshake(f)
    n = 0
    for bb, j, s in hcode.assigns():
        rv = s["rv"]
        if bb not in hcode.reachable or "agg" not in rv or rv["agg"].get("adt") != "properties::Property" or not rv.get("ops"):
            continue
        v = rv["agg"]["variant"]
        t = hcode.rvalue_term(rv)
        n += 1
        bad = None
        pay = t[5][0] if t[5] else None

        def scan(x, under_capacity=False):
            nonlocal bad
            x = peel(x)
            if not isinstance(x, tuple) or bad:
                return
            if x[0] == "call":
                cap = (x[4] or "").rsplit("::", 1)[-1] in ("capacity",)
                for a in x[3]:
                    scan(a, under_capacity or cap)
                return
            if x[0] == "field" and x[3] in (SDATA, OUTBOUND) and not under_capacity:
                bad = "%s.%s" % (x[3].rsplit("::", 1)[-1], x[2])
                return
            for y in x[1:]:
                if isinstance(y, tuple):
                    scan(y, under_capacity)
                elif isinstance(y, list):
                    for z in y:
                        if isinstance(z, tuple):
                            scan(z, under_capacity)
        if pay is not None:
            # look through accessor functions (`self.data.inbound_receive_maximum()`)
            scan(roles.expand_getter(f, pay))
        R.ob("advertised/%s" % v, bad is None,
             "the %s that CONNECT advertises is fixed by configuration and capacities, not by session state%s (value %s)"
             % (v, "" if bad is None else ": it reads " + bad, show(pay)[:100] if pay is not None else None), where=s["span"])
    R.floor("advertised", n, 3, "properties placed in CONNECT")


def rule_usable(R):
    """a reconnected session is usable: the send window it starts with is not charged for publishes that were discarded
    with the previous broker session (shared with C06)"""
    from .c06 import clause_inflight_read_after_reset
    clause_inflight_read_after_reset(R, "usable/inflight-read-after-reset")


def rule_tail(R):
    """CONNECT is encoded into the free tail of the transmit arena: the tail is as large as the retained packets allow
    only if compaction really reclaims every hole, and `used` is kept by new/clear, the enqueue and compaction alone
    (shared with C17)"""
    from . import c17
    c17.rule_compact(R)
    c17.rule_used(R)


def rule_negotiated(R):
    """the reconnected session is fully usable: what the previous connection negotiated (packet size limit, Maximum QoS,
    receive window) does not carry over into a connection whose CONNACK is silent about it"""
    roles.clause_negotiated_per_connection(R, "usable", ("maximum_packet_size", "max_qos", "send_quota", "max_send_quota"))


def rule_shared_atomic(R):
    """a handshake that is rejected leaves no trace: nothing from a CONNACK is written into session state (by a store or by a
    call handed `&mut` of a state field) while its property block is still being examined -- C08's rule"""
    from .c08 import rule_atomic as _r
    _r(R)


def rule_shared_fit(R):
    """"for all amounts of retained in-flight data and all buffer configurations": a CONNECT that exactly fills the free tail
    behind the retained packets is encoded, not refused -- the serializer's bounds tests use the whole buffer (C09's rule)"""
    from .c09 import rule_exact_fit as _r
    _r(R)


def run(R):
    R.rule("fit", rule_shared_fit)
    R.rule("atomic", rule_shared_atomic)
    R.rule("negotiated", rule_negotiated)
    R.rule("tail", rule_tail)
    R.rule("usable", rule_usable)
    R.rule("advertised", rule_advertised)
    R.rule("reset", rule_reset)
    R.rule("first", rule_first)
    R.rule("scratch", rule_scratch)
