"""C07 — packet identifiers in flight are non-zero and pairwise distinct (structural clauses)."""
from ..core import AnchorLost, chain, peel, phi_alts, is_call, walk, show
from .. import paths
from . import roles, outq, ops
from .roles import OUTBOUND, SDATA

EXPLANATION = (
    "Static clauses of C07 on mir_built: (nz) the allocator returns NonZeroU16::get of the counter and stores a NonZeroU16 "
    "successor (non-zero by type, also after wrap-around); (src) the identifier placed in SUBSCRIBE, UNSUBSCRIBE and "
    "PUBLISH headers, handed to the enqueue and recorded in the operation handle is the allocator's result of the same "
    "operation; (fresh) the allocator returns an identifier only on paths where it was looked up in the retained list and "
    "in the release list and found absent, and only local identifier-bearing enqueue sites exist. With (fresh) the clause "
    "set is the property; the reachable-history argument (at most 16 in flight of 65535) is not needed for safety."
)
ASSUMPTIONS = ["core::num::NonZeroU16 cannot hold 0"]


def alloc_closures(f, alloc):
    out = set()
    for b in f.bodies.values():
        if b.kind == "closure" and outq.calls_to(f, b, alloc):
            t = b.local_term(0)
            if is_call(peel(t)) and any(tt == alloc.name for tt in [peel(t)[2]]):
                out.add(b.name)
    return out


def is_alloc_term(f, alloc, t, closures):
    for alt in phi_alts(t):
        x = peel(alt)
        if x[0] == "call" and x[2] == alloc.name:
            continue
        # Option<id>: None (QoS 0) or Some(allocator's result) -- `cond.then(|| alloc())` and `if cond { Some(alloc()) } else { None }`
        if x[0] == "agg" and x[1] == "adt" and x[2] == "core::option::Option":
            if x[3] == "None" or (x[3] == "Some" and x[5] and is_alloc_term(f, alloc, x[5][0], closures)):
                continue
            return False
        # (bool::then(cond, closure) as Some).0 with a closure returning the allocator's result
        if x[0] == "field" and x[1][0] == "downcast" and x[1][2] == "Some":
            inner = peel(x[1][1])
            if is_call(inner, "bool>::then", "then") and len(inner[3]) == 2:
                defs = ops._closure_defs(inner[3][1])
                if defs and all(d in closures for d in defs):
                    continue
        if is_call(x, "bool>::then", "then") and len(x[3]) == 2:
            defs = ops._closure_defs(x[3][1])
            if defs and all(d in closures for d in defs):
                continue
        return False
    return True


def rule_nz(R):
    f = R.f
    alloc = outq.allocator(f)
    R.touch(alloc)
    rets = []
    for alt in phi_alts(alloc.local_term(0)):
        rets.append(alt)
    def is_nz(t, depth=0):
        t = peel(t)
        if is_call(t, "NonZero::<T>::get", "NonZero::<u16>::get") and chain(t[3][0])[1] == ["packet_id"]:
            return True
        if t[0] == "call" and t[2] in f.bodies and depth < 3:
            hb = f.bodies[t[2]]
            return all(is_nz(a, depth + 1) for a in phi_alts(hb.local_term(0)))
        return False
    ok = bool(rets) and all(is_nz(a) for a in rets)
    R.ob("nz/returns-nonzero", ok,
         "the allocator returns NonZeroU16::get of the session's counter (found %s)" % show(alloc.local_term(0)), where=alloc.span)
    fld = None
    for v in f.adts.get(SDATA, {}).get("variants", [{}])[0].get("fields", []):
        if v["name"] == "packet_id":
            fld = v["ty"]
    R.ob("nz/counter-type", fld is not None and "NonZero" in fld,
         "the counter is a NonZeroU16, so no stored successor can be 0 (type %s)" % fld)


def rule_src(R):
    f = R.f
    alloc = outq.allocator(f)
    closures = alloc_closures(f, alloc)
    n = 0
    for op in ops.ENQ_OPS:
        P = ops.pipeline(f, op)
        code = P.code
        R.touch(code)
        # packet structs
        for bb, j, s in code.assigns():
            rv = s["rv"]
            if bb in code.reachable and "agg" in rv and rv["agg"].get("adt") in ("packets::Subscribe", "packets::Unsubscribe", "packets::PublishHeader"):
                t = code.rvalue_term(rv)
                fl = dict(zip(t[4], t[5]))
                n += 1
                R.ob("src/%s/header" % op, is_alloc_term(f, alloc, fl.get("packet_id"), closures),
                     "the identifier in the %s built by %s is the allocator's result (found %s)"
                     % (rv["agg"]["adt"].rsplit("::", 1)[-1], op, show(fl.get("packet_id"))), where=s["span"])
        for c in P.retains:
            n += 1
            R.ob("src/%s/enqueue" % op, is_alloc_term(f, alloc, code.operand_term(c.args[1]), closures),
                 "the identifier under which %s retains its packet is the allocator's result (found %s)"
                 % (op, show(code.operand_term(c.args[1]))), where=c.span)
        for c in P.op_news:
            n += 1
            R.ob("src/%s/handle" % op, is_alloc_term(f, alloc, code.operand_term(c.args[1]), closures),
                 "the operation handle returned by %s records the allocator's result (found %s)"
                 % (op, show(code.operand_term(c.args[1]))), where=c.span)
    R.floor("src", n, 9, "identifier sinks in publish/subscribe/unsubscribe")
    # no other enqueue sites outside these operations
    enq = outq.role_fn(f, "enqueue")
    allowed = set(ops.pipeline(f, op).code.name for op in ops.ENQ_OPS)
    for b in f.bodies.values():
        if f.in_fuzzing(b):
            continue
        for c in outq.calls_to(f, b, enq):
            R.ob("src/enqueue-site/%s" % b.fn_name, b.name in allowed,
                 "packets are retained only by publish, subscribe and unsubscribe (found a call in %s)" % b.name, where=c.span)


def root_local(body, op):
    """follow `_t = copy _n` chains of plain single-definition locals"""
    pl = op.get("copy") or op.get("move")
    seen = set()
    while pl is not None and not pl["proj"] and pl["l"] not in seen:
        l = pl["l"]
        seen.add(l)
        ds = body.defs().get(l, [])
        if len(ds) == 1 and ds[0][0] == "stmt":
            rv = body.blocks[ds[0][1]]["stmts"][ds[0][2]]["rv"]
            if "use" in rv:
                nxt = rv["use"].get("copy") or rv["use"].get("move")
                if nxt is not None and not nxt["proj"]:
                    pl = nxt
                    continue
            if "ref" in rv and not rv["ref"]["proj"]:
                pl = rv["ref"]
                continue
        return l
    return pl["l"] if pl is not None and not pl["proj"] else None


def rule_fresh(R):
    f = R.f
    alloc = outq.allocator(f)
    ret_locals = set()
    for bb, j, s in alloc.assigns():
        if s["dst"]["l"] == 0 and not s["dst"]["proj"] and "use" in s["rv"]:
            ret_locals.add(root_local(alloc, s["rv"]["use"]))
    # switches on lookups of the candidate identifier
    need = {"retained": [], "pending_release": []}
    ret_terms = [peel(a) for a in phi_alts(alloc.local_term(0))]
    for bb in alloc.switches:
        if bb not in alloc.reachable:
            continue
        si = alloc.switch_info(bb)
        for alt in phi_alts(si["subject"]):
            a = peel(alt)
            neg = False
            if a[0] == "un" and a[1] == "Not":
                a = peel(a[2])
                neg = True
            if a[0] != "call" or a[2] not in f.bodies:
                continue
            touched = f.fields_touched(a[2])
            # the looked-up value must be the candidate that is returned
            cobj = alloc.calls.get(a[1])
            arg_ok = cobj is not None and len(cobj.args) >= 2 and root_local(alloc, cobj.args[1]) in ret_locals \
                and None not in ret_locals
            for q in need:
                if (OUTBOUND, q) in touched and arg_ok:
                    absent = si["edges"].get(True if neg else False)
                    if absent is not None:
                        need[q].append((bb, absent))
    for q, edges in sorted(need.items()):
        ok = bool(edges)
        if ok:
            ok, off = alloc.must_pass([0], alloc.returns, via_edges=edges)
        R.ob("fresh/%s" % q, ok,
             "the allocator hands out an identifier only on paths where it looked that identifier up in `%s` and found "
             "it absent: after the 16-bit counter wraps, an identifier still waiting for its final acknowledgement must be "
             "skipped" % q, where=alloc.span)


def run(R):
    R.rule("nz", rule_nz)
    R.rule("src", rule_src)
    R.rule("fresh", rule_fresh)
