"""C07 — packet identifiers in flight are non-zero and pairwise distinct (structural clauses)."""
from ..core import AnchorLost, chain, peel, phi_alts, is_call, walk, show
from .. import paths
from . import roles, outq, ops
from .roles import OUTBOUND, SDATA

EXPLANATION = (
    "Static clauses of C07 on mir_built: (nz) the allocator returns NonZeroU16::get of the counter and stores a NonZeroU16 "
    "successor (non-zero by type, also after wrap-around); (src) the identifier placed in SUBSCRIBE, UNSUBSCRIBE and "
    "PUBLISH headers, handed to the enqueue and recorded in the operation handle is the allocator's result of the same "
    "operation; (fresh) the allocator returns an identifier only on paths where it was looked up in the retained list and "
    "in the release list and found absent, and only local identifier-bearing enqueue sites exist. With (fresh) the clause "
    "set is the property; the reachable-history argument (at most 16 in flight of 65535) is not needed for safety."
)
ASSUMPTIONS = ["core::num::NonZeroU16 cannot hold 0"]


def alloc_closures(f, alloc):
    out = set()
    for b in f.bodies.values():
        if b.kind == "closure" and outq.calls_to(f, b, alloc):
            t = b.local_term(0)
            if is_call(peel(t)) and any(tt == alloc.name for tt in [peel(t)[2]]):
                out.add(b.name)
    return out


def is_alloc_term(f, alloc, t, closures):
    for alt in phi_alts(t):
        x = peel(alt)
        if x[0] == "call" and x[2] == alloc.name:
            continue
        # Option<id>: None (QoS 0) or Some(allocator's result) -- `cond.then(|| alloc())` and `if cond { Some(alloc()) } else { None }`
        if x[0] == "agg" and x[1] == "adt" and x[2] == "core::option::Option":
            if x[3] == "None" or (x[3] == "Some" and x[5] and is_alloc_term(f, alloc, x[5][0], closures)):
                continue
            return False
        # (bool::then(cond, closure) as Some).0 with a closure returning the allocator's result
        if x[0] == "field" and x[1][0] == "downcast" and x[1][2] == "Some":
            inner = peel(x[1][1])
            if is_call(inner, "bool>::then", "then") and len(inner[3]) == 2:
                defs = ops._closure_defs(inner[3][1])
                if defs and all(d in closures for d in defs):
                    continue
        if is_call(x, "bool>::then", "then") and len(x[3]) == 2:
            defs = ops._closure_defs(x[3][1])
            if defs and all(d in closures for d in defs):
                continue
        return False
    return True


def clause_nonzero(R, prefix):
    """the allocator never hands out 0 (shared with C01: a PUBLISH/SUBSCRIBE/UNSUBSCRIBE with identifier 0 is malformed)"""
    f = R.f
    alloc = outq.allocator(f)
    cname, cty = outq.counter_field(f)
    R.touch(alloc)
    rets = []
    for alt in phi_alts(alloc.local_term(0)):
        rets.append(alt)
    def is_nz(t, depth=0):
        t = peel(t)
        if is_call(t, "NonZero::<T>::get", "NonZero::<u16>::get"):
            return True        # whatever NonZero value it is taken of: non-zero by type
        if t[0] == "call" and t[2] in f.bodies and depth < 3:
            hb = f.bodies[t[2]]
            return all(is_nz(a, depth + 1) for a in phi_alts(hb.local_term(0)))
        return False
    by_type = bool(rets) and all(is_nz(a) for a in rets) and "NonZero" in cty
    guarded = False
    if not by_type:
        # a plain integer counter: the value handed out must have passed a `!= 0` test on every path
        ret_locals = set()
        for bb, j, s in alloc.assigns():
            if s["dst"]["l"] == 0 and not s["dst"]["proj"] and "use" in s["rv"]:
                ret_locals.add(root_local(alloc, s["rv"]["use"]))
        edges = []
        for bb in alloc.switches:
            if bb not in alloc.reachable:
                continue
            si = alloc.switch_info(bb)
            sj = peel(si["subject"])
            if sj[0] == "bin" and sj[1] in ("Eq", "Ne"):
                x, y = peel(sj[2]), peel(sj[3])
                for u, v in ((x, y), (y, x)):
                    if v[0] == "const" and v[2] == 0 and any(same_value(alloc, u, l) for l in ret_locals if l is not None):
                        e = si["edges"].get(sj[1] == "Ne")
                        if e is not None:
                            edges.append((bb, e))
        guarded = bool(edges) and None not in ret_locals and alloc.must_pass([0], alloc.returns, via_edges=edges)[0]
    if not by_type and not guarded:
        # third form: the stored counter itself is never 0 (every store to it is a non-zero constant, or a value on the
        # non-zero edge of a test of that value) and the allocator returns the stored counter
        def load_of_counter(t):
            t = peel(t)
            return t[0] == "field" and t[2] == cname and t[3] == SDATA
        returns_counter = bool(rets) and all(load_of_counter(a) for a in rets)
        inv = returns_counter
        nst = 0
        for (b2, bb2, j2, dst2, rv2, s2, final2) in f.field_stores(SDATA, cname):
            nst += 1
            if "use" not in rv2 or not _nonzero_operand(b2, bb2, rv2["use"], 0):
                inv = False
        for b2 in f.bodies.values():
            for bb2, j2, s2 in b2.assigns():
                rv2 = s2["rv"]
                if "agg" in rv2 and rv2["agg"].get("adt") == SDATA:
                    t2 = b2.rvalue_term(rv2)
                    v2 = dict(zip(t2[4], t2[5])).get(cname)
                    if v2 is None or peel(v2)[0] != "const" or peel(v2)[2] in (0, None):
                        inv = False
        guarded = inv and nst >= 1
    R.ob("%s/returns-nonzero" % prefix, by_type or guarded,
         "the allocator returns NonZeroU16::get of the session's counter, or a value it tested against 0 (found %s)"
         % show(alloc.local_term(0)), where=alloc.span)
    R.ob("%s/counter-type" % prefix, "NonZero" in cty or guarded,
         "the counter `%s` is a NonZeroU16, so no stored successor can be 0 -- or every value handed out is tested against 0 "
         "(type %s)" % (cname, cty))


def _nonzero_operand(body, bb, op, depth):
    """operand `op`, used in block bb, is provably non-zero: a non-zero constant, or (a copy of) a local that was tested
    against 0 on every path to its use"""
    if depth > 6:
        return False
    c = op.get("const")
    if c is not None:
        return c.get("value") not in (0, None)
    pl = op.get("copy") or op.get("move")
    if pl is None or pl["proj"]:
        return False
    l = pl["l"]
    lt = peel(body.local_term(l))
    # tested: a switch on this very value whose 0 edge leads elsewhere dominates bb
    for sb in body.switches:
        if sb not in body.reachable:
            continue
        si = body.switch_info(sb)
        if si["enum"] is None and 0 in si["edges"] and si.get("otherwise") is not None and peel(si["subject"]) == lt \
                and lt[0] != "phi" and body.must_pass([0], [bb], via_edges=[(sb, si["otherwise"])])[0]:
            return True
    ds = body.defs().get(l, [])
    if not ds:
        return False
    for d in ds:
        if d[0] != "stmt":
            return False
        rv = body.blocks[d[1]]["stmts"][d[2]]["rv"]
        if "use" not in rv or not _nonzero_operand(body, d[1], rv["use"], depth + 1):
            return False
    return True


def same_value(body, term, local):
    """term is (a copy of) the current value of `local`"""
    t = peel(term)
    lt = peel(body.local_term(local))
    return t == lt


def rule_nz(R):
    clause_nonzero(R, "nz")


def rule_src(R):
    f = R.f
    alloc = outq.allocator(f)
    closures = alloc_closures(f, alloc)
    n = 0
    for op in ops.ENQ_OPS:
        P = ops.pipeline(f, op)
        code = P.code
        R.touch(code)
        # packet structs
        for bb, j, s in code.assigns():
            rv = s["rv"]
            if bb in code.reachable and "agg" in rv and rv["agg"].get("adt") in ("packets::Subscribe", "packets::Unsubscribe", "packets::PublishHeader"):
                t = code.rvalue_term(rv)
                fl = dict(zip(t[4], t[5]))
                n += 1
                R.ob("src/%s/header" % op, is_alloc_term(f, alloc, fl.get("packet_id"), closures),
                     "the identifier in the %s built by %s is the allocator's result (found %s)"
                     % (rv["agg"]["adt"].rsplit("::", 1)[-1], op, show(fl.get("packet_id"))), where=s["span"])
        for c in P.retains:
            n += 1
            R.ob("src/%s/enqueue" % op, is_alloc_term(f, alloc, code.operand_term(c.args[1]), closures),
                 "the identifier under which %s retains its packet is the allocator's result (found %s)"
                 % (op, show(code.operand_term(c.args[1]))), where=c.span)
        for c in P.op_news:
            n += 1
            R.ob("src/%s/handle" % op, is_alloc_term(f, alloc, code.operand_term(c.args[1]), closures),
                 "the operation handle returned by %s records the allocator's result (found %s)"
                 % (op, show(code.operand_term(c.args[1]))), where=c.span)
    R.floor("src", n, 9, "identifier sinks in publish/subscribe/unsubscribe")
    # no other enqueue sites outside these operations
    enq = outq.role_fn(f, "enqueue")
    allowed = set(ops.pipeline(f, op).code.name for op in ops.ENQ_OPS)
    for b in f.bodies.values():
        if f.in_fuzzing(b):
            continue
        for c in outq.calls_to(f, b, enq):
            R.ob("src/enqueue-site/%s" % b.fn_name, b.name in allowed,
                 "packets are retained only by publish, subscribe and unsubscribe (found a call in %s)" % b.name, where=c.span)


def root_local(body, op):
    """follow `_t = copy _n` chains of plain single-definition locals (and `_t = NonZero::get(_n)`: the same number)"""
    pl = op.get("copy") or op.get("move")
    seen = set()
    while pl is not None and not pl["proj"] and pl["l"] not in seen:
        l = pl["l"]
        seen.add(l)
        ds = body.defs().get(l, [])
        if len(ds) == 1 and ds[0][0] == "call":
            c_ = body.calls[ds[0][1]]
            if c_.is_("NonZero::<T>::get", "NonZero::<u16>::get") and c_.args:
                nxt = c_.args[0].get("copy") or c_.args[0].get("move")
                if nxt is not None and not nxt["proj"]:
                    pl = nxt
                    continue
        if len(ds) == 1 and ds[0][0] == "stmt":
            rv = body.blocks[ds[0][1]]["stmts"][ds[0][2]]["rv"]
            if "use" in rv:
                nxt = rv["use"].get("copy") or rv["use"].get("move")
                if nxt is not None and not nxt["proj"]:
                    pl = nxt
                    continue
            if "ref" in rv and not rv["ref"]["proj"]:
                pl = rv["ref"]
                continue
        return l
    return pl["l"] if pl is not None and not pl["proj"] else None


def rule_fresh(R):
    f = R.f
    alloc = outq.allocator(f)
    ret_locals = set()
    for bb, j, s in alloc.assigns():
        if s["dst"]["l"] == 0 and not s["dst"]["proj"] and "use" in s["rv"]:
            ret_locals.add(root_local(alloc, s["rv"]["use"]))
    # switches on lookups of the candidate identifier
    need = {"retained": [], "pending_release": []}
    ret_terms = [peel(a) for a in phi_alts(alloc.local_term(0))]
    for bb in alloc.switches:
        if bb not in alloc.reachable:
            continue
        si = alloc.switch_info(bb)
        for alt in phi_alts(si["subject"]):
            a = peel(alt)
            neg = False
            if a[0] == "un" and a[1] == "Not":
                a = peel(a[2])
                neg = True
            if a[0] != "call" or a[2] not in f.bodies:
                continue
            touched = f.fields_touched(a[2])
            # the looked-up value must be the candidate that is returned
            cobj = alloc.calls.get(a[1])
            arg_ok = cobj is not None and len(cobj.args) >= 2 and root_local(alloc, cobj.args[1]) in ret_locals \
                and None not in ret_locals
            for q in need:
                if (OUTBOUND, q) in touched and arg_ok:
                    absent = si["edges"].get(True if neg else False)
                    if absent is not None:
                        need[q].append((bb, absent))
    # "the list is empty" proves absence as well: the true edge of `<list>.is_empty()` (or of `<list>.len() == 0`)
    empty = {"retained": [], "pending_release": []}
    for bb in alloc.switches:
        if bb not in alloc.reachable:
            continue
        si = alloc.switch_info(bb)
        for alt in phi_alts(si["subject"]):
            a = peel(alt)
            neg = False
            if a[0] == "un" and a[1] == "Not":
                a, neg = peel(a[2]), True
            lst = None
            if is_call(a, "is_empty") and len(a[3]) == 1:
                lst = chain(peel(a[3][0]))[1]
            elif a[0] == "bin" and a[1] in ("Eq", "Ne") and any(x[0] == "const" and x[2] == 0 for x in (peel(a[2]), peel(a[3]))):
                for side in (peel(a[2]), peel(a[3])):
                    if is_call(side, "len") and len(side[3]) == 1:
                        lst = chain(peel(side[3][0]))[1]
                        neg = neg != (a[1] == "Ne")
            if lst:
                for q in empty:
                    if lst[-1:] == [q]:
                        e_ = si["edges"].get(False if neg else True)
                        if e_ is not None:
                            empty[q].append((bb, e_))
    for q, edges in sorted(need.items()):
        ok = bool(edges)
        if ok:
            ok, off = alloc.must_pass([0], alloc.returns, via_edges=edges + empty[q])
        R.ob("fresh/%s" % q, ok,
             "the allocator hands out an identifier only on paths where it looked that identifier up in `%s` and found "
             "it absent: after the 16-bit counter wraps, an identifier still waiting for its final acknowledgement must be "
             "skipped" % q, where=alloc.span)


def rule_tables(R):
    """(fresh) consults the retained list and the release list: they must still hold every operation that waits for its
    final acknowledgement, i.e. an acknowledgement removes the entry it names and no other (shared with C02 / C03)"""
    f = R.f
    outq.clause_removal_index(R, "tables/retained-removes-the-acknowledged-entry", outq.role_fn(f, "retained_removal"), "retained")
    outq.clause_removal_index(R, "tables/release-removes-the-acknowledged-entry", outq.role_fn(f, "release_removal"), "pending_release")
    # ... and an identifier leaves the retained list on a successful PUBREC only to enter the release list (C03's clause)
    from .c03 import clause_pubrec_success_continues
    clause_pubrec_success_continues(R, "tables/pubrec-success-enters-release-list")


def rule_shared_qos_wiring(R):
    """every PUBLISH whose flags say QoS > 0 carries an identifier: header QoS and identifier allocation use the same (effective) QoS -- C19's rule"""
    from .c19 import rule_qos as _r
    _r(R)


def run(R):
    R.rule("qos-wiring", rule_shared_qos_wiring)
    R.rule("tables", rule_tables)
    R.rule("nz", rule_nz)
    R.rule("src", rule_src)
    R.rule("fresh", rule_fresh)
