"""C05 — fresh vs. resumed broker session is mirrored in local state and replay (structural clauses)."""
from ..core import AnchorLost, chain, peel, phi_alts, is_call, walk, show
from .. import paths
from . import roles, outq, ops
from .roles import SESSION, SDATA

EXPLANATION = (
    "Static clauses of C05 on mir_built: (wire) the CONNECT built by the handshake has clean_start = !session_present "
    "and client_id = the session's client id, which is only ever replaced by the CONNACK's Assigned Client Identifier; "
    "(mark) session_present becomes true only in the handshake, after the CONNACK reason code and all CONNACK properties "
    "were accepted; (reset) the session reset runs exactly on the session_present==false edge, before anything in the "
    "handshake can still fail, clears outbound state and pending inbound identifiers and bumps the generation; the "
    "returned ConnectEvent is Reconnected exactly on the session_present==true edge; (replay-first) in publish, subscribe "
    "and unsubscribe the identifier of a new packet is allocated only after a successful drain (which replays everything "
    "re-armed by connect). Arbitrary broker behaviour is not modelled."
)
ASSUMPTIONS = ["a CONNACK with a failing reason code carries session_present = 0 (MQTT-3.2.2-6), so not acting on it is harmless"]


def sp_switches(hcode):
    out = []
    for bb in hcode.switches:
        if bb not in hcode.reachable:
            continue
        si = hcode.switch_info(bb)
        r, n = chain(si["subject"])
        if n[-1:] == ["session_present"] and "@ConnAck" in n:
            out.append(si)
    return out


def _strip_str(t):
    """look through `as_str(&x)`, `&*x`, clone and Option payloads"""
    for _ in range(12):
        t = peel(t)
        if is_call(t, "as_str", "Clone::clone", "clone", "Deref::deref", "as_ref", "as_deref") and t[3]:
            t = t[3][0]
            continue
        if t[0] == "field" and t[1][0] == "downcast" and t[1][2] == "Some":
            t = t[1][1]
            continue
        break
    return t


def rule_wire(R):
    f = R.f
    call, hb, hcode = roles.handshake(f)
    R.touch(hcode)
    aggs = []
    for bb, j, s in hcode.assigns():
        rv = s["rv"]
        if bb in hcode.reachable and "agg" in rv and rv["agg"].get("adt") == "packets::Connect":
            aggs.append((hcode.rvalue_term(rv), s["span"]))
    R.exact("wire/connect", len(aggs), 1, "Connect{..} constructions in the handshake")
    id_fields = set()
    for t, span in aggs:
        fl = dict(zip(t[4], t[5]))
        cs = fl.get("clean_start")
        ok = cs is not None and cs[0] == "un" and cs[1] == "Not" and chain(cs[2]) == (("param", "self"), ["data", "session_present"])
        R.ob("wire/clean-start", ok,
             "CONNECT asks for a clean start exactly while no broker session is believed to exist: clean_start = "
             "!session_present (found %s)" % show(cs), where=span)
        cid = fl.get("client_id")
        if cid is not None and cid[0] == "agg" and cid[5]:
            cid = cid[5][0]
        # the identifier is read from session state: `self.client_id`, or -- when the broker-assigned identifier is kept
        # in a field of its own -- that field when set, the configured one otherwise
        ex = ("as_str", "Clone::clone", "clone", "Deref::deref", "as_ref", "as_deref")
        okc = cid is not None
        for alt in (phi_alts(_strip_str(cid)) if cid is not None else []):
            for alt2 in phi_alts(_strip_str(alt)):
                r, nm = chain(alt2, extra=ex)
                nm = [k for k in nm if not k.startswith("@") and k != "0"]
                fld = [(x[3], x[2]) for x in walk(alt2) if x[0] == "field" and x[3] in (SESSION, SDATA)]
                if r != ("param", "self") or not fld:
                    okc = False
                else:
                    id_fields.add(fld[0])
        okc = okc and bool(id_fields) and (SESSION, "client_id") in id_fields
        R.ob("wire/client-id", okc, "CONNECT carries the session's client identifier (found %s)" % show(cid), where=span)
    # who writes the identifier field(s)
    n = 0
    for (adt, fname) in sorted(id_fields or {(SESSION, "client_id")}):
        for (b, bb, j, dst, rv, s, final) in f.field_stores(adt, fname):
            n += 1
            t = b.rvalue_term(rv)
            if b.name == hcode.name:
                ok = any(x[0] == "downcast" and x[2] == "AssignedClientIdentifier" for x in walk(t))
                # and only on the success path: after the property loop succeeded
                R.ob("wire/client-id-writer/handshake", ok,
                     "the handshake replaces the client identifier only by the CONNACK's Assigned Client Identifier "
                     "(value %s)" % show(t), where=s["span"])
            else:
                R.ob("wire/client-id-writer/%s" % b.fn_name, False,
                     "%s.%s (the identifier CONNECT carries) written in %s: an identifier the broker assigned stays in force "
                     "for every later CONNECT" % (adt.rsplit("::", 1)[-1], fname, b.name), where=s["span"])
    for b in f.bodies.values():
        for bb, j, s in b.assigns():
            rv = s["rv"]
            if "agg" in rv and rv["agg"].get("adt") == SESSION and b.fn_name != "new":
                R.ob("wire/session-ctor/%s" % b.fn_name, False, "Session constructed outside Session::new", where=s["span"])
    R.floor("wire/client-id-writer", n, 1, "stores to Session.client_id")


def rule_mark(R):
    f = R.f
    call, hb, hcode = roles.handshake(f)
    n = 0
    marks = []
    for (b, bb, j, dst, rv, s, final) in f.field_stores(SDATA, "session_present"):
        t = b.rvalue_term(rv)
        n += 1
        if t[0] == "const" and t[2] == 1:
            marks.append(b)
        elif t[0] == "const" and t[2] == 0:
            continue
        else:
            R.ob("mark/who/%s" % b.fn_name, False, "session_present assigned a non-constant in %s" % b.name, where=s["span"])
    for b in f.bodies.values():
        for bb, j, s in b.assigns():
            rv = s["rv"]
            if "agg" in rv and rv["agg"].get("adt") == SDATA:
                t = b.rvalue_term(rv)
                fl = dict(zip(t[4], t[5]))
                sp = fl.get("session_present")
                R.ob("mark/initial/%s" % b.fn_name, sp is not None and sp[0] == "const" and sp[2] == 0,
                     "a new session starts with session_present = false", where=s["span"])
    R.ob("mark/one-marker", len(set(m.name for m in marks)) == 1,
         "exactly one function sets session_present (found %s)" % sorted(set(m.fn_name for m in marks)))
    if not marks:
        return
    mk = marks[0]
    ncall = 0

    class _Site:
        def __init__(self, bb, span):
            self.bb, self.span = bb, span
    sites = []
    if mk.name == hcode.name:
        # the marker is not a function of its own: the handshake stores the flag itself
        for (b_, bb_, j_, dst_, rv_, s_, final_) in f.field_stores(SDATA, "session_present"):
            t_ = b_.rvalue_term(rv_)
            if b_.name == hcode.name and t_[0] == "const" and t_[2] == 1:
                sites.append((hcode, _Site(bb_, s_["span"])))
    else:
        for b in f.bodies.values():
            if f.in_fuzzing(b):
                continue
            for c in outq.calls_to(f, b, mk):
                sites.append((b, c))
    for b, c in sites:
        if True:
            ncall += 1
            if b.name != hcode.name:
                R.ob("mark/caller/%s" % b.fn_name, False,
                     "session_present may only be set by the handshake; `%s` is called from %s" % (mk.fn_name, b.name), where=c.span)
                continue
            # dominated by reason Ok edge
            ok_edges = roles.reason_accepted_edges(f, hcode, "ConnAck")
            ok1 = bool(ok_edges) and hcode.must_pass([0], [c.bb], via_edges=ok_edges)[0]
            R.ob("mark/after-reason", ok1,
                 "session_present is set only after the CONNACK reason code was checked and found successful", where=c.span)
            # dominated by the Ok edge of the property validation result
            # the validation result: the Result produced by running the closure that walks the CONNACK properties --
            # called in place `(|| { for .. })()` or handed to an iterator adaptor (`iter().try_for_each(|p| ..)`)
            arms = roles.connack_property_arms(f)
            walkers = set(a["body"].name for a in arms.values())

            def is_validation(x):
                x = peel(x)
                if not (isinstance(x, tuple) and x[0] == "call"):
                    return False
                if is_call(x, "FnMut::call_mut", "FnOnce::call_once", "Fn::call") or "closure" in show(x)[:80]:
                    return True
                return any(y[0] == "agg" and y[1] == "closure" and y[2] in walkers for a in x[3] for y in walk(a))
            ps = [si for si in hcode.result_switches(is_validation) if si["enum"] == "core::result::Result"]
            p_edges = []
            for si in ps:
                if si["edges"].get("Ok") is not None:
                    p_edges.append((si["bb"], si["edges"]["Ok"]))
                elif si["edges"].get("Err") is not None:
                    # `if let Err(..) = result` : the other edge is the Ok edge
                    p_edges.append((si["bb"], si["otherwise"]))
            if hcode.name in walkers:
                # the property loop runs in the handshake itself (or in a helper that was inlined): "all properties
                # accepted" is the exhaustion edge of that loop -- every error inside leaves before reaching it
                for a in arms.values():
                    if a["body"].name != hcode.name:
                        continue
                for nx in [c2 for c2 in hcode.calls.values() if c2.bb in hcode.reachable and c2.is_("core::iter::Iterator::next")]:
                    for sbb in hcode.switches:
                        si2 = hcode.switch_info(sbb)
                        if si2["enum"] == "core::option::Option" and any(a2[0] == "call" and a2[1] == nx.bb for a2 in phi_alts(peel(si2["subject"]))) \
                                and si2["edges"].get("None") is not None and si2["edges"].get("Some") is not None:
                            # is this the loop that contains the Property match?
                            inside = hcode.reach([si2["edges"]["Some"]], avoid=[nx.bb])
                            if any(hcode.switch_info(b2)["enum"] == "properties::Property" for b2 in hcode.switches if b2 in inside):
                                p_edges.append((sbb, si2["edges"]["None"]))
            ok2 = bool(p_edges) and hcode.must_pass([0], [c.bb], via_edges=p_edges)[0]
            R.ob("mark/after-properties", ok2,
                 "session_present is set only after every CONNACK property was accepted (a garbled CONNACK does not "
                 "make the client ask to resume next time)", where=c.span)
    R.exact("mark/caller", ncall, 1, "call sites of the session_present marker")


def clause_reset_unconditional(R, key):
    """every run of the session reset discards the outbound state AND advances the generation: neither may depend on
    what happened to be in flight (a reset that skips the bump when nothing is queued leaves completed handles valid in
    the next session, where packet identifiers start again at 1)"""
    f = R.f
    rst = outq.session_reset(f)
    clr = outq.role_fn(f, "clear")
    cbs = [c.bb for c in outq.calls_to(f, rst, clr)]
    gbs = [bb for (b_, bb, j, dst, rv, s, final) in f.field_stores(SDATA, "generation") if b_.name == rst.name]
    ok_c = bool(cbs) and rst.must_pass([0], rst.returns, via_blocks=cbs)[0]
    ok_g = bool(gbs) and rst.must_pass([0], rst.returns, via_blocks=gbs)[0]
    R.ob(key, ok_c and ok_g,
         "the session reset clears the outbound state and advances the generation on EVERY path (%s)"
         % ("both unconditional" if ok_c and ok_g else ("the generation bump can be skipped" if ok_c else "the clearing can be skipped")),
         where=rst.span)


def clause_fresh_reset(R, prefix):
    """where the session reset sits in the handshake: only on the edge where the CONNACK reports no session, on every
    path from there, and before the handshake can fail for any other reason"""
    f = R.f
    call, hb, hcode = roles.handshake(f)
    rst = outq.session_reset(f)
    R.touch(rst)
    sps = sp_switches(hcode)
    R.floor("%s/session-present-tests" % prefix, len(sps), 1, "tests of CONNACK session_present in the handshake")
    rcalls = outq.calls_to(f, hcode, rst)
    # reset exactly on the false edge: every path from the false edge of the first test reaches reset before return,
    # and reset is unreachable from the true edge without passing a false edge
    f_edges = [(si["bb"], si["edges"][False]) for si in sps if si["edges"].get(False) is not None]
    t_edges = [(si["bb"], si["edges"][True]) for si in sps if si["edges"].get(True) is not None]
    ok = bool(rcalls) and bool(f_edges)
    if ok:
        ok, _ = hcode.must_pass([0], [c.bb for c in rcalls], via_edges=f_edges)
    R.ob("%s/only-if-no-session" % prefix, ok,
         "the session reset runs only on the edge where the CONNACK reports no session", where=rcalls[0].span if rcalls else hb.span)
    first = min(sps, key=lambda si: si["bb"]) if sps else None
    ok2 = False
    if first is not None and rcalls:
        # from the first false edge every path to a return passes the reset
        ok2, off = hcode.must_pass([first["edges"][False]], hcode.returns, via_blocks=[c.bb for c in rcalls])
    R.ob("%s/always-if-no-session" % prefix, ok2,
         "once the CONNACK reported no session, every path to the end of the handshake performs the reset",
         where=hb.span)
    # nothing can fail between accepting the reason code and acting on session_present
    ok3 = False
    for (_rb, okt) in roles.reason_accepted_edges(f, hcode, "ConnAck"):
        if okt is not None and first is not None:
            ok3, off = hcode.must_pass([okt], hcode.returns, via_blocks=[first["bb"]])
            # ... and the reset itself (not only the test) comes before anything that can fail
            if ok3 and rcalls and first["edges"].get(False) is not None:
                fail_free = True
                for bb in hcode.between([first["edges"][False]], [c.bb for c in rcalls]):
                    if bb in hcode.returns:
                        fail_free = False
                ok3 = fail_free and hcode.must_pass([first["edges"][False]], hcode.returns, via_blocks=[c.bb for c in rcalls])[0]
    R.ob("%s/before-any-failure" % prefix, ok3,
         "after the CONNACK reason code was accepted, session_present is acted upon before the handshake can fail for "
         "any other reason (otherwise a garbled CONNACK that reports no session leaves stale in-flight state behind and "
         "the next CONNECT asks to resume)", where=hb.span)
    return hb, hcode, rst, f_edges, t_edges


def rule_reset(R):
    f = R.f
    hb, hcode, rst, f_edges, t_edges = clause_fresh_reset(R, "reset")
    # what the reset does
    clr = outq.role_fn(f, "clear")
    R.ob("reset/clears-outbound", bool(outq.calls_to(f, rst, clr)), "the reset discards all outbound in-flight state", where=rst.span)
    gen = [(bb, b_.rvalue_term(rv)) for (b_, bb, j, dst, rv, s, final) in f.field_stores(SDATA, "generation") if b_.name == rst.name]
    def nonzero_step(v):
        if is_call(v, "wrapping_add", "checked_add", "saturating_add") and len(v[3]) == 2:
            return v[3][1][0] == "const" and v[3][1][2] not in (0, None)
        if v[0] == "bin" and v[1].startswith("Add"):
            return any(x[0] == "const" and x[2] not in (0, None) for x in (v[2], v[3]))
        return False
    okg = any(nonzero_step(v) for _, v in gen)
    okg = okg and all(any(x[0] == "field" and x[2] == "generation" for x in walk(v)) for _, v in gen)
    R.ob("reset/bumps-generation", okg and len(gen) == 1,
         "the reset advances the generation counter (earlier operation handles report invalidated)", where=rst.span)
    clause_reset_unconditional(R, "reset/unconditional")
    # generation is written nowhere else
    for (b, bb, j, dst, rv, s, final) in f.field_stores(SDATA, "generation"):
        R.ob("reset/generation-writer/%s" % b.fn_name, b.name == rst.name,
             "the generation counter is only written by the session reset (found in %s)" % b.name, where=s["span"])
    # ConnectEvent
    ev = {}
    for bb, j, s in hcode.assigns():
        rv = s["rv"]
        if bb in hcode.reachable and "agg" in rv and (rv["agg"].get("adt") or "").endswith("ConnectEvent"):
            v = rv["agg"]["variant"]
            dom_t = any(hcode.must_pass([0], [bb], via_edges=[e])[0] for e in t_edges)
            dom_f = any(hcode.must_pass([0], [bb], via_edges=[e])[0] for e in f_edges)
            ev[v] = ("true" if dom_t else "") + ("false" if dom_f else "")
    R.ob("reset/event", ev == {"Reconnected": "true", "Connected": "false"},
         "connect() yields Reconnected exactly when the CONNACK reported a session and Connected otherwise (extracted: %s)" % ev,
         where=hb.span)


def rule_replay_first(R):
    for op in ops.ENQ_OPS:
        ops.clause_drain_before_alloc(R, "replay-first", op)


def rule_replay(R):
    """on a resumed session every unacknowledged packet is retransmitted whole: the re-arm reached from Session::connect
    resets every entry of every queue, whatever state the entry was left in (shared with C01)"""
    from .c01 import rule_replay as _r
    _r(R)


def rule_status(R):
    """after a fresh session every earlier handle reports invalidated: the status decision compares generations before
    it looks at identifiers (identifiers restart at 1 in the new session) -- shared with C18"""
    from .c18 import rule_status as _r
    _r(R)


def rule_reason(R):
    """the CONNACK is accepted, the session marked present and replay started only on a success code; which codes are successes is ReasonCode::success (MQTT 5 2.4: below 0x80) -- shared clause"""
    roles.clause_reason_predicates(R, "reason")


def rule_shared_order(R):
    """on a resumed session every unacknowledged packet is retransmitted whole and in order: compaction slides entries down in list order, so no removal may reorder the retained list (and the release list keeps its order) -- C02's / C17's clause"""
    from .c02 import clause_order
    clause_order(R, "order", ("retained", "pending_release"), " -- compact() is only correct while the list is in arena order; replay follows list order")


def run(R):
    R.rule("order", rule_shared_order)
    R.rule("reason", rule_reason)
    R.rule("status", rule_status)
    R.rule("wire", rule_wire)
    R.rule("mark", rule_mark)
    R.rule("reset", rule_reset)
    R.rule("replay-first", rule_replay_first)
    R.rule("replay", rule_replay)
