"""C06 — the broker's Receive Maximum is never exceeded (structural clauses)."""
from ..core import AnchorLost, chain, peel, phi_alts, is_call, walk, show
from .. import paths, oracle
from . import roles, outq, ops
from .roles import RUNTIME, OUTBOUND, SESSION, CONN
from .c02 import arm_of, param_packet

EXPLANATION = (
    "Static clauses of C06 on mir_built: (who) the send quota and its maximum are written only by RuntimeState::new, "
    "the handshake, publish and the inbound handler; (init) the handshake stores min(CONNACK Receive Maximum, local "
    "in-flight capacity) (the capacity alone when absent) and rejects Receive Maximum 0; (resume) the quota stored by "
    "the handshake depends on the number of publishes still in flight (reads of the retained and release lists); "
    "(dec) in publish the decrement by one is dominated by the successful enqueue, precedes every await and every "
    "normal exit after it; (gate) the quota test dominates encoding and the gate reads the quota; (inc) every increment "
    "in the inbound handler has the shape min(quota+1, max), lies in an arm MQTT 5 §4.9 names (PUBACK, PUBCOMP, PUBREC "
    "only on the failing-reason edge), is dominated by the successful removal it accounts for, and each of those arms "
    "performs it on every such path. The counting invariant over histories follows from these per-operation facts and is "
    "not itself computed."
)
ASSUMPTIONS = ["u16 saturating arithmetic as documented"]


def quota_stores(f, field):
    out = []
    for (b, bb, j, dst, rv, s, final) in f.field_stores(RUNTIME, field):
        if not f.in_fuzzing(b):
            out.append((b, bb, b.rvalue_term(rv), s["span"]))
    return out


def rule_who(R):
    f = R.f
    call, hb, hcode = roles.handshake(f)
    hnd, sw = outq.inbound_handler(f)
    P = ops.pipeline(f, "publish")
    allowed = {hcode.name, hnd.name, P.code.name}
    n = 0
    for field in ("send_quota", "max_send_quota"):
        for (b, bb, v, span) in quota_stores(f, field):
            n += 1
            R.ob("who/%s/%s" % (field, b.fn_name), b.name in allowed,
                 "`%s` may only be written by the handshake, publish and the inbound handler (found a store in %s)"
                 % (field, b.name), where=span)
    R.floor("who", n, 5, "stores to the quota fields")
    # whole-struct constructions
    for b in f.bodies.values():
        for bb, j, s in b.assigns():
            rv = s["rv"]
            if "agg" in rv and rv["agg"].get("adt") == RUNTIME:
                R.ob("who/ctor/%s" % b.fn_name, b.fn_name == "new" and roles.self_is(b, RUNTIME),
                     "RuntimeState is only constructed by RuntimeState::new", where=s["span"])


def is_min_of_recvmax(t):
    """min(<CONNACK ReceiveMaximum payload>, <local capacity>)"""
    t = peel(t)
    if not is_call(t, "Ord::min", "cmp::min", "min") or len(t[3]) != 2:
        return False
    a, b = t[3]
    has_rm = any(x[0] == "downcast" and x[2] == "ReceiveMaximum" for x in walk(a)) or \
        any(x[0] == "downcast" and x[2] == "ReceiveMaximum" for x in walk(b))
    has_cap = any(is_call(x, "max_inflight") for x in walk(a)) or any(is_call(x, "max_inflight") for x in walk(b))
    return has_rm and has_cap


def _table_capacity(f, field):
    import re as _re
    for fl in f.adts.get(OUTBOUND, {}).get("variants", [{}])[0].get("fields", []):
        if fl["name"] == field:
            m = _re.search(r"; ([A-Za-z_0-9:]+)\]", fl["ty"])
            if not m:
                return None
            if m.group(1).isdigit():
                return int(m.group(1))
            for k, v in f.consts.items():
                if k == m.group(1) or k.endswith("::" + m.group(1)):
                    return v.get("value")
    return None


def clause_capacity_within_tables(R, key):
    """the local window (`max_inflight`) fits BOTH tables an exchange passes through: a QoS 2 publish needs a retained
    slot until PUBREC and a release slot until PUBCOMP, so a window above either capacity lets the client accept a
    publish whose PUBREC can no longer be followed by a PUBREL (the exchange is dropped)"""
    from .. import absint
    f = R.f
    mi = roles.method(f, OUTBOUND, "max_inflight")
    v = absint.Interp(mi, lambda p_: False).run((0, 0))
    caps = [_table_capacity(f, "retained"), _table_capacity(f, "pending_release")]
    ok = v is not None and v is not absint.TOP and v[0] == v[1] and all(c is not None for c in caps) and 1 <= v[1] <= min(caps)
    R.ob(key, ok,
         "max_inflight() is a constant no larger than the capacity of the retained table and of the release table "
         "(value %s, capacities %s)" % (v if v is not None and v is not absint.TOP else "not a computable constant", caps), where=mi.span)


def clause_inflight_read_after_reset(R, key):
    """the in-flight count subtracted from the window is read *after* the fresh-session reset: a count taken before the
    reset charges the new session for publishes that were just discarded (a full window lost with the old session leaves
    the fresh one unable to publish at QoS 1/2)"""
    f = R.f
    call, hb, hcode = roles.handshake(f)
    rst = outq.session_reset(f)
    rcalls = [c.bb for c in outq.calls_to(f, hcode, rst)]
    qs = [x for x in quota_stores(f, "send_quota") if x[0].name == hcode.name]
    infl = [c for c in hcode.calls.values() if c.bb in hcode.reachable and any(
        {(OUTBOUND, "retained"), (OUTBOUND, "pending_release")} <= set(f.fields_touched(t)) and f.bodies[t].fn_name != rst.fn_name
        and not outq.calls_to(f, f.bodies[t], rst) and t != rst.name and "clear" not in f.bodies[t].fn_name
        for t in f.call_targets(c) if t in f.bodies)]
    # only the counting calls whose result reaches the stored quota
    used = [c for c in infl if qs and any(isinstance(x, tuple) and x[0] == "call" and x[1] == c.bb for x in walk(qs[0][2]))]
    ok = bool(used) and bool(rcalls) and len(qs) == 1
    if ok:
        for c in used:
            # no path runs the reset after the count was taken and still reaches the store
            after = hcode.reach([c.target] if c.target is not None else [], include_start=True)
            for rb in rcalls:
                if rb in after and qs[0][1] in hcode.reach([rb]):
                    ok = False
    R.ob(key, ok,
         "the publishes-in-flight count that enters the stored quota is taken after the session reset, never before it",
         where=qs[0][3] if qs else hb.span)


def rule_init(R):
    f = R.f
    call, hb, hcode = roles.handshake(f)
    R.touch(hcode)
    ms = [x for x in quota_stores(f, "max_send_quota") if x[0].name == hcode.name]
    qs = [x for x in quota_stores(f, "send_quota") if x[0].name == hcode.name]
    R.exact("init/max-store", len(ms), 1, "stores to max_send_quota in the handshake")
    R.exact("init/quota-store", len(qs), 1, "stores to send_quota in the handshake")
    for (b, bb, v, span) in ms:
        alts = phi_alts(v)
        ok = all(is_call(peel(a), "max_inflight") or is_min_of_recvmax(a) for a in alts) \
            and any(is_call(peel(a), "max_inflight") for a in alts) and any(is_min_of_recvmax(a) for a in alts)
        R.ob("init/max-value", ok,
             "the window stored by the handshake is the local in-flight capacity, or min(Receive Maximum, capacity) when "
             "the CONNACK carries one (found %s)" % show(v), where=span)
    for (b, bb, v, span) in qs:
        base = [x for x in walk(v) if x[0] == "phi"]
        ok = any(any(is_call(peel(a), "max_inflight") for a in phi_alts(p)) and any(is_min_of_recvmax(a) for a in phi_alts(p)) for p in base) \
            or (len(phi_alts(v)) >= 2 and any(is_min_of_recvmax(a) for a in phi_alts(v)))
        R.ob("init/quota-value", ok,
             "the quota stored by the handshake is derived from the same clamped window (found %s)" % show(v), where=span)
        # resume: depends on in-flight state
        touched = set()
        for x in walk(v):
            if x[0] == "call":
                for tname in [x[2]]:
                    if tname in f.bodies:
                        touched |= f.fields_touched(tname)
        need = {(OUTBOUND, "retained"), (OUTBOUND, "pending_release")}
        R.ob("resume/depends-on-inflight", need <= touched,
             "the quota at (re)connect must depend on the publishes still in flight — retained PUBLISH packets and "
             "exchanges waiting for PUBCOMP are retransmitted and occupy the broker's window (the stored value reads %s)"
             % sorted(x[1] for x in touched & need), where=span)
    # quota + publishes in flight = window: the stored quota is the stored window minus what is already in flight
    if len(ms) == 1 and len(qs) == 1:
        wv, qv = ms[0][2], peel(qs[0][2])
        okw = False
        found = show(qv)
        sub = None
        if is_call(qv, "saturating_sub", "wrapping_sub", "checked_sub") and len(qv[3]) == 2:
            sub = (qv[3][0], qv[3][1])
        elif qv[0] == "bin" and qv[1].startswith("Sub"):
            sub = (qv[2], qv[3])
        elif qv[0] == "field" and qv[1][0] == "bin" and qv[1][1].startswith("Sub"):
            sub = (qv[1][2], qv[1][3])
        if sub is not None:
            w_alts = sorted(set(show(peel(a)) for a in phi_alts(peel(sub[0]))))
            m_alts = sorted(set(show(peel(a)) for a in phi_alts(peel(wv))))
            infl = peel(sub[1])
            okw = w_alts == m_alts and infl[0] == "call" and infl[2] in f.bodies and \
                {(OUTBOUND, "retained"), (OUTBOUND, "pending_release")} <= set(f.fields_touched(infl[2]))
        R.ob("resume/window-minus-inflight", okw,
             "the quota stored at (re)connect is the window stored beside it minus the publishes still in flight "
             "(quota + in-flight = min(Receive Maximum, capacity)); found %s" % found, where=qs[0][3])
    clause_capacity_within_tables(R, "init/capacity-within-tables")
    clause_inflight_read_after_reset(R, "resume/inflight-read-after-reset")
    # Receive Maximum 0 is rejected
    ok0 = False
    for cb in [hcode] + list(f.children(hcode)):
        for bb in cb.switches:
            if bb not in cb.reachable:
                continue
            si = cb.switch_info(bb)
            subj = peel(si["subject"])
            te = fe = None
            if subj[0] == "bin" and subj[1] == "Eq" and any(x[0] == "downcast" and x[2] == "ReceiveMaximum" for x in walk(subj)) \
                    and any(x[0] == "const" and x[2] == 0 for x in (subj[2], subj[3])):
                te, fe = si["edges"].get(True), si["edges"].get(False)
            elif subj[0] == "bin" and subj[1] in ("Lt", "Le", "Gt", "Ge") and any(x[0] == "downcast" and x[2] == "ReceiveMaximum" for x in walk(subj)):
                # `max < 1`, `max <= 0`, `1 > max`, `0 >= max`: for an unsigned value all mean `max == 0`
                a_, b_ = peel(subj[2]), peel(subj[3])
                op_ = subj[1]
                if a_[0] == "const":
                    a_, b_, op_ = b_, a_, {"Lt": "Gt", "Gt": "Lt", "Le": "Ge", "Ge": "Le"}[op_]
                if b_[0] == "const" and ((op_ == "Lt" and b_[2] == 1) or (op_ == "Le" and b_[2] == 0)):
                    te, fe = si["edges"].get(True), si["edges"].get(False)
                elif b_[0] == "const" and ((op_ == "Ge" and b_[2] == 1) or (op_ == "Gt" and b_[2] == 0)):
                    te, fe = si["edges"].get(False), si["edges"].get(True)
            elif chain(subj)[1][-2:] == ["@ReceiveMaximum", "0"] and any(k_ == 0 and not isinstance(k_, bool) for k_ in si["edges"]):
                # `Property::ReceiveMaximum(0) => return Err(..)`: a match on the value itself
                te = [t_ for k_, t_ in si["edges"].items() if k_ == 0 and not isinstance(k_, bool)][0]
                fe = si["otherwise"]
            if te is not None:
                # the zero edge returns Err(InvalidPacket) without storing
                reach = cb.reach([te], avoid=[fe] if fe is not None else [])
                errs = [1 for bb2 in reach for s in cb.blocks[bb2]["stmts"] if s["k"] == "assign" and "agg" in s["rv"]
                        and s["rv"]["agg"].get("variant") == "Err"]
                ok0 = ok0 or bool(errs)
    R.ob("init/zero-rejected", ok0, "a CONNACK Receive Maximum of 0 is rejected as an invalid packet", where=hb.span)
    a = roles.connack_property_arms(f).get("ReceiveMaximum")
    okh = a is not None and a["unconditional"] and bool(roles.arm_values_for(a, RUNTIME, "send_quota")) and \
        bool(roles.arm_values_for(a, RUNTIME, "max_send_quota"))
    R.ob("init/receive-maximum-honoured", okh,
         "whenever the CONNACK carries a (non-zero) Receive Maximum both the quota and its maximum are set from it, on every path",
         where=a["span"] if a else hb.span)


def rule_dec(R):
    f = R.f
    P = ops.pipeline(f, "publish")
    code = P.code
    R.touch(code)
    R.exact("dec/store", len(P.quota_stores), 1, "stores to send_quota in publish")
    ret = ops.first(P.retains, "retain", "publish")
    conts, brks = ops.cont_edges(code, ret)
    for (bb, j, v, span) in P.quota_stores:
        okv = is_call(peel(v), "saturating_sub", "checked_sub", "wrapping_sub") and len(v[3]) == 2 \
            and chain(v[3][0])[1][-1:] == ["send_quota"] and v[3][1][0] == "const" and v[3][1][2] == 1
        R.ob("dec/value", okv, "publish takes exactly one unit of quota: send_quota = send_quota - 1 (found %s)" % show(v), where=span)
        okd = bool(conts) and code.must_pass([0], [bb], via_edges=conts)[0]
        R.ob("dec/after-enqueue", okd, "the quota is only taken after the publish was enqueued successfully "
             "(a refused publish leaves the quota unchanged)", where=span)
        # from the enqueue's success edge, the store comes before any await and any normal exit
        starts = [c[1] for c in conts]
        region = code.reach(starts, avoid=[bb])
        ys = sorted(region & code.yield_blocks())
        rets = sorted(region & set(code.returns))
        R.ob("dec/atomic", not ys and not rets,
             "once the publish is enqueued the quota is taken before the next await point and before any return "
             "(cancellation cannot separate the two)%s" % ("" if not ys and not rets else ": %s reachable first"
                                                            % code.line((ys + rets)[0])), where=span)


def clause_quota_after_enqueue(R, key):
    """an in-flight slot (one unit of send quota) is taken only for a publish that was actually enqueued: every error exit
    of publish before the enqueue leaves the quota untouched, otherwise refused publishes leak slots until nothing can
    be published any more"""
    f = R.f
    P = ops.pipeline(f, "publish")
    code = P.code
    ret = ops.first(P.retains, "retain", "publish")
    conts, brks = ops.cont_edges(code, ret)
    ok = bool(P.quota_stores) and bool(conts)
    for (bb, j, v, span) in P.quota_stores:
        ok = ok and code.must_pass([0], [bb], via_edges=conts)[0]
    R.ob(key, ok, "publish takes its unit of send quota only after the packet was enqueued successfully (no error exit between "
         "taking the slot and the enqueue can leak it)", where=P.quota_stores[0][3] if P.quota_stores else P.fn.span)


def rule_gate(R):
    f = R.f
    P = ops.pipeline(f, "publish")
    code = P.code
    cm = roles.conn_methods(f)
    cp_b, cp_code = cm["can_publish"]
    gates = outq.calls_to(f, code, cp_b)
    enc = P.encodes + [c for c in code.calls.values() if c.bb in code.reachable and c.is_("MqttSerializer::<'a>::encode_publish")]
    edges = []
    for g in gates:
        for si in code.result_switches(lambda x, g=g: peel(x)[0] == "call" and peel(x)[1] == g.bb):
            if si["edges"].get(True) is not None:
                edges.append((si["bb"], si["edges"][True]))
    ok = bool(edges) and bool(enc) and all(code.must_pass([0], [e.bb], via_edges=edges)[0] for e in enc)
    R.ob("gate/before-encode", ok, "publish encodes nothing unless can_publish(qos) returned true", where=gates[0].span if gates else P.fn.span)
    # the gate reads the quota on the QoS>0 path
    sess_cp = roles.method(f, SESSION, "can_publish")
    okq = False
    for bb in sess_cp.switches:
        si = sess_cp.switch_info(bb)
        subj = si["subject"]
        if subj[0] == "bin" and subj[1] in ("Ne", "Gt", "Eq") and any(x[0] == "field" and x[2] == "send_quota" for x in walk(subj)):
            zero = any(x[0] == "const" and x[2] == 0 for x in (subj[2], subj[3]))
            edge_false = si["edges"].get(False if subj[1] in ("Ne", "Gt") else True)
            if zero and edge_false is not None:
                # the quota-exhausted edge yields false
                vals = []
                for b2 in sess_cp.reach([edge_false], avoid=[si["edges"].get(True if subj[1] in ("Ne", "Gt") else False)]):
                    for s in sess_cp.blocks[b2]["stmts"]:
                        if s["k"] == "assign" and s["dst"]["l"] == 0:
                            vals.append(sess_cp.rvalue_term(s["rv"]))
                okq = bool(vals) and all(v[0] == "const" and v[2] == 0 for v in vals)
    R.ob("gate/reads-quota", okq, "can_publish(QoS>0) is false when the send quota is exhausted", where=sess_cp.span)
    okc = outq.calls_to(f, cp_code, sess_cp)
    R.ob("gate/delegates", bool(okc), "Connection::can_publish consults the session's quota gate", where=cp_b.span)


def is_inc_value(v):
    v = peel(v)
    if not is_call(v, "Ord::min", "cmp::min", "min") or len(v[3]) != 2:
        return False
    a, b = v[3]
    for x, y in ((a, b), (b, a)):
        x = peel(x)
        if is_call(x, "saturating_add", "checked_add", "wrapping_add") and len(x[3]) == 2 \
                and chain(x[3][0])[1][-1:] == ["send_quota"] and x[3][1][0] == "const" and x[3][1][2] == 1 \
                and chain(y)[1][-1:] == ["max_send_quota"]:
            return True
    return False


def rule_inc(R):
    f = R.f
    hb, sw = outq.inbound_handler(f)
    R.touch(hb)
    rem = outq.role_fn(f, "retained_removal")
    rrem = outq.role_fn(f, "release_removal")
    pkt = param_packet(hb)
    outq.clause_removal_result(R, "inc/retained-removal-reports-removal", rem, "retained")
    outq.clause_removal_result(R, "inc/release-removal-reports-removal", rrem, "pending_release")
    incs = [x for x in quota_stores(f, "send_quota") if x[0].name == hb.name]
    by_arm = {}
    for (b, bb, v, span) in incs:
        arms = arm_of(hb, sw, bb)
        arm = arms[0] if len(arms) == 1 else "+".join(arms)
        by_arm.setdefault(arm, []).append((bb, v, span))
        R.ob("inc/value/%s" % arm, is_inc_value(v),
             "a returned unit of quota is min(send_quota + 1, max_send_quota) (found %s)" % show(v), where=span)
        rule = oracle.QUOTA_RETURN.get(arm)
        R.ob("inc/arm/%s" % arm, rule is not None,
             "quota is returned only by PUBACK, PUBCOMP and a failing PUBREC (MQTT 5 §4.9); found an increment in arm %s" % arm,
             where=span)
        if rule is None:
            continue
        # dominated by the successful removal this ack accounts for
        rfun = rrem if arm == "PubComp" else rem
        _, entry, blocks = outq.handler_arm(f, arm)
        tedges = []
        for rc in outq.calls_to(f, hb, rfun):
            if rc.bb in blocks and arm_of(hb, sw, rc.bb) == [arm]:
                tedges += outq.removed_edges(f, hb, rc, rfun)
        ok, off, np_ = paths.every_path_passes(hb, entry, bb, via_edges=tedges) if tedges else (False, None, 0)
        R.ob("inc/after-removal/%s" % arm, ok,
             "the quota is returned only when this %s actually removed an in-flight entry (a stale or duplicate "
             "acknowledgement returns nothing)" % arm, where=span)
        if rule == "failure-only":
            hook = reason_hook(arm)
            leaves = paths.explore(hb, entry, lambda x: False, lambda b, bb: False, stop_pred=lambda b, x, bb=bb: x == bb,
                                   switch_hook=hook)
            stops = [lf for lf in leaves if lf["kind"] == "stop"]
            ok2 = bool(stops) and all(any(k[0] == "reason" and v == "fail" for k, v in lf["cons"].items() if isinstance(k, tuple))
                                      for lf in stops)
            R.ob("inc/only-on-failure/%s" % arm, ok2,
                 "a PUBREC returns quota only on paths where its reason code is known to be a failure (>= 0x80); a "
                 "successful PUBREC keeps the exchange, and its quota, alive until PUBCOMP", where=span)
    # completeness: each arm returns the quota on every path that removed an entry
    for arm, rule in sorted(oracle.QUOTA_RETURN.items()):
        _, entry, blocks = outq.handler_arm(f, arm)
        rfun = rrem if arm == "PubComp" else rem
        stores = [bb for (bb, v, span) in by_arm.get(arm, [])]
        tstarts = []
        for rc in outq.calls_to(f, hb, rfun):
            if rc.bb in blocks and arm_of(hb, sw, rc.bb) == [arm]:
                tstarts += [t_ for (_, t_) in outq.removed_edges(f, hb, rc, rfun)]
        if rule == "failure-only":
            hook = reason_hook(arm)
            ok = bool(stores) and bool(tstarts)
            nfail = 0
            for ts in tstarts:
                for lf in paths.explore(hb, ts, lambda x: False, lambda b, bb: bb in stores, switch_hook=hook):
                    if lf["kind"] != "return":
                        continue
                    failing = any(k[0] == "reason" and v == "fail" for k, v in lf["cons"].items() if isinstance(k, tuple))
                    if failing:
                        nfail += 1
                        if not lf["marked"]:
                            ok = False
            ok = ok and nfail > 0
            R.ob("inc/complete/%s" % arm, ok,
                 "a failing PUBREC that removed its publish returns the quota on every path", where=hb.line(entry))
        else:
            ok = bool(stores) and bool(tstarts)
            bad = None
            for ts in tstarts:
                for lf in paths.explore(hb, ts, lambda x: False, lambda b, bb: bb in stores):
                    if lf["kind"] == "return" and not lf["marked"]:
                        ok = False
                        bad = lf
            R.ob("inc/complete/%s" % arm, ok,
                 "a %s that removed its entry returns one unit of quota on every path%s"
                 % (arm, "" if bad is None else " (path %s does not)" % bad["path"][:20]), where=hb.line(entry))


def reason_hook(arm):
    """switch hook correlating all tests of the reason code of the <arm> packet (failed / success / as_result / `?`):
    they are outcomes of one predicate, keyed by the printed reason expression"""
    def hook(body, bb, si):
        for alt in phi_alts(si["subject"]):
            a = peel(alt)
            if not any(y[0] == "downcast" and y[2] == arm for y in walk(a)):
                continue
            e = si["edges"]
            if is_call(a, "ReasonCode::failed") and True in e and False in e:
                return ("reason", show(peel(a[3][0]))), {"fail": e[True], "ok": e[False]}
            if is_call(a, "ReasonCode::success") and True in e and False in e:
                return ("reason", show(peel(a[3][0]))), {"ok": e[True], "fail": e[False]}
            if is_call(a, "ReasonCode::as_result") and "Ok" in e and "Err" in e:
                return ("reason", show(peel(a[3][0]))), {"ok": e["Ok"], "fail": e["Err"]}
            if is_call(a, "core::ops::Try::branch") and a[3] and is_call(peel(a[3][0]), "ReasonCode::as_result") \
                    and "Continue" in e and "Break" in e:
                inner = peel(a[3][0])
                return ("reason", show(peel(inner[3][0]))), {"ok": e["Continue"], "fail": e["Break"]}
        return None
    return hook


def rule_negotiated(R):
    """the window is the one granted by the CONNACK of this connection"""
    roles.clause_negotiated_per_connection(R, "init", ("send_quota", "max_send_quota"))
    roles.clause_connack_walk_complete(R, "init/connack-walk-complete")


def rule_reason(R):
    """a failing PUBREC returns its window slot, a successful one does not: the split is ReasonCode::failed (MQTT 5 2.4: below 0x80) -- shared clause"""
    roles.clause_reason_predicates(R, "reason")


def rule_shared_rel(R):
    """a failing PUBREC must not open a release exchange (its PUBCOMP would return a second window slot) -- C03's rule"""
    from .c03 import rule_rel as _r
    _r(R)


def rule_inflight_count(R):
    """the count of publishes that still occupy the broker's window (taken off the fresh window at a resumed reconnect)
    covers every retained PUBLISH whatever its send progress: at that moment every entry was just re-armed to "not yet
    written", so a count that looks at the send state sees none of the packets that are about to be retransmitted"""
    f = R.f
    b = roles.method(f, OUTBOUND, "inflight_publishes")
    R.touch(b)
    reads = []
    for cb in [b] + [c for c in f.children(b) if c.kind == "closure"]:
        terms = [cb.local_term(0)] + [cb.switch_info(bb)["subject"] for bb in cb.switches if bb in cb.reachable]
        for t in terms:
            for x in walk(t):
                if isinstance(x, tuple) and x[0] == "field" and x[2] == "state" and (x[3] or "").endswith(("RetainedPacket", "PendingRelease")):
                    reads.append(show(x)[:60])
    R.ob("resume/inflight-counts-every-publish", not reads,
         "Outbound::inflight_publishes counts retained PUBLISH packets by their packet type alone, not by their send state%s"
         % ("" if not reads else " (reads %s)" % reads[0]), where=b.span)


def run(R):
    R.rule("inflight-count", rule_inflight_count)
    R.rule("rel", rule_shared_rel)
    R.rule("reason", rule_reason)
    R.rule("negotiated", rule_negotiated)
    R.rule("who", rule_who)
    R.rule("init", rule_init)
    R.rule("dec", rule_dec)
    R.rule("gate", rule_gate)
    R.rule("inc", rule_inc)
