"""C09 — what the broker decodes is exactly what the application asked to send (structural clauses)."""
from ..core import AnchorLost, chain, peel, phi_alts, is_call, walk, show, same_shape
from .. import paths, valueset, oracle, absint
from . import roles, outq, ops
from .roles import SESSION, RUNTIME
from .c04 import ret_value_on_path

EXPLANATION = (
    "Static clauses of C09 on mir_built, all by table extraction (no packet is encoded): (props) for each of the 27 "
    "Property variants the identifier (enum discriminant and the From<&Property> table), the wire type written "
    "(argument of serialize_element), the wire type read (generic argument of newtype_variant / tuple_variant) and the "
    "linear form of Property::size() agree with each other and with MQTT 5 Table 2-4; Properties::size() sums exactly "
    "the elements Properties::serialize emits in each of its three representations; (varint) Varint::encoded_len is "
    "decided by interval abstract interpretation over the 29 bit-length classes of the MQTT varint range against the "
    "varint boundaries 2^7, 2^14, 2^21; (bits) CONNECT flags, subscription options and PUBLISH flags: every `|=` "
    "contribution with its shift/mask and its guard against the MQTT 5 layouts; (connect) wiring of keep-alive, session "
    "expiry, will, auth into CONNECT and the field order of every hand-written and derived packet serializer; (len16) "
    "string / binary length prefixes come from u16::try_from with the error edge returned, never a narrowing cast. Total "
    "round-trip equality for all inputs and user payload closures are not decided."
)
ASSUMPTIONS = ["serde's derive(Serialize) emits serialize_field calls in field declaration order (checked on the generated MIR)",
               "the MqttSerializer primitives (serialize_u8/u16/u32/str/bytes) write big-endian fixed-width values (checked by their shape)"]

PROP = "properties::Property"
PID = "properties::PropertyIdentifier"


def arm_value(body, start):
    """value assigned to _0 on the (unique) path from `start` to return, or None"""
    vals = []
    for lf in paths.explore(body, start, lambda t: False, lambda b, bb: False, max_paths=64):
        if lf["kind"] == "return":
            vals.append(ret_value_on_path(body, lf["path"]))
    vals = [v for v in vals if v is not None]
    if not vals:
        return None
    if all(same_shape(v, vals[0]) for v in vals):
        return vals[0]
    return ("phi", vals)


def prop_switch(body, on_param=True):
    for bb in sorted(body.switches):
        if bb not in body.reachable:
            continue
        si = body.switch_info(bb)
        if si["enum"] == PROP and len(si["edges"]) >= 27:
            return si
    return None


def wire_of_written(f, t):
    """wire type of one serialize_element argument term"""
    x = peel(t)
    if x[0] == "agg" and x[1] == "adt":
        nm = (x[2] or "").rsplit("::", 1)[-1]
        return {"Utf8String": "utf8", "BinaryData": "binary", "Varint": "varint"}.get(nm, "?" + nm)
    if x[0] == "field":
        ty = valueset.field_type(f, x)
        return {"u8": "byte", "u16": "u16", "u32": "u32"}.get(ty, "?" + str(ty))
    return "?"


def wire_of_read(garg):
    g = garg.split("<")[0]
    return {"u8": "byte", "u16": "u16", "u32": "u32", "wire::Utf8String": "utf8", "wire::BinaryData": "binary",
            "varint::Varint": "varint"}.get(g, "?" + g)


def flatten_add(t):
    t = peel(t)
    if t[0] == "field" and t[1][0] == "bin" and t[1][1].startswith("Add") and t[2] == "0":
        return flatten_add(t[1][2]) + flatten_add(t[1][3])
    if t[0] == "bin" and t[1].startswith("Add"):
        return flatten_add(t[2]) + flatten_add(t[3])
    return [t]


def size_form(t):
    """multiset description of a size expression: ('const', n) / 'len' / 'varlen' / 'idlen'"""
    out = []
    for leaf in flatten_add(t):
        if leaf[0] == "const" and leaf[2] is not None:
            out.append(("const", leaf[2]))
        elif leaf[0] == "call" and (leaf[4] or "").rsplit("::", 1)[-1] == "len":
            out.append("len")
        elif is_call(leaf, "Varint::encoded_len"):
            arg = peel(leaf[3][0])
            inner = arg[5][0] if arg[0] == "agg" and arg[5] else arg
            if any(x[0] == "discr" for x in walk(inner)):
                out.append("idlen")
            else:
                out.append("varlen")
        else:
            out.append("?" + show(leaf)[:40])
    c = sum(x[1] for x in out if isinstance(x, tuple))
    rest = sorted(x for x in out if not isinstance(x, tuple))
    return c, rest


EXPECT_SIZE = {
    "byte": (1, ["idlen"]), "u16": (2, ["idlen"]), "u32": (4, ["idlen"]),
    "utf8": (2, ["idlen", "len"]), "binary": (2, ["idlen", "len"]),
    "utf8pair": (4, ["idlen", "len", "len"]), "varint": (0, ["idlen", "varlen"]),
}


def property_read_table(f):
    """(visitor body, {identifier: wire type read}, {identifier: [Property variants built]}, user-property pair ok)"""
    vis = f.bodies.get("<properties::PropertyVisitor<'a> as packets::_::_serde::de::Visitor<'de>>::visit_enum")
    if vis is None:
        raise AnchorLost("PropertyVisitor::visit_enum")
    vsi = None
    for bb in sorted(vis.switches):
        s2 = vis.switch_info(bb)
        if s2["enum"] == PID and len(s2["edges"]) >= 27:
            vsi = s2
    if vsi is None:
        raise AnchorLost("visit_enum:match")
    read = {}
    built = {}
    shared = len(set(vsi["edges"].values())) < len(vsi["edges"])
    for idn, tgt in vsi["edges"].items():
        if shared:
            # arms merged by or-patterns (`A | B | C => { read; build(identifier, ..) }`) with the property built by a second
            # match on the identifier: follow the paths on which the identifier is `idn`
            root0, names0 = chain(vsi["subject"])
            root0 = peel(root0)
            rd, bl = set(), set()
            nleaf = 0
            for lf in paths.explore(vis, tgt, lambda t_, root0=root0: peel(t_) == root0, lambda b_, x_: False,
                                    init_constraints={tuple(names0): idn}, max_paths=400):
                if lf["kind"] != "return":
                    continue
                nleaf += 1
                for pb in lf["path"]:
                    c_ = vis.calls.get(pb)
                    if c_ is not None and c_.is_("newtype_variant"):
                        rd.add(wire_of_read(c_.gargs[-1]))
                    elif c_ is not None and c_.is_("tuple_variant"):
                        ln = vis.operand_term(c_.args[1])
                        rd.add("utf8pair" if ln[0] == "const" and ln[2] == 2 and "UserPropertyVisitor" in " ".join(c_.gargs) else "?tuple")
                    for st_ in vis.blocks[pb]["stmts"]:
                        if st_["k"] == "assign" and "agg" in st_["rv"] and st_["rv"]["agg"].get("adt") == PROP:
                            bl.add(st_["rv"]["agg"]["variant"])
            read[idn] = next(iter(rd)) if len(rd) == 1 else "?%d reads" % len(rd)
            built[idn] = sorted(bl)
            continue
        others = [t for k, t in vsi["edges"].items() if k != idn]
        arm = vis.reach([tgt]) - vis.reach(others)
        calls = sorted([c for c in vis.calls.values() if c.bb in arm and c.is_("newtype_variant", "tuple_variant")], key=lambda c: c.bb)
        if len(calls) == 1 and calls[0].is_("newtype_variant"):
            read[idn] = wire_of_read(calls[0].gargs[-1])
        elif len(calls) == 1 and calls[0].is_("tuple_variant"):
            ln = vis.operand_term(calls[0].args[1])
            read[idn] = "utf8pair" if ln[0] == "const" and ln[2] == 2 and "UserPropertyVisitor" in " ".join(calls[0].gargs) else "?tuple"
        else:
            read[idn] = "?%d calls" % len(calls)
        aggs = [s["rv"]["agg"]["variant"] for bb in arm for s in vis.blocks[bb]["stmts"]
                if s["k"] == "assign" and "agg" in s["rv"] and s["rv"]["agg"].get("adt") == PROP]
        built[idn] = aggs
    # UserPropertyVisitor reads two Utf8Strings
    up = [b for b in f.bodies.values() if b.kind == "assoc_fn" and b.fn_name == "visit_seq" and b.self_ty and b.self_ty.startswith("properties::UserPropertyVisitor")]
    okup = len(up) == 1 and len([c for c in up[0].calls.values() if c.bb in up[0].reachable and c.is_("next_element")
                                 and any("Utf8String" in g for g in c.gargs)]) == 2
    return vis, read, built, okup, vsi


def rule_props(R):
    f = R.f
    padt = f.adts.get(PROP)
    iadt = f.adts.get(PID)
    if not padt or not iadt:
        raise AnchorLost("Property/PropertyIdentifier ADTs")
    variants = [v["name"] for v in padt["variants"]]
    R.exact("props/variants", len(variants), 27, "Property variants")
    idval = {v["name"]: v["discr"] for v in iadt["variants"]}
    # (1) identifiers
    frm = f.bodies.get("<properties::PropertyIdentifier as core::convert::From<&properties::Property<'a>>>::from")
    if frm is None:
        raise AnchorLost("From<&Property> for PropertyIdentifier")
    R.touch(frm)
    si = prop_switch(frm)
    if si is None:
        raise AnchorLost("From<&Property>:match")
    idmap = {}
    for v in variants:
        val = arm_value(frm, si["edges"][v]) if v in si["edges"] else None
        idmap[v] = val[3] if val is not None and val[0] == "agg" and val[2] == PID else None
    # (2) written wire types
    ser = f.bodies.get("<properties::Property<'_> as packets::_::_serde::Serialize>::serialize")
    if ser is None:
        raise AnchorLost("Serialize for Property")
    R.touch(ser)
    ssi = prop_switch(ser)
    if ssi is None:
        raise AnchorLost("Serialize for Property:match")
    written = {}
    for v in variants:
        tgt = ssi["edges"].get(v)
        others = [t for k, t in ssi["edges"].items() if k != v]
        # everything reachable from this variant's edge (arms may be shared by an or-pattern: `A(x) | B(x) => write(x)`)
        arm = ser.reach([tgt]) if tgt is not None else set()
        elems = sorted([c for c in ser.calls.values() if c.bb in arm and c.is_("serialize_element")], key=lambda c: c.bb)
        # the element's type as the compiler resolved it (serialize_element::<T>); the term only as a fallback
        ws = []
        for c in elems:
            g_ = wire_of_read(c.gargs[-1]) if c.gargs else "?"
            ws.append(g_ if not g_.startswith("?") else wire_of_written(f, ser.operand_term(c.args[1])))
        # the element must be the variant's own payload
        own = all(any(x[0] == "downcast" and x[2] == v for x in walk(ser.operand_term(c.args[1]))) for c in elems)
        written[v] = ("utf8pair" if ws == ["utf8", "utf8"] else (ws[0] if len(ws) == 1 else "?" + ",".join(ws))) if own else "?foreign"
    # the identifier element precedes the match and is Varint(id as u32)
    pre = [c for c in ser.calls.values() if c.bb in ser.reachable and c.is_("serialize_element") and ser.dominates(c.bb, ssi["bb"])]
    okid = len(pre) == 1 and wire_of_written(f, ser.operand_term(pre[0].args[1])) == "varint" and \
        any(x[0] == "discr" for x in walk(ser.operand_term(pre[0].args[1]))) and \
        any(is_call(x, "Into::into", "From::from") for x in walk(ser.operand_term(pre[0].args[1])))
    R.ob("props/identifier-first", okid,
         "every property is written as Varint(identifier) followed by its value", where=ser.span)
    # (3) read wire types
    vis, read, built, okup, vsi = property_read_table(f)
    R.touch(vis)
    # (4) size forms
    size = f.bodies.get("properties::Property::<'_>::size")
    if size is None:
        raise AnchorLost("Property::size")
    R.touch(size)
    zsi = prop_switch(size)
    if zsi is None:
        raise AnchorLost("Property::size:match")
    n = 0
    for v in variants:
        n += 1
        oid, owire = oracle.PROPERTY_BY_NAME.get(v, (None, None))
        R.ob("props/id/%s" % v, idmap.get(v) == v and idval.get(v) == oid,
             "Property::%s maps to PropertyIdentifier::%s whose value is 0x%02X per MQTT 5 Table 2-4 (maps to %s = %s)"
             % (v, v, oid or 0, idmap.get(v), idval.get(idmap.get(v) or "")))
        R.ob("props/write/%s" % v, written.get(v) == owire,
             "Property::%s is written as %s (MQTT 5: %s)" % (v, written.get(v), owire), where=ser.span)
        R.ob("props/read/%s" % v, read.get(v) == owire and built.get(v) == [v] and (owire != "utf8pair" or okup),
             "identifier %s is read as %s and yields Property::%s (MQTT 5: %s; built %s)" % (v, read.get(v), v, owire, built.get(v)),
             where=vis.span)
        val = arm_value(size, zsi["edges"][v]) if v in zsi["edges"] else None
        form = size_form(val) if val is not None else None
        R.ob("props/size/%s" % v, form == EXPECT_SIZE.get(owire),
             "Property::%s.size() must be identifier length + %s (extracted form: %s)"
             % (v, {"byte": "1", "u16": "2", "u32": "4", "utf8": "2 + len", "binary": "2 + len", "utf8pair": "(2 + len) + (2 + len)",
                    "varint": "varint length of the value"}.get(owire), form), where=size.span)
    # decoder rejects every identifier without a Property (Invalid) and nothing else
    rest = vsi.get("otherwise_variants", [])
    R.ob("props/read/unknown", rest == ["Invalid"],
         "only the placeholder identifier falls through to the decoder's error arm (falls through: %s)" % rest, where=vis.span)


def rule_block(R):
    """Properties::size vs Properties::serialize per representation"""
    f = R.f
    PD = "properties::PropertiesData"
    size = [b for b in f.bodies.values() if b.kind == "assoc_fn" and b.fn_name == "size" and b.self_ty and b.self_ty.startswith("properties::Properties<")]
    ser = f.bodies.get("<properties::Properties<'_> as packets::_::_serde::Serialize>::serialize")
    if len(size) != 1 or ser is None:
        raise AnchorLost("Properties::size / serialize")
    size = size[0]
    R.touch(size)
    R.touch(ser)

    def pd_switch(b):
        for bb in sorted(b.switches):
            si = b.switch_info(bb)
            if si["enum"] == PD:
                return si
        return None
    zs, ss = pd_switch(size), pd_switch(ser)
    if zs is None or ss is None:
        raise AnchorLost("PropertiesData matches")
    want = {"Slice": {"0"}, "Encoded": {"0"}, "WithCorrelation": {"correlation", "properties"}}
    for v in ("Slice", "Encoded", "WithCorrelation"):
        for nm, b, si in (("size", size, zs), ("serialize", ser, ss)):
            tgt = si["edges"].get(v)
            others = [t for k, t in si["edges"].items() if k != v]
            arm = b.reach([tgt]) - b.reach(others) if tgt is not None else set()
            used = set()
            for bb in arm:
                for c in ([b.calls[bb]] if bb in b.calls else []):
                    for a in c.args:
                        for x in walk(b.operand_term(a)):
                            if x[0] == "field" and x[1][0] == "downcast" and x[1][2] == v:
                                used.add(x[2])
                for s in b.blocks[bb]["stmts"]:
                    if s["k"] == "assign":
                        for x in walk(b.rvalue_term(s["rv"])):
                            if x[0] == "field" and x[1][0] == "downcast" and x[1][2] == v:
                                used.add(x[2])
            if nm == "size":
                # what counts is what flows into the returned sum
                val = arm_value(b, tgt) if tgt is not None else None
                scanned = used
                used = set()
                if val is not None:
                    for x in walk(val):
                        if x[0] == "field" and x[1][0] == "downcast" and x[1][2] == v:
                            used.add(x[2])
                    # an explicit accumulation loop: the list it walks is not part of the value term (the iterator is
                    # loop state) -- fall back to what the arm's statements and calls touch
                    if used != want[v] and any(b.calls[x_].is_("core::iter::Iterator::next") for x_ in arm if x_ in b.calls):
                        used = scanned
            R.ob("block/%s/%s" % (nm, v), used == want[v],
                 "Properties::%s in representation %s accounts for exactly the fields %s (uses %s): the declared property "
                 "length equals the bytes emitted" % (nm, v, sorted(want[v]), sorted(used)), where=b.span)
    # ... and what is added up are encoded sizes: every summand of the Slice / WithCorrelation arms is `Property::size` of
    # one property, or the *sum* of `Property::size` over a list -- never a number of elements
    from .ops import _closure_defs
    def summands(t):
        t = peel(t)
        if t[0] == "field" and peel(t[1])[0] == "bin":
            t = peel(t[1])
        if t[0] == "bin" and t[1].startswith("Add"):
            return summands(t[2]) + summands(t[3])
        return [t]
    def is_size_call(t):
        t = peel(t)
        return t[0] == "call" and (t[2] or "").endswith("::size") and "Propert" in (t[2] or "")
    for v in ("Slice", "WithCorrelation"):
        val = arm_value(size, zs["edges"][v]) if zs["edges"].get(v) is not None else None
        okv, why = val is not None, ""
        alts_ = []
        for alt_ in (phi_alts(val) if val is not None else []):
            alts_ += summands(alt_)
        # an explicit accumulation loop in the arm (`for p in list { total += p.size() }`): path values stop at the loop
        # head, so the loop body is read directly -- it must call Property::size on the item and must not count
        tgt_ = zs["edges"].get(v)
        arm_ = (size.reach([tgt_]) - size.reach([t_ for k_, t_ in zs["edges"].items() if k_ != v])) if tgt_ is not None else set()
        acalls = [size.calls[x_] for x_ in arm_ if x_ in size.calls]
        if any(c_.is_("core::iter::Iterator::next") for c_ in acalls):
            if any(is_size_call(size.call_term(c_.bb)) for c_ in acalls) and not any(c_.is_("Iterator::count", "count", "len") for c_ in acalls):
                alts_ = [a_ for a_ in alts_ if not (peel(a_)[0] == "const")]
            else:
                alts_.append(("unknown", "loop without Property::size"))
        for sm in alts_:
            if is_size_call(sm):
                continue
            if peel(sm)[0] == "const" and peel(sm)[2] == 0:
                continue       # the accumulator's start value
            if is_call(sm, "Iterator::sum", "sum") and sm[3]:
                maps = [x for x in walk(sm[3][0]) if isinstance(x, tuple) and is_call(x, "Iterator::map", "map") and len(x[3]) == 2]
                good = False
                for mp in maps:
                    fa = peel(mp[3][1])
                    # `.map(Property::size)`: the function item itself
                    if fa[0] == "const" and len(fa) > 4 and isinstance(fa[4], str) and fa[4].startswith("fn:") \
                            and fa[4].endswith("::size") and "Propert" in fa[4]:
                        good = True
                    for d in _closure_defs(mp[3][1]):
                        cb = f.bodies.get(d)
                        if cb is not None and is_size_call(cb.local_term(0)):
                            good = True
                if good:
                    continue
            if any(isinstance(x, tuple) and x[0] == "loop" for x in walk(sm)) and any(isinstance(x, tuple) and is_size_call(x) for x in walk(sm)) \
                    and not any(isinstance(x, tuple) and is_call(x, "Iterator::count", "count", "len") for x in walk(sm)):
                continue       # an explicit accumulation loop over Property::size
            okv, why = False, show(sm)[:100]
        R.ob("block/size-is-a-sum/%s" % v, okv,
             "Properties::size in representation %s adds up encoded sizes (Property::size of each property), not element "
             "counts%s" % (v, "" if okv else " — summand " + why), where=size.span)
    # `_len` = Varint(self.size() as u32) is the first field
    fields = sorted([c for c in ser.calls.values() if c.bb in ser.reachable and c.is_("serialize_field")], key=lambda c: c.bb)
    first = [c for c in fields if ser.dominates(c.bb, ss["bb"])]
    ok = len(first) == 1 and any(is_call(x, "size") for x in walk(ser.operand_term(first[0].args[2]))) and \
        wire_of_written(f, ser.operand_term(first[0].args[2])) == "varint"
    R.ob("block/length-prefix", ok, "the property block starts with Varint(size())", where=ser.span)
    # Encoded size is the block length
    val = arm_value(size, zs["edges"]["Encoded"])
    R.ob("block/encoded-size", val is not None and is_call(peel(val), "len"), "an encoded block's size is its byte length", where=size.span)


def rule_varint(R):
    f = R.f
    b = f.bodies.get("varint::Varint::encoded_len")
    if b is None:
        raise AnchorLost("Varint::encoded_len")
    R.touch(b)

    def inp(p):
        pr = p["proj"]
        return p["l"] == 1 and len(pr) >= 1 and isinstance(pr[-1], dict) and pr[-1].get("name") == "0" and pr[-1].get("of") == "varint::Varint"
    I = absint.Interp(b, inp)
    bad = []
    undecided = []
    n = 0
    for cls in absint.u32_classes():
        if cls[0] > 0x0FFFFFFF:
            continue
        n += 1
        want = 1 if cls[1] <= 0x7F else (2 if cls[1] <= 0x3FFF else (3 if cls[1] <= 0x1FFFFF else 4))
        got = I.run(cls)
        if got is absint.TOP or got[0] != got[1]:
            undecided.append(cls)
        elif got[0] != want:
            bad.append((cls, got[0], want))
    if undecided and not bad:
        R.undecide("varint/encoded-len", "encoded_len could not be evaluated exactly on %d bit-length classes" % len(undecided))
        return
    R.ob("varint/encoded-len", not bad,
         "Varint::encoded_len must be 1/2/3/4 for values below 2^7 / 2^14 / 2^21 / 2^28 (interval abstract interpretation "
         "over %d bit-length classes)%s" % (n, "" if not bad else ": for values in [%d, %d] it yields %d, the encoder emits %d bytes"
                                            % (bad[0][0][0], bad[0][0][1], bad[0][1], bad[0][2])), where=b.span)


def contributions(f, body, flag_local_pred):
    """`flags |= X` style contributions: list of (value set or (shift, source), guards)"""
    out = []
    for bb, j, s in body.assigns():
        if bb not in body.reachable or s["dst"]["proj"] or not flag_local_pred(s["dst"]["l"]):
            continue
        rv = s["rv"]
        if "bin" in rv and rv["bin"] == "BitOr":
            a = body.operand_term(rv["a"])
            b2 = body.operand_term(rv["b"])
            x = b2 if chain(a)[0][0] in ("loop", "phi", "const", "bin", "cast") or True else a
            # the non-flags side
            pl = rv["a"].get("copy") or rv["a"].get("move")
            if pl is not None and not pl["proj"] and flag_local_pred(pl["l"]):
                x = b2
            else:
                x = a
            out.append((bb, x, s["span"]))
    return out


def guards_of(body, bb):
    """(subject text, label) of the switches whose edge the block is control dependent on (dominating edges)"""
    gs = []
    for sbb in body.switches:
        if sbb not in body.reachable:
            continue
        si = body.switch_info(sbb)
        for lab, tgt in si["edges"].items():
            if body.must_pass([0], [bb], via_edges=[(sbb, tgt)])[0]:
                gs.append((show(si["subject"]), lab))
    return gs


def shift_form(f, x):
    """(mask/value set, shift) of a contribution"""
    x = peel(x)
    vs = valueset.evaluate(f, x)
    return vs


def _suboptions_by_contribution(R, f, so, root, table_bad):
    """the reading by single contributions (`value |= BIT` under a guard): names the bit that is wrong"""
    inits = [so.rvalue_term(s["rv"]) for bb, j, s in so.assigns() if s["dst"]["l"] == root and not s["dst"]["proj"]
             and not ("bin" in s["rv"] and s["rv"]["bin"] == "BitOr")]
    oki = len(inits) == 1 and valueset.evaluate(f, inits[0]) == {0, 1, 2} and any(x[0] == "field" and x[2] == "maximum_qos" for x in walk(inits[0]))
    R.ob("bits/suboptions/qos", oki, "subscription options bits 1-0 = maximum QoS (initial value %s)" % (show(inits[0]) if inits else None), where=so.span)
    got = []
    for (bb, x, span) in contributions(f, so, lambda l: l == root):
        got.append((frozenset(valueset.evaluate(f, x) or []), " & ".join("%s=%s" % (g[0][-40:], g[1]) for g in guards_of(so, bb)), x))
    want = [({1 << 2}, "no_local=True", "no-local: bit 2"), ({1 << 3}, "retain_as_published=True", "retain-as-published: bit 3"),
            ({0, 1 << 4, 2 << 4}, "", "retain handling: bits 5-4")]
    used = set()
    for (vals, needle, desc) in want:
        hit = None
        for i, (vs, g, x) in enumerate(got):
            if i not in used and vs == frozenset(vals) and needle in g:
                hit = i
                break
        if hit is not None:
            used.add(hit)
        R.ob("bits/suboptions/%s" % desc.split(":")[0], hit is not None,
             "subscription options [MQTT 5 3.8.3.1] — %s (found %s)" % (desc, [(sorted(g[0]), g[1]) for g in got]), where=so.span)
    R.ob("bits/suboptions/no-extra", len(used) == len(got), "no other contribution to the subscription options byte", where=so.span)
    okrh = any(vs == frozenset({0, 16, 32}) and any(y[0] == "field" and y[2] == "retain_behavior" for y in walk(x)) for (vs, g, x) in got)
    R.ob("bits/suboptions/retain-handling-source", okrh, "retain handling bits come from retain_behavior", where=so.span)


def rule_bits(R):
    f = R.f
    # CONNECT flags
    cs = f.bodies.get("<packets::Connect<'_> as packets::_::_serde::Serialize>::serialize")
    if cs is None:
        raise AnchorLost("Serialize for Connect")
    R.touch(cs)
    flags_field = [c for c in cs.calls.values() if c.bb in cs.reachable and c.is_("serialize_field")
                   and cs.operand_term(c.args[1])[0] == "const" and cs.operand_term(c.args[1])[4] == "flags"]
    if len(flags_field) != 1:
        raise AnchorLost("Connect:flags-field")
    fa = flags_field[0].args[2]
    # the local behind `&flags`
    fl = cs.root_local(fa)
    if fl is None:
        raise AnchorLost("Connect:flags-local")
    # decision table: for every feasible path to the point where the flags byte is serialised, which conditions held
    # (clean_start, will present, will retained, credentials present) and which values the byte can have.  One reading for
    # `flags |= BIT` statements, for `a | b | c` of conditional values, and for a helper that computes the byte.
    from .. import paths as _paths
    stop_bb = flags_field[0].bb

    def cond_of(si):
        r, n = chain(si["subject"], extra=("Option::<T>::as_ref", "Option::<T>::as_mut"))
        s_ = peel(si["subject"])
        if n[-1:] == ["clean_start"]:
            return "clean"
        if si["enum"] == "core::option::Option" and n[-1:] == ["will"]:
            return "will"
        if si["enum"] == "core::option::Option" and n[-1:] == ["auth"]:
            return "auth"
        def reads_will_retain(t_):
            # through the accessor, or the will's field itself (the bits may be assembled by a method of the will)
            return any(is_call(x, "retained_flag") or (x[0] == "field" and x[2] in ("retained", "retain") and (x[3] or "").endswith("Will"))
                       for x in walk(t_) if isinstance(x, tuple))
        if (si["enum"] or "").endswith("Retain") and reads_will_retain(s_):
            return "retain-enum"
        if is_call(s_, "PartialEq::eq", "eq") and reads_will_retain(s_) \
                and any(x[0] == "agg" and x[3] in ("Retained", "NotRetained") for x in walk(s_)):
            return "retain-eq:" + [x[3] for x in walk(s_) if x[0] == "agg" and x[3] in ("Retained", "NotRetained")][0]
        return None
    rows = []
    undecided = None
    for lf in _paths.explore(cs, 0, lambda t: False, lambda b, x: False, stop_pred=lambda b, x: x == stop_bb, max_paths=4000):
        if lf["kind"] == "limit":
            undecided = "path limit"
        if lf["kind"] != "stop":
            continue
        p_ = lf["path"]
        conds = {}
        for i in range(len(p_) - 1):
            if p_[i] in cs.switches:
                si = cs.switch_info(p_[i])
                c_ = cond_of(si)
                if c_ is None:
                    continue
                lab = [k for k, t in si["edges"].items() if t == p_[i + 1]]
                lab = lab[0] if lab else "otherwise"
                if c_ == "clean":
                    conds["clean"] = (lab is True)
                elif c_ in ("will", "auth"):
                    conds[c_] = (lab == "Some") if lab in ("Some", "None") else None
                elif c_ == "retain-enum":
                    conds["retain"] = (lab == "Retained") if lab in ("Retained", "NotRetained") else (("Retained" in si.get("otherwise_variants", [])) if lab == "otherwise" else None)
                else:
                    which = c_.split(":")[1]
                    conds["retain"] = (lab is True) if which == "Retained" else (lab is False)
        v = _paths.value_on_path(cs, p_[:-1] + [stop_bb], fl)
        vs = valueset.evaluate(f, v) if v is not None else None
        rows.append((conds, vs, v))
    qos_src = any(any(is_call(y, "qos_level") or (isinstance(y, tuple) and y[0] == "field" and y[2] == "qos" and (y[3] or "").endswith("Will"))
                      for y in walk(v)) for (c_, vs, v) in rows if v is not None and c_.get("will"))

    def check(desc, pred):
        bad = None
        for (c_, vs, v) in rows:
            if vs is None:
                bad = "value not evaluable on a path with %s" % c_
                break
            why = pred(c_, vs)
            if why:
                bad = "%s on a path with %s (values %s)" % (why, c_, sorted(vs)[:8])
                break
        R.ob("bits/connect/%s" % desc.split(":")[0].replace(" ", "-"), bool(rows) and bad is None and undecided is None,
             "CONNECT flags [MQTT 5 3.1.2.3] — %s%s" % (desc, "" if bad is None else " — " + bad), where=cs.span)

    def bit_iff(bit, cond_name, when_unknown=None):
        def pred(c_, vs):
            want = c_.get(cond_name)
            if cond_name == "retain" and not c_.get("will"):
                want = False
            if want is None:
                want = when_unknown
            if want is None:
                return None
            for x in vs:
                if bool(x & bit) != bool(want):
                    return "bit %d is %s although %s=%s" % (bit.bit_length() - 1, "set" if x & bit else "clear", cond_name, want)
            return None
        return pred
    R.ob("bits/connect/init", bool(rows) and all(vs is not None and all((x & 1) == 0 for x in vs) for (c_, vs, v) in rows),
         "CONNECT flags start from 0 (bit 0 reserved = 0)", where=cs.span)
    check("clean start: bit 1, when clean_start", bit_iff(1 << 1, "clean", when_unknown=None))
    check("will flag: bit 2, when a will is configured", bit_iff(1 << 2, "will", when_unknown=False))

    def qos_pred(c_, vs):
        if c_.get("will"):
            got = set(x & 0x18 for x in vs)
            return None if got == {0, 8, 16} else "will QoS bits are %s, expected the will's QoS in bits 4-3 {0, 8, 16}" % sorted(got)
        return None if all((x & 0x18) == 0 for x in vs) else "will QoS bits set without a will"
    check("will QoS: bits 4-3 = will QoS, when a will is configured", qos_pred)
    check("will retain: bit 5, when the will is retained", bit_iff(1 << 5, "retain", when_unknown=False))
    check("password flag: bit 6, when auth is configured", bit_iff(1 << 6, "auth", when_unknown=False))
    check("user name flag: bit 7, when auth is configured", bit_iff(1 << 7, "auth", when_unknown=False))
    R.ob("bits/connect/no-extra", bool(rows) and all(c_.get("clean") is not None for (c_, vs, v) in rows),
         "every path to the serialisation of the flags byte decided clean_start, will and credentials (%d paths)" % len(rows), where=cs.span)
    R.ob("bits/connect/will-qos-source", qos_src, "the will QoS bits are taken from the configured will's QoS", where=cs.span)

    # subscription options
    so = f.bodies.get("<types::SubscriptionOptions as packets::_::_serde::Serialize>::serialize")
    if so is None:
        raise AnchorLost("Serialize for SubscriptionOptions")
    R.touch(so)
    u8c = so.find_calls("serialize_u8")
    if len(u8c) != 1:
        raise AnchorLost("SubscriptionOptions:serialize_u8")
    root = so.root_local(u8c[0].args[1])
    if root is None:
        raise AnchorLost("SubscriptionOptions:value-local")
    # truth table first: for every combination of the four option fields the byte handed to serialize_u8 is
    # qos | no_local << 2 | retain_as_published << 3 | retain_handling << 4  [MQTT 5 3.8.3.1] -- one reading for `|=` under
    # an `if`, `u8::from(flag) << n`, and a helper that packs the byte
    SO = "types::SubscriptionOptions"
    table_ok, table_bad, rows_ = True, None, 0
    for q_ in (0, 1, 2):
        for nl_ in (0, 1):
            for rap_ in (0, 1):
                for rh_ in (0, 1, 2):
                    env_ = {(SO, "maximum_qos"): {q_}, (SO, "no_local"): {nl_}, (SO, "retain_as_published"): {rap_}, (SO, "retain_behavior"): {rh_}}
                    vs_ = valueset.evaluate_fn(f, so, env_, at=(u8c[0].bb, root))
                    rows_ += 1
                    want_ = q_ | (nl_ << 2) | (rap_ << 3) | (rh_ << 4)
                    if vs_ != {want_}:
                        table_ok = False
                        table_bad = table_bad or (q_, nl_, rap_, rh_, sorted(vs_) if vs_ else vs_, want_)
    if table_ok:
        for key_, msg_ in (("qos", "subscription options bits 1-0 = maximum QoS"), ("no-local", "no-local: bit 2"),
                           ("retain-as-published", "retain-as-published: bit 3"), ("retain handling", "retain handling: bits 5-4"),
                           ("no-extra", "no other contribution to the subscription options byte"),
                           ("retain-handling-source", "retain handling bits come from retain_behavior")):
            R.ob("bits/suboptions/%s" % key_, True, "subscription options [MQTT 5 3.8.3.1] — %s (truth table over %d combinations)" % (msg_, rows_), where=so.span)
    else:
        _suboptions_by_contribution(R, f, so, root, table_bad)

    # PUBLISH flags
    pf = [b for b in f.bodies.values() if b.fn_name == "fixed_header_flags" and b.self_ty and b.self_ty.startswith("packets::PublishHeader")]
    if len(pf) != 1:
        raise AnchorLost("PublishHeader::fixed_header_flags")
    pf = pf[0]
    # truth table: for every combination of the header's fields the function returns exactly
    # (qos << 1) | retained | (dup << 3)  [MQTT 5 3.3.1].  One reading for `flags |= BIT` under an `if`, conditional
    # values or-ed together, arithmetic on the booleans and a `match`.
    PH = "packets::PublishHeader"
    radt = f.adts.get("Retain") or f.adts.get("types::Retain") or {}
    rdis = dict((v["name"], v["discr"]) for v in radt.get("variants", []))
    qadt = f.adts.get("QoS") or f.adts.get("types::QoS") or {}
    qdis = dict((v["name"], v["discr"]) for v in qadt.get("variants", []))
    R.ob("bits/publish/anchors", set(rdis) == {"Retained", "NotRetained"} and sorted(qdis.values()) == [0, 1, 2],
         "Retain has the variants Retained / NotRetained and QoS the values 0, 1, 2 (found %s, %s)" % (rdis, qdis), where=pf.span)
    bad = {"qos": None, "retain": None, "dup": None, "no-extra": None}
    rows = 0
    if set(rdis) == {"Retained", "NotRetained"} and sorted(qdis.values()) == [0, 1, 2]:
        for q in (0, 1, 2):
            for rname in ("Retained", "NotRetained"):
                for d in (0, 1):
                    env = {(PH, "qos"): {q}, (PH, "retain"): {rdis[rname]}, (PH, "dup"): {d}}
                    vs = valueset.evaluate_fn(f, pf, env)
                    rows += 1
                    what = "qos=%d retain=%s dup=%d -> %s" % (q, rname, d, sorted(vs) if vs is not None else "not evaluable")
                    if vs is None or len(vs) != 1:
                        for k_ in bad:
                            bad[k_] = bad[k_] or what
                        continue
                    x = next(iter(vs))
                    if (x >> 1) & 3 != q:
                        bad["qos"] = bad["qos"] or what
                    if (x & 1) != int(rname == "Retained"):
                        bad["retain"] = bad["retain"] or what
                    if (x >> 3) & 1 != d:
                        bad["dup"] = bad["dup"] or what
                    if x & ~0x0F:
                        bad["no-extra"] = bad["no-extra"] or what
    R.ob("bits/publish/qos", rows == 12 and bad["qos"] is None, "PUBLISH flags bits 2-1 = QoS (%s)" % (bad["qos"] or "12 rows"), where=pf.span)
    R.ob("bits/publish/retain", rows == 12 and bad["retain"] is None,
         "PUBLISH flags bit 0 = RETAIN exactly when retained (%s)" % (bad["retain"] or "12 rows"), where=pf.span)
    R.ob("bits/publish/dup", rows == 12 and bad["dup"] is None,
         "PUBLISH flags bit 3 = DUP exactly when dup (%s)" % (bad["dup"] or "12 rows"), where=pf.span)
    R.ob("bits/publish/no-extra", rows == 12 and bad["no-extra"] is None,
         "no other contribution to the PUBLISH flags (%s)" % (bad["no-extra"] or "12 rows"), where=pf.span)


def field_sequence(body):
    """(key, value term, block) of serialize_field calls in control-flow order"""
    calls = [c for c in body.calls.values() if c.bb in body.reachable and c.is_("SerializeStruct::serialize_field", "serialize_field")]
    # order by dominance / reachability: a precedes b if b is reachable after a and not vice versa
    def before(a, b):
        return b.bb in body.after(a.bb) and a.bb not in body.after(b.bb)
    import functools
    calls.sort(key=functools.cmp_to_key(lambda a, b: -1 if before(a, b) else (1 if before(b, a) else 0)))
    out = []
    for c in calls:
        k = body.operand_term(c.args[1])
        out.append((k[4] if k[0] == "const" else "?", body.operand_term(c.args[2]), c))
    return out


def rule_connect(R):
    f = R.f
    call, hb, hcode = roles.handshake(f)
    aggs = [hcode.rvalue_term(s["rv"]) for bb, j, s in hcode.assigns() if bb in hcode.reachable and "agg" in s["rv"]
            and s["rv"]["agg"].get("adt") == "packets::Connect"]
    if len(aggs) != 1:
        raise AnchorLost("Connect aggregate")
    fl = dict(zip(aggs[0][4], aggs[0][5]))
    ka = fl["keepalive"]
    okk = ka[0] == "cast" and ka[3] == "u16" and is_call(peel(ka[2]), "as_secs") and chain(peel(ka[2])[3][0])[1][-2:] == ["runtime", "keepalive_interval"]
    R.ob("connect/keepalive", okk, "CONNECT keep-alive = the session's keep-alive interval in seconds (found %s)" % show(ka), where=hb.span)
    R.ob("connect/will", chain(fl["will"], extra=("Clone::clone", "clone"))[1][-1:] == ["will"] and
         any(x[0] == "field" and x[2] == "will" and x[3] == SESSION for x in walk(fl["will"])),
         "CONNECT carries the configured will (found %s)" % show(fl["will"]), where=hb.span)
    R.ob("connect/auth", chain(fl["auth"])[1][-1:] == ["auth"], "CONNECT carries the configured user name / password", where=hb.span)
    props = fl["properties"]
    kinds = {}
    for x in walk(props):
        if x[0] == "agg" and x[2] == "properties::Property":
            kinds[x[3]] = x[5][0]
    oks = "SessionExpiryInterval" in kinds and chain(kinds["SessionExpiryInterval"])[1][-1:] == ["session_expiry_interval"]
    R.ob("connect/session-expiry", oks, "CONNECT SessionExpiryInterval = the configured value", where=hb.span)
    R.ob("connect/property-set", sorted(kinds) == ["MaximumPacketSize", "ReceiveMaximum", "SessionExpiryInterval"],
         "CONNECT properties are MaximumPacketSize, SessionExpiryInterval, ReceiveMaximum (found %s)" % sorted(kinds), where=hb.span)
    # field orders
    orders = {
        "<packets::Connect<'_> as packets::_::_serde::Serialize>::serialize":
            ["protocol_name", "protocol_version", "flags", "keep_alive", "properties", "client_id", "will", "user_name", "password"],
        "<will::Will<'_> as packets::_::_serde::Serialize>::serialize": ["properties", "topic", "data"],
        "<packets::Unsubscribe<'_> as packets::_::_serde::Serialize>::serialize": ["packet_id", "properties", "topics"],
    }
    for name, want in orders.items():
        b = f.bodies.get(name)
        if b is None:
            raise AnchorLost("serializer:" + name)
        seq = field_sequence(b)
        keys = [k for k, v, c in seq]
        R.ob("connect/order/%s" % name.split("::")[1].split("<")[0], keys == want,
             "field order of %s is %s (found %s)" % (name.split(" as ")[0].strip("<"), want, keys), where=b.span)
        # each field serialises the member of the same meaning
        if "Connect" in name:
            vals = {k: v for k, v, c in seq}
            okv = vals.get("protocol_name") is not None and any(x[0] == "const" and x[4] == "MQTT" for x in walk(vals["protocol_name"]))
            okv = okv and any(x[0] == "const" and x[2] == 5 for x in walk(vals.get("protocol_version", ("unknown",))))
            okv = okv and chain(vals.get("keep_alive", ("unknown",)))[1][-1:] == ["keepalive"]
            okv = okv and chain(vals.get("client_id", ("unknown",)))[1][-1:] == ["client_id"]
            okv = okv and any(is_call(x, "user_name") for x in walk(vals.get("user_name", ("unknown",))))
            okv = okv and any(is_call(x, "password") for x in walk(vals.get("password", ("unknown",))))
            R.ob("connect/values", okv, "CONNECT fields: protocol name \"MQTT\", version 5, keep-alive, client id, user name, password "
                 "each serialise the member of that meaning", where=b.span)
    # derived serializers: declaration order
    derived = {
        "packets::PublishHeader": ["topic", "packet_id", "properties"],
        "packets::Subscribe": ["packet_id", "properties", "topics"],
        "packets::PubAck": ["packet_id", "reason"], "packets::PubRec": ["packet_id", "reason"],
        "packets::PubRel": ["packet_id", "reason"], "packets::PubComp": ["packet_id", "reason"],
        "packets::Disconnect": ["reason_code", "properties"],
        "packets::ReasonData": ["code", "properties"],
        "types::TopicFilter": ["topic", "options"],
    }
    for adt, want in derived.items():
        cand = [b for b in f.bodies.values() if b.fn_name == "serialize" and b.trait and b.trait.endswith("Serialize")
                and b.self_ty and b.self_ty.split("<")[0] == adt and b.kind == "assoc_fn"]
        if len(cand) != 1:
            R.ob("connect/order/%s" % adt.split("::")[-1], False, "serializer of %s not found" % adt)
            continue
        seq = field_sequence(cand[0])
        keys = [k for k, v, c in seq]
        members = [chain(v)[1][-1:] for k, v, c in seq]
        R.ob("connect/order/%s" % adt.split("::")[-1], keys == want,
             "field order of %s is %s (found %s)" % (adt, want, keys), where=cand[0].span)


def _len16_guarded(b):
    for bb in sorted(b.switches):
        if bb not in b.reachable:
            continue
        si = b.switch_info(bb)
        sj = peel(si["subject"])
        if sj[0] != "bin" or sj[1] not in ("Lt", "Le", "Gt", "Ge"):
            continue
        for lab in (True, False):
            te, oe = si["edges"].get(lab), si["edges"].get(not lab)
            if te is None or oe is None:
                continue
            region = b.reach([te], avoid=[oe]) - b.reach([oe], avoid=[te])
            vals = [b.rvalue_term(st["rv"]) for x in region for st in b.blocks[x]["stmts"]
                    if st["k"] == "assign" and not st["dst"]["proj"] and "agg" in st["rv"] and (st["rv"]["agg"].get("adt") or "").endswith("Result")]
            if not vals or not all(v[0] == "agg" and v[3] == "Err" for v in vals):
                continue
            op = sj[1] if lab else {"Lt": "Ge", "Le": "Gt", "Gt": "Le", "Ge": "Lt"}[sj[1]]
            a, c = _linear(sj[2]), _linear(sj[3])
            if a is None or c is None:
                continue
            if op in ("Gt", "Ge"):
                a, c = c, a
                op = {"Gt": "Lt", "Ge": "Le"}[op]
            e = dict(a)
            for k, v in c.items():
                e[k] = e.get(k, 0) - v
            if op == "Le":
                e[1] = e.get(1, 0) - 1
            e = {k: v for k, v in e.items() if v != 0}
            rest = {k: v for k, v in e.items() if k != 1}
            if e.get(1) == 65535 and len(rest) == 1 and list(rest.values())[0] == -1 and "len(" in str(list(rest.keys())[0]):
                # every field write lies behind the accepting edge
                fields = [c_.bb for c_ in b.calls.values() if c_.bb in b.reachable and c_.is_("serialize_field", "SerializeStruct::serialize_field")]
                if fields and all(b.must_pass([0], [fb], via_edges=[(bb, oe)])[0] for fb in fields):
                    return True
    return False


def rule_len16(R):
    f = R.f
    for adt in ("wire::Utf8String", "wire::BinaryData"):
        cand = [b for b in f.bodies.values() if b.fn_name == "serialize" and b.trait and b.trait.endswith("Serialize")
                and b.self_ty and b.self_ty.split("<")[0] == adt and b.kind == "assoc_fn"]
        if len(cand) != 1:
            raise AnchorLost("serializer:" + adt)
        b = cand[0]
        R.touch(b)
        seq = field_sequence(b)
        keys = [k for k, v, c in seq]
        ok = len(seq) == 2 and keys[0] == "_len"
        if ok:
            lv = seq[0][1]
            has_try = any(is_call(x, "TryFrom::try_from", "try_from") and "u16" in " ".join(b.calls[x[1]].gargs) for x in walk(lv) if x[0] == "call")
            has_cast = any(x[0] == "cast" and x[1] == "IntToInt" for x in walk(lv))
            of_len = any(is_call(x, "len") for x in walk(lv))
            data = seq[1][1]
            ok = has_try and not has_cast and of_len and chain(data)[1][-1:] == ["0"]
            # the conversion error is returned (a `?` on map_err(try_from))
            qs = b.q_edges(lambda x: any(is_call(y, "try_from") for y in walk(x)))
            ok = ok and bool(qs)
            if not ok and has_cast and not has_try and of_len and chain(data)[1][-1:] == ["0"]:
                # the explicit form: `if len > 65535 { return Err(..) }` and then `len as u16` -- the refusal, read as a
                # linear inequality, is exactly `65535 - len < 0` and dominates the field writes
                ok = _len16_guarded(b)
        R.ob("len16/%s" % adt.split("::")[-1], ok,
             "%s writes its length through u16::try_from(len) with the error edge returned (no narrowing cast), then the data"
             % adt, where=b.span)


def rule_correlation(R):
    """PUBLISH carries every requested property *including correlation data*: the builder keeps a correlation entry
    when user properties are installed before or after it (shared with C20)"""
    from .c20 import clause_correlation_kept
    clause_correlation_kept(R, "corr")


def rule_shared_qos_wiring(R):
    """a PUBLISH carries a packet identifier exactly when its header says QoS > 0: header QoS and identifier allocation use the same (effective) QoS -- C19's rule"""
    from .c19 import rule_qos as _r
    _r(R)


def rule_prim(R):
    """multi-byte integers are big-endian on the wire (MQTT 5 1.5.2, 1.5.3), in both directions: every serde primitive of
    the serializer for a 16 / 32 / 64-bit integer pushes `v.to_be_bytes()` of its argument, and every primitive of the
    deserializer that yields such an integer builds it with `from_be_bytes` from bytes taken in stream order.  (A byte swap
    in one of these functions garbles every length prefix, packet identifier and integer property at once.)"""
    f = R.f
    n = 0
    nde = 0
    for name, b in sorted(f.bodies.items()):
        if f.in_fuzzing(b) or b.kind != "assoc_fn":
            continue
        if "ser::MqttSerializer" in name and "Serializer>::serialize_" in name and b.fn_name in (
                "serialize_u16", "serialize_u32", "serialize_u64", "serialize_i16", "serialize_i32", "serialize_i64"):
            n += 1
            R.touch(b)
            t = b.local_term(0)
            calls = [x for x in walk(t) if isinstance(x, tuple) and x[0] == "call"]
            be = [x for x in calls if is_call(x, "to_be_bytes") and x[3] and peel(x[3][0]) == ("param", "v")]
            other = [x for x in calls if is_call(x, "to_le_bytes", "to_ne_bytes", "swap_bytes", "rotate_left", "rotate_right", "reverse")]
            pushed = any(is_call(x, "push_bytes") and any(y in be for y in walk(x)) for x in calls)
            R.ob("prim/%s" % b.fn_name, bool(be) and not other and pushed,
                 "MqttSerializer::%s pushes the big-endian bytes of its argument (found %s)" % (b.fn_name, show(t)[:100]), where=b.span)
        if "de::deserializer::MqttDeserializer" in name:
            # every place of the deserializer that assembles an integer from bytes (wherever a helper was folded to)
            t = b.local_term(0)
            calls = [x for x in walk(t) if isinstance(x, tuple) and x[0] == "call"]
            frm = [x for x in calls if is_call(x, "from_be_bytes")]
            other = [x for x in calls if is_call(x, "from_le_bytes", "from_ne_bytes", "swap_bytes", "rotate_left", "rotate_right", "reverse")]
            if not frm and not other:
                continue
            nde += len(frm)
            R.touch(b)
            okb = bool(frm) and not other
            # an explicit array of single-byte reads must be in stream order: `[pop()?, pop()?]`
            for x in frm:
                a = peel(x[3][0]) if x[3] else ("unknown",)
                if a[0] == "agg" and a[1] == "array":
                    bbs = []
                    for el in a[5]:
                        cs = [y for y in walk(el) if isinstance(y, tuple) and y[0] == "call" and is_call(y, "pop")]
                        bbs.append(cs[0][1] if cs else None)
                    if None not in bbs:
                        okb = okb and bbs == sorted(bbs) and len(set(bbs)) == len(bbs)
            R.ob("prim/%s" % b.fn_name, okb,
                 "MqttDeserializer::%s builds the integer with from_be_bytes from bytes in stream order (found %s)" % (b.fn_name, show(t)[:100]),
                 where=b.span)
    R.floor("prim/serializer", n, 6, "integer primitives of the serializer")
    R.floor("prim/deserializer", nde, 4, "big-endian integer reads of the deserializer")



def rule_varint_encoder(R):
    """the variable byte integer encoder [MQTT 5 1.5.5]: seven value bits per byte, least significant group first, bit 7 set
    exactly while more groups follow, values above 268 435 455 refused.  Read off the constants of the encoder: the low
    group is `value & 0x7F` (or `% 128`), the step is `value >> 7` (or `/ 128`), the continuation bit is `| 0x80` on the
    edge `value != 0` only, the loop ends on `value == 0`, and the refusal compares with MQTT_VARINT_MAX = 0x0FFF_FFFF."""
    f = R.f
    ws = [b for b in f.bodies.values() if b.fn_name == "write_mqtt_u32_varint" and not f.in_fuzzing(b)]
    if len(ws) != 1:
        raise AnchorLost("varint-encoder", "expected one write_mqtt_u32_varint, found %d" % len(ws))
    b = ws[0]
    R.touch(b)
    def cst(t):
        t = peel(t)
        for _ in range(4):
            if t[0] == "cast":
                t = peel(t[2])
            elif is_call(t, "From::from", "from", "Into::into", "into") and len(t[3]) == 1:
                t = peel(t[3][0])           # `u32::from(GROUP_MASK)`
            else:
                break
        return t[2] if t[0] == "const" and isinstance(t[2], int) else None
    groups, steps, conts, others = [], [], [], []
    for bb, j, s_ in b.assigns():
        rv = s_["rv"]
        if bb not in b.reachable or "bin" not in rv:
            continue
        op = rv["bin"]
        t = peel(b.rvalue_term(rv))
        if t[0] == "field":
            t = peel(t[1])
        k = cst(t[3]) if len(t) > 3 else None
        if op in ("BitAnd", "Rem", "RemWithOverflow"):
            groups.append((op, k))
        elif op in ("Shr", "ShrUnchecked", "Div"):
            steps.append((op, k))
        elif op in ("BitOr", "Add", "AddWithOverflow") and s_["dst"].get("ty") == "u8":
            conts.append((op, k, bb))
        elif op in ("Shl", "BitXor", "Mul", "MulWithOverflow", "Sub", "SubWithOverflow"):
            others.append(op)
    okg = len(groups) == 1 and groups[0] in (("BitAnd", 127), ("Rem", 128), ("RemWithOverflow", 128))
    oks = len(steps) == 1 and steps[0] in (("Shr", 7), ("ShrUnchecked", 7), ("Div", 128))
    okc = len(conts) == 1 and conts[0][1] == 128
    if okc:
        # only on the edge where the remaining value is non-zero
        edges = []
        for sb in b.switches:
            si = b.switch_info(sb)
            sj = peel(si["subject"])
            if sj[0] == "bin" and sj[1] in ("Ne", "Eq", "Gt") and any(cst(x) == 0 for x in (sj[2], sj[3])):
                lab = sj[1] in ("Ne", "Gt")
                if si["edges"].get(lab) is not None:
                    edges.append((sb, si["edges"][lab]))
            # `while value > 0x7F { push(low | 0x80); value >>= 7 }`: more follows exactly when the value does not fit one group
            elif sj[0] == "bin" and ((sj[1] == "Gt" and cst(sj[3]) == 127) or (sj[1] == "Ge" and cst(sj[3]) == 128)
                                     or (sj[1] == "Lt" and cst(sj[2]) == 127) or (sj[1] == "Le" and cst(sj[2]) == 128)):
                if si["edges"].get(True) is not None:
                    edges.append((sb, si["edges"][True]))
        okc = bool(edges) and b.must_pass([0], [conts[0][2]], via_edges=edges)[0]
    R.ob("varint/encoder/group", okg, "each byte carries the low seven bits of the remaining value (found %s)" % groups, where=b.span)
    R.ob("varint/encoder/step", oks, "the remaining value is shifted right by seven bits per byte (found %s)" % steps, where=b.span)
    R.ob("varint/encoder/continuation", okc and not others,
         "bit 7 (0x80) is set exactly on the edge where more groups follow (found %s%s)" % ([c_[:2] for c_ in conts], (", also " + ",".join(others)) if others else ""),
         where=b.span)
    okm = False
    for sb in b.switches:
        si = b.switch_info(sb)
        sj = peel(si["subject"])
        if sj[0] == "bin" and sj[1] in ("Gt", "Ge", "Lt", "Le"):
            ks = [cst(x) for x in (sj[2], sj[3])]
            te = si["edges"].get(sj[1] in ("Gt", "Ge"))
            if (0x0FFFFFFF in ks and sj[1] in ("Gt", "Le")) or (0x10000000 in ks and sj[1] in ("Ge", "Lt")):
                vals = [b.rvalue_term(s2["rv"]) for x in b.reach([te]) for s2 in b.blocks[x]["stmts"]
                        if s2["k"] == "assign" and s2["dst"]["l"] == 0 and "agg" in s2["rv"]] if te is not None else []
                okm = bool(vals) and any(v[3] == "Err" for v in vals)
    R.ob("varint/encoder/maximum", okm, "a value above 268 435 455 (four groups) is refused, not truncated", where=b.span)


def rule_shared_advertised(R):
    """"maximum packet size equal to the receive-buffer size": the CONNECT property is built from the length of the receive
    buffer, widened to u32 and nothing else -- C14's clause"""
    from .c14 import clause_connect_property
    clause_connect_property(R, "connect/max-packet-size")


def _linear(t, depth=0):
    """a term as a linear form {atom: coefficient} over the atoms `L` (length of the serializer's buffer), `I` (its write
    index), integer constants (atom 1) and anything else by its printed form; None when it is not linear"""
    t = peel(t)
    if depth > 12:
        return None
    if t[0] == "const":
        return {1: t[2]} if isinstance(t[2], int) else None
    if t[0] == "cast":
        return _linear(t[2], depth + 1)
    if is_call(t, "From::from", "Into::into") and len(t[3]) == 1 and peel(t[3][0])[0] == "const":
        return _linear(t[3][0], depth + 1)       # `usize::from(u16::MAX)`
    if t[0] == "field" and t[2] in ("0",) and peel(t[1])[0] == "bin":
        return _linear(t[1], depth + 1)          # the value half of a checked operation
    if t[0] == "bin" and t[1] in ("Add", "AddWithOverflow", "AddUnchecked", "Sub", "SubWithOverflow", "SubUnchecked"):
        a, b = _linear(t[2], depth + 1), _linear(t[3], depth + 1)
        if a is None or b is None:
            return None
        sg = 1 if t[1].startswith("Add") else -1
        out = dict(a)
        for k, v in b.items():
            out[k] = out.get(k, 0) + sg * v
        return out
    if t[0] == "call" and len(t[3]) == 2 and is_call(t, "saturating_sub", "wrapping_sub", "saturating_add", "wrapping_add"):
        # the index never exceeds the buffer length, so the saturating form equals the plain one
        a, b = _linear(t[3][0], depth + 1), _linear(t[3][1], depth + 1)
        if a is None or b is None:
            return None
        sg = -1 if "sub" in t[2] else 1
        out = dict(a)
        for k, v in b.items():
            out[k] = out.get(k, 0) + sg * v
        return out
    if is_call(t, "len") and len(t[3]) == 1:
        nm = chain(peel(t[3][0]))[1]
        if nm[-1:] == ["buf"]:
            return {"L": 1}
        return {show(t): 1}
    if t[0] == "field" and chain(t)[1][-1:] == ["index"] and chain(t)[0] == ("param", "self"):
        return {"I": 1}
    if t[0] in ("param", "field", "call", "deref"):
        return {show(t): 1}
    return None


def rule_exact_fit(R):
    """"too little buffer fails with an error" -- and enough buffer does not: the serializer's three bounds tests
    (`push_bytes`, `push`, `commit`) refuse exactly when `index + n > buf.len()`.  The comparison guarding the
    InsufficientMemory return is read as a linear inequality over the buffer length L, the write index I and the size n and
    must be equivalent to `L - I - n < 0`: an off-by-one (`>=`) wastes the last byte, so a packet that ends exactly on the
    end of its buffer -- a CONNECT that exactly fills the free tail of the transmit arena -- is refused for ever."""
    f = R.f
    n = 0

    def forms(b, depth=0):
        """linear forms E of the refusal tests `E < 0` in body b (directly, or in a local helper whose error is propagated
        with `?`, its size parameter replaced by the argument)"""
        out = []
        for bb in sorted(b.switches):
            if bb not in b.reachable:
                continue
            si = b.switch_info(bb)
            sj = peel(si["subject"])
            if sj[0] != "bin" or sj[1] not in ("Lt", "Le", "Gt", "Ge"):
                continue
            for lab in (True, False):
                te, oe = si["edges"].get(lab), si["edges"].get(not lab)
                if te is None:
                    continue
                # the edge whose own region builds the error (assigned to the return place directly, or -- when the test sits
                # in a helper that was inlined -- to the place a `?` then propagates)
                vals = [(st["dst"]["l"], b.rvalue_term(st["rv"])) for x in b.reach([te], avoid=[oe] if oe is not None else []) - b.reach([oe] if oe is not None else [], avoid=[te])
                        for st in b.blocks[x]["stmts"] if st["k"] == "assign" and not st["dst"]["proj"] and "agg" in st["rv"]
                        and (st["rv"]["agg"].get("adt") or "").endswith("Result")]
                if not vals or not all(v[0] == "agg" and v[3] == "Err" for l_, v in vals):
                    continue
                # the refusal edge: normalise to  E < 0
                op = sj[1] if lab else {"Lt": "Ge", "Le": "Gt", "Gt": "Le", "Ge": "Lt"}[sj[1]]
                a, c = _linear(roles.expand_getters_deep(f, sj[2])), _linear(roles.expand_getters_deep(f, sj[3]))
                if a is None or c is None:
                    out.append(None)
                    continue
                if op in ("Gt", "Ge"):
                    a, c = c, a
                    op = {"Gt": "Lt", "Ge": "Le"}[op]
                e = dict(a)
                for k, v in c.items():
                    e[k] = e.get(k, 0) - v
                if op == "Le":
                    e[1] = e.get(1, 0) - 1          # E <= 0  <=>  E - 1 < 0
                out.append({k: v for k, v in e.items() if v != 0})
        if out or depth >= 2:
            return out
        for c in b.calls.values():
            if c.bb not in b.reachable or c.path not in f.bodies:
                continue
            cb = f.bodies[c.path]
            if cb.kind != "assoc_fn" or not (cb.self_ty or "").split("<")[0].endswith("MqttSerializer") or cb.is_async:
                continue
            if not b.q_edges(lambda x, c=c: any(y[0] == "call" and y[1] == c.bb for y in walk(x))):
                continue
            args = [b.operand_term(a) for a in c.args]
            if not args or chain(peel(args[0]))[0] != ("param", "self"):
                continue
            for e in forms(cb, depth + 1):
                if e is None:
                    out.append(None)
                    continue
                e2 = {}
                okm = True
                for k, v in e.items():
                    sub = None
                    for pi in range(1, cb.arg_count):
                        if k == show(("param", cb.param_name(pi + 1))):
                            sub = _linear(args[pi]) if pi < len(args) else None
                            if sub is None:
                                okm = False
                    if sub is None:
                        e2[k] = e2.get(k, 0) + v
                    else:
                        for k2, v2 in sub.items():
                            e2[k2] = e2.get(k2, 0) + v * v2
                out.append({k: v for k, v in e2.items() if v != 0} if okm else None)
        return out

    # the write position: where push_bytes starts its copy (`self.buf[<pos>..]`), as a linear form -- `I` while the serializer
    # keeps an index field, something else (`5 + body_len`) when the position is derived
    xref = {"I": 1}
    pbs = [b for b in f.bodies.values() if b.fn_name == "push_bytes" and (b.self_ty or "").split("<")[0].endswith("MqttSerializer")
           and b.kind == "assoc_fn" and not f.in_fuzzing(b)]
    for b in pbs:
        for c in b.calls.values():
            if c.bb in b.reachable and c.is_("IndexMut::index_mut", "index_mut") and len(c.args) == 2 \
                    and chain(peel(b.operand_term(c.args[0])))[1][-1:] == ["buf"]:
                rng = peel(b.operand_term(c.args[1]))
                if rng[0] == "agg" and rng[4] and rng[4][0] == "start":
                    x = _linear(roles.expand_getters_deep(f, rng[5][0]))
                    if x is not None:
                        xref = x
    for name in ("push_bytes", "push", "commit"):
        cand = [b for b in f.bodies.values() if b.fn_name == name and (b.self_ty or "").split("<")[0].endswith("MqttSerializer")
                and b.kind == "assoc_fn" and not f.in_fuzzing(b)]
        if len(cand) != 1:
            raise AnchorLost("serializer:" + name)
        b = cand[0]
        R.touch(b)
        verdicts = []
        for e in forms(b):
            if e is None:
                verdicts.append((False, "not a linear comparison"))
                continue
            # E + position must be  L - n
            e2 = dict(e)
            for k, v in xref.items():
                e2[k] = e2.get(k, 0) + v
            e2 = {k: v for k, v in e2.items() if v != 0}
            rest = {k: v for k, v in e2.items() if k != "L"}
            ok = e2.get("L") == 1 and len(rest) == 1 and list(rest.values())[0] == -1 and list(rest.keys())[0] != 1
            if name == "push":
                ok = e2.get("L") == 1 and rest == {1: -1}
            verdicts.append((ok, " + ".join("%s*%s" % (v, k) for k, v in sorted(e.items(), key=str)) + " < 0"))
        n += 1
        R.ob("fit/exact/%s" % name, len(verdicts) == 1 and verdicts[0][0],
             "MqttSerializer::%s refuses exactly when the data does not fit (`buf.len() - index - n < 0`); found %s"
             % (name, "; ".join(v[1] for v in verdicts) if verdicts else "no bounds test"), where=b.span)
    R.floor("fit/exact", n, 3, "serializer bounds tests")


def run(R):
    R.rule("fit", rule_exact_fit)
    R.rule("advertised", rule_shared_advertised)
    R.rule("varint-encoder", rule_varint_encoder)
    R.rule("prim", rule_prim)
    R.rule("qos-wiring", rule_shared_qos_wiring)
    R.rule("corr", rule_correlation)
    R.rule("props", rule_props)
    R.rule("block", rule_block)
    R.rule("varint", rule_varint)
    R.rule("bits", rule_bits)
    R.rule("connect", rule_connect)
    R.rule("len16", rule_len16)
