"""C10 — keep-alive (PARTIAL: only the structure of the mechanism; arithmetic and timing are not decided)."""
from ..core import AnchorLost, chain, peel, phi_alts, is_call, walk, show
from .. import paths
from . import roles, outq
from .roles import RUNTIME, OUTBOUND, SDATA, CONN
from .c04 import ret_value_on_path

EXPLANATION = (
    "PARTIAL claim. Static clauses of C10 on mir_built — the structure of the keep-alive mechanism only: (who) the ping "
    "timeout is armed only when the flush of a PINGREQ completes, with now + the round-trip constant, and cleared only by "
    "PINGRESP, the transport reset and the handshake; next_ping is written only by note_outbound_activity, the transport "
    "reset and the handshake; (due) whether a PINGREQ is queued depends only on the two deadlines and on PINGREQs already "
    "queued (not on unrelated in-flight state), with the three conjuncts present, and the enqueue is dominated by that "
    "test; (refresh) every completed transport flush of a client packet is followed by note_outbound_activity on every "
    "path; (check) service() tests the ping timeout with `now >= deadline` before any outbound step, and its true edge "
    "latches and reports Disconnected; (race) poll/recv race the read against next_deadline(), which is the minimum of both "
    "deadlines (decision table over the four Option combinations), and wait unbounded only when there is none; (const) the "
    "lead time and the response timeout use the same constant and a keep-alive of zero disables pings. NOT decided: every "
    "arithmetic or temporal aspect — that the gap never exceeds the keep-alive, boundary coincidences, >= vs > at the "
    "deadlines; those need a model of time and of the transport, which is another technique family."
)
ASSUMPTIONS = ["embassy_time::with_deadline polls the wrapped future until the deadline and then returns Err"]


def field_stores(f, field):
    out = []
    for (b, bb, j, dst, rv, s, final) in f.field_stores(RUNTIME, field):
        if not f.in_fuzzing(b):
            out.append((b, bb, b.rvalue_term(rv), s["span"]))
    return out


def _timeout_items(t):
    """named constants (item paths) occurring in a term"""
    out = set()
    for x in walk(t):
        if x[0] == "const" and x[3]:
            out.add(x[3])
    return out


def rule_who(R):
    f = R.f
    cm = roles.conn_methods(f)
    call, hb, hcode = roles.handshake(f)
    hnd, sw = outq.inbound_handler(f)
    cf_b, cf = roles.flush_completion(f)
    n = 0
    for (b, bb, v, span) in field_stores(f, "ping_timeout"):
        n += 1
        if v[0] == "agg" and v[3] == "Some":
            ok = b.name == cf.name
            val = peel(v[5][0])
            # now + <a named round-trip constant> (whatever it is called; const/shared ties it to the PINGREQ lead time)
            def _plain_const(t_):
                t_ = peel(t_)
                if t_[0] == "const" and t_[3]:
                    return True
                return is_call(t_, "Duration::from_millis", "Duration::from_secs", "Duration::from_micros") and len(t_[3]) == 1 \
                    and peel(t_[3][0])[0] == "const" and bool(peel(t_[3][0])[3])
            okv = is_call(val, "Add::add", "add") and val[3][0] == ("param", "now") and _plain_const(val[3][1])
            R.ob("who/ping-timeout-armed/%s" % b.fn_name, ok and okv,
                 "the PINGRESP deadline is armed only in complete_flush, as now + ROUND_TRIP_TIMEOUT (found %s in %s)" % (show(v), b.fn_name),
                 where=span)
            if ok:
                # exactly on the PINGREQ edge
                edge = None
                for sbb in cf.switches:
                    si = cf.switch_info(sbb)
                    if si["enum"] and si["enum"].endswith("ControlAction") and si["edges"].get("PingReq") is not None:
                        r, nm = chain(si["subject"])
                        if nm[-2:] == ["@Control", "0"]:
                            edge = si["edges"]["PingReq"]
                    # `action == ControlAction::PingReq` (derived PartialEq) on the flushed control packet's action
                    alts_ = [peel(x_) for x_ in phi_alts(peel(si["subject"]))]
                    eqs_ = [x_ for x_ in alts_ if is_call(x_, "PartialEq::eq", "eq") and len(x_[3]) == 2]
                    # the flag may also be `false` (not a control packet at all): only the comparison can take the true edge
                    if len(eqs_) == 1 and all(x_ is eqs_[0] or (x_[0] == "const" and x_[2] == 0) for x_ in alts_) and si["edges"].get(True) is not None:
                        sj_ = eqs_[0]
                        for a_, b_ in ((sj_[3][0], sj_[3][1]), (sj_[3][1], sj_[3][0])):
                            bb_ = peel(b_)
                            if chain(a_)[1][-2:] == ["@Control", "0"] and bb_[0] == "agg" and (bb_[2] or "").endswith("ControlAction") and bb_[3] == "PingReq":
                                edge = si["edges"][True]
                okp = False
                if edge is not None:
                    # path-sensitive both ways: store only via the PingReq edge, and from the edge always the store
                    okp1, off, _ = paths.every_path_passes(cf, 0, bb, via_blocks=[edge])
                    leaves = paths.explore(cf, edge, lambda t: False, lambda bd, x: x == bb)
                    okp2 = all(lf["marked"] for lf in leaves if lf["kind"] == "return")
                    okp = okp1 and okp2
                R.ob("who/ping-timeout-armed/only-for-pingreq", okp,
                     "the deadline is armed exactly when the completed packet is a PINGREQ", where=span)
        elif v[0] == "agg" and v[3] == "None":
            if b.name == hnd.name:
                from .c02 import arm_of
                ok = arm_of(hnd, sw, bb) == ["PingResp"]
            else:
                ok = b.name == hcode.name or (roles.self_is(b, RUNTIME) and b.fn_name in ("new", "reset_transport"))
            R.ob("who/ping-timeout-cleared/%s" % b.fn_name, ok,
                 "the PINGRESP deadline is cleared only by PINGRESP, the transport reset and the handshake (found in %s)" % b.fn_name,
                 where=span)
        else:
            R.ob("who/ping-timeout-other/%s" % b.fn_name, False, "ping_timeout assigned %s in %s" % (show(v), b.fn_name), where=span)
    R.floor("who/ping-timeout", n, 4, "stores to ping_timeout")
    # PINGRESP arm always clears
    from .c02 import arm_of
    _, entry, blocks = outq.handler_arm(f, "PingResp")
    sb = [bb for (b, bb, v, span) in field_stores(f, "ping_timeout") if b.name == hnd.name and arm_of(hnd, sw, bb) == ["PingResp"]]
    R.ob("who/pingresp-clears", bool(sb) and hnd.must_pass([entry], hnd.returns, via_blocks=sb)[0],
         "every PINGRESP clears the deadline (a PINGRESP received in time never leads to a disconnect)", where=hnd.line(entry))
    m = 0
    noa = roles.method(f, RUNTIME, "note_outbound_activity")
    for (b, bb, v, span) in field_stores(f, "next_ping"):
        m += 1
        ok = b.name in (noa.name, hcode.name) or (roles.self_is(b, RUNTIME) and b.fn_name in ("new", "reset_transport"))
        R.ob("who/next-ping/%s" % b.fn_name, ok, "next_ping is written only by note_outbound_activity, the transport reset and the "
             "handshake (found in %s)" % b.fn_name, where=span)
    R.floor("who/next-ping", m, 3, "stores to next_ping")
    # note_outbound_activity: next_ping = keepalive_send_interval().map(|i| now + i)
    v = [x for x in field_stores(f, "next_ping") if x[0].name == noa.name]
    # None when pings are off, otherwise Some(now + interval): the stored value's alternatives, whatever the spelling
    # (one store of a computed Option, or one store per case)
    ok = len(v) >= 1
    if ok:
        alts = []
        for x in v:
            alts += phi_alts(peel(x[2]))
        some = [a for a in alts if a[0] == "agg" and a[2] == "core::option::Option" and a[3] == "Some"]
        none = [a for a in alts if a[0] == "agg" and a[2] == "core::option::Option" and a[3] == "None"]

        def now_plus_interval(t):
            t = peel(t)
            if t[0] == "bin" and t[1].startswith("Add"):
                ops_ = [peel(t[2]), peel(t[3])]
            elif is_call(t, "Add::add", "add") and len(t[3]) == 2:
                ops_ = [peel(t[3][0]), peel(t[3][1])]
            else:
                return False
            has_now = any(o == ("param", "now") for o in ops_)
            has_int = any(chain(o)[1][-2:] == ["@Some", "0"] and is_call(peel(chain(o)[0]), "keepalive_send_interval") for o in ops_)
            return has_now and has_int
        ok = len(some) >= 1 and len(some) + len(none) == len(alts) and all(now_plus_interval(a[5][0]) for a in some)
    R.ob("who/next-ping-value", ok, "note_outbound_activity sets next_ping = now + keepalive_send_interval (None when pings are off)", where=noa.span)


def clause_pending_ping_states(R, key):
    """a queued PINGREQ counts as pending from the moment it is queued until its flush completed -- in state Write (not
    or partly written) *and* in state Flush (written, flush outstanding), for no other control packet, and no longer once
    Sent.  A test that forgets the Flush state queues a second PINGREQ when the driving future is dropped at the pending
    flush and the connection is driven again."""
    f = R.f
    try:
        hp = roles.method(f, OUTBOUND, "has_pending_pingreq")
    except AnchorLost:
        R.undecide(key, "has_pending_pingreq not found")
        return
    t = roles.element_predicate_table(f, hp, "pending_control", None,
                                      [("action", "mqtt_client::outbound::ControlAction"), ("state", "mqtt_client::outbound::SendState")])
    bad = None
    if t is None:
        bad = "the per-entry test could not be tabulated"
    else:
        for (a, st), v in sorted(t.items()):
            want = (a == "PingReq" and st in ("Write", "Flush"))
            if st == "Sent" and a == "PingReq":
                want = False
            if v is None or v != want:
                bad = bad or "an entry with action %s in state %s counts as %s" % (a, st, {True: "pending", False: "not pending", None: "undetermined"}[v])
    R.ob(key, bad is None,
         "has_pending_pingreq: a PINGREQ entry is pending exactly in the states Write and Flush%s" % ("" if bad is None else " — " + bad),
         where=hp.span)


def rule_due(R):
    f = R.f
    cm = roles.conn_methods(f)
    from .. import optsem, panics
    qc = outq.role_fn(f, "queue_control")
    # the due test: a predicate of its own (should_queue_pingreq) or, when that was folded into its caller, the
    # condition under which maybe_queue_pingreq reaches the enqueue
    embedded = "should_queue_pingreq" not in cm
    if "maybe_queue_pingreq" not in cm:
        raise AnchorLost("Connection::maybe_queue_pingreq", "the keep-alive enqueue is no longer a function of its own (folded into the step loops)")
    if embedded:
        sq_b, sq = cm["maybe_queue_pingreq"]
        marks = [c.bb for c in outq.calls_to(f, sq, qc)]
    else:
        sq_b, sq = cm["should_queue_pingreq"]
        marks = []
    R.touch(sq)

    def is_false(o):
        if embedded:
            return not o["marked"]
        return bool(o["values"]) and all(v[0] == "const" and v[2] == 0 for v in o["values"])

    def is_due_cmp(t):
        c = panics.canon_cmp(t)
        return c is not None and c[0] == "<=" and "next_ping" in c[1] and c[2].replace("&", "").replace("*", "") == "now"

    def not_pending(t):
        t = peel(t)
        return t[0] == "un" and t[1] == "Not" and is_call(peel(t[2]), "has_pending_pingreq")

    ok = True
    why = ""
    tested_terms = []
    for pt in ("None", "Some"):
        for np_ in ("None", "Some"):
            outs = optsem.decide(sq, {"ping_timeout": pt, "next_ping": np_}, mark_blocks=marks)
            if not outs:
                ok, why = False, "no outcome extracted for ping_timeout=%s next_ping=%s" % (pt, np_)
                continue
            for o in outs:
                if not is_false(o) or not embedded:
                    tested_terms += [t for t in o["true"] + o["false"] if isinstance(t, tuple)] + [v for v in o["values"] if not embedded]
            if (pt, np_) != ("None", "Some"):
                if not all(is_false(o) for o in outs):
                    ok, why = False, "not false for ping_timeout=%s next_ping=%s" % (pt, np_)
                continue
            pos = [o for o in outs if not is_false(o)]
            if not pos:
                ok, why = False, "never due"
            def holds(o):
                """comparisons that hold on the path of outcome o, in canonical form"""
                out_ = []
                for t in o["true"]:
                    c = panics.canon_cmp(t) if isinstance(t, tuple) else None
                    if c:
                        out_.append(c)
                for t in o["false"]:
                    c = panics.canon_cmp(t) if isinstance(t, tuple) else None
                    if c:
                        out_.append(panics.negate(c))
                return out_

            def due_fact(c):
                return c[0] == "<=" and "next_ping" in c[1] and c[2].replace("&", "").replace("*", "") == "now"

            def early_fact(c):
                return c[0] == "<" and "next_ping" in c[2] and c[1].replace("&", "").replace("*", "") == "now"
            for o in pos:
                tested = any(due_fact(c) for c in holds(o))
                pend_false = any(is_call(peel(t), "has_pending_pingreq") for t in o["false"] if isinstance(t, tuple)) or \
                    any(not_pending(t) for t in o["true"] if isinstance(t, tuple))
                if embedded:
                    val_ok = pend_false
                else:
                    val_ok = all(not_pending(v) for v in o["values"]) or (all(v[0] == "const" and v[2] == 1 for v in o["values"]) and pend_false)
                if not (tested and val_ok):
                    ok, why = False, "due on a path without `now >= next_ping` or without `!has_pending_pingreq()`"
            for o in outs:
                if any(early_fact(c) for c in holds(o)) and not is_false(o):
                    ok, why = False, "due although now < next_ping"
    # what the decision reads
    if embedded:
        state = set()
        for t in tested_terms:
            for x in walk(t):
                if x[0] == "field" and x[3] in roles.STATE_ADTS:
                    state.add((x[3], x[2]))
                if x[0] == "call" and x[2] in f.bodies:
                    state |= set((a, n) for (a, n) in f.fields_touched(x[2]) if a in roles.STATE_ADTS or a == "mqtt_client::outbound::PendingControl")
        for bb_ in sq.switches:
            si_ = sq.switch_info(bb_)
            nm_ = chain(si_["subject"])[1][-1:]
            if si_["enum"] == "core::option::Option" and nm_ and nm_[0] in ("ping_timeout", "next_ping"):
                state.add((RUNTIME, nm_[0]))
    else:
        touched = set(f.fields_touched(sq_b.name))
        state = set((a, n) for (a, n) in touched if a in roles.STATE_ADTS or a == "mqtt_client::outbound::PendingControl")
    allowed = {(CONN, "session"), (roles.SESSION, "runtime"), (roles.SESSION, "data"), (SDATA, "outbound"),
               (RUNTIME, "ping_timeout"), (RUNTIME, "next_ping"), (OUTBOUND, "pending_control"),
               ("mqtt_client::outbound::PendingControl", "action"), ("mqtt_client::outbound::PendingControl", "state")}
    extra = sorted(state - allowed)
    R.ob("due/depends-only-on-keepalive-state", not extra,
         "whether a PINGREQ is due depends only on the two keep-alive deadlines and on PINGREQs already queued; it also "
         "reads %s — unrelated in-flight state must not suppress or force pings" % extra, where=sq_b.span)
    need = {(RUNTIME, "ping_timeout"), (RUNTIME, "next_ping"), (OUTBOUND, "pending_control")}
    R.ob("due/conjuncts", need <= state,
         "the test consults the response deadline, the next-ping deadline and the control queue (reads %s)" % sorted(n for a, n in state & need),
         where=sq_b.span)
    R.ob("due/shape", ok,
         "a PINGREQ is due iff no response is outstanding, now >= next_ping, and none is queued already%s" % ((" — " + why) if why else ""),
         where=sq_b.span)
    try:
        hp = roles.method(f, OUTBOUND, "has_pending_pingreq")
    except AnchorLost:
        hp = None
    okh = False
    if hp is not None:
        def pingreq_hit(body, nx, path):
            # the path passes the PingReq edge of a test of the element's action
            for i in range(len(path) - 1):
                if path[i] in body.switches:
                    si = body.switch_info(path[i])
                    if si["enum"] and si["enum"].endswith("ControlAction") and si["edges"].get("PingReq") == path[i + 1]:
                        r_, n_ = chain(si["subject"])
                        if isinstance(r_, tuple) and r_[0] == "call" and r_[1] == nx.bb and n_[-1:] == ["action"]:
                            return True
                    # `entry.action == ControlAction::PingReq` (derived PartialEq), true edge taken
                    sj_ = peel(si["subject"])
                    if is_call(sj_, "PartialEq::eq", "eq") and len(sj_[3]) == 2 and si["edges"].get(True) == path[i + 1]:
                        for a_, b_ in ((sj_[3][0], sj_[3][1]), (sj_[3][1], sj_[3][0])):
                            r_, n_ = chain(a_)
                            r_ = peel(r_)
                            bb_ = peel(b_)
                            if isinstance(r_, tuple) and r_[0] == "call" and r_[1] == nx.bb and n_[-1:] == ["action"] \
                                    and bb_[0] == "agg" and (bb_[2] or "").endswith("ControlAction") and bb_[3] == "PingReq":
                                return True
            return False
        okh = roles.membership_loop(hp, "pending_control", pingreq_hit)
    R.ob("due/pending-lookup", okh, "a PINGREQ that is queued but not yet sent is found by a lookup in the control queue "
         "(Outbound::has_pending_pingreq)", where=hp.span if hp is not None else sq_b.span)
    clause_pending_ping_states(R, "due/pending-states")
    mq_b, mq = cm["maybe_queue_pingreq"]
    qcs = outq.calls_to(f, mq, qc)
    edges = []
    if not embedded:
        for c in outq.calls_to(f, mq, sq_b):
            for si in mq.result_switches(lambda x, c=c: peel(x)[0] == "call" and peel(x)[1] == c.bb):
                if si["edges"].get(True) is not None:
                    edges.append((si["bb"], si["edges"][True]))
        ok = len(qcs) == 1 and bool(edges) and mq.must_pass([0], [qcs[0].bb], via_edges=edges)[0]
    else:
        ok = len(qcs) == 1   # the truth table above was taken at this very enqueue
    act = peel(mq.operand_term(qcs[0].args[1])) if qcs else ("unknown",)
    ok = ok and act[0] == "agg" and act[3] == "PingReq"
    R.ob("due/enqueue", ok, "maybe_queue_pingreq queues a PINGREQ exactly on the `due` edge", where=mq_b.span)
    # and it is called before every outbound step
    n = 0
    nsf = roles.method(f, OUTBOUND, "next_step")
    for name, (b, code) in sorted(cm.items()):
        ns = outq.calls_to(f, code, nsf)
        # functions that pick a step *and perform it* (drive_packet merely peeks whether work is left)
        if not ns or "perform_outbound_step" not in cm or not outq.calls_to(f, code, cm["perform_outbound_step"][0]):
            continue
        cs = outq.calls_to(f, code, mq_b)
        okb = bool(cs) and all(code.must_pass([0], [x.bb], via_blocks=[c.bb for c in cs])[0] for x in ns)
        n += 1
        R.ob("due/checked-before-step/%s" % name, okb, "%s checks for a due PINGREQ before picking the next outbound step" % name, where=b.span)
    R.floor("due/checked-before-step", n, 2, "functions that pick the next outbound step")


def rule_refresh(R):
    f = R.f
    cm = roles.conn_methods(f)
    noa = roles.method(f, RUNTIME, "note_outbound_activity")
    reaches = set(n for n in f.bodies if noa.name in f.reachable_bodies([n]))
    n = 0
    for name, (b, code) in sorted(cm.items()):
        if name == "disconnect_with":
            continue
        for c in code.calls.values():
            if c.bb not in code.reachable or c.path != roles.IO_FLUSH:
                continue
            n += 1
            res, qs = roles.awaited_result_switches(code, c)
            starts = []
            for si in res:
                if si["edges"].get("Ok") is not None:
                    starts.append(si["edges"]["Ok"])
                elif si["edges"].get("Err") is not None:
                    starts.append(si["otherwise"])
            for q in qs:
                if q["cont"][1] is not None:
                    starts.append(q["cont"][1])
            marks = set(x.bb for x in code.calls.values() if x.bb in code.reachable and any(t in reaches for t in f.call_targets(x)))
            ok = bool(starts) and bool(marks) and code.must_pass(starts, code.returns, via_blocks=marks)[0]
            R.ob("refresh/%s" % name, ok,
                 "after a successful transport flush in Connection::%s every path records the outbound activity "
                 "(note_outbound_activity), which schedules the next PINGREQ relative to this packet" % name, where=c.span)
    R.floor("refresh", n, 2, "transport flush sites outside disconnect_with")


def _none_never_expires(code, swo, sw):
    """path-sensitive: no feasible path from the None edge of the presence test takes the true edge of the comparison"""
    te = sw["edges"].get(True)
    for lf in paths.explore(code, swo["edges"]["None"], lambda t: False, lambda b, x: False, stop_pred=lambda b, x: x == te, max_paths=2000):
        if lf["kind"] in ("stop", "limit"):
            return False
    return True


def rule_check(R):
    f = R.f
    cm = roles.conn_methods(f)
    b, code = cm["service"]
    R.touch(code)
    # the expiry test in its canonical reading: a switch on `ping_timeout` (present?) and a switch on `payload <= now`
    # (every spelling -- .map(..).unwrap_or(false), is_some_and, match, if let -- reads as these two after the normal form)
    from .. import panics
    sw = None       # the comparison
    swo = None      # the presence test
    for bb in sorted(code.switches):
        if bb not in code.reachable:
            continue
        si = code.switch_info(bb)
        if si["enum"] == "core::option::Option" and chain(si["subject"])[1][-1:] == ["ping_timeout"]:
            swo = si
        for alt in phi_alts(si["subject"]):
            c = panics.canon_cmp(alt)
            if c is not None and c[0] == "<=" and "ping_timeout" in c[1] and c[2].replace("&", "").replace("*", "") == "now" \
                    and si["edges"].get(True) is not None and si["edges"].get(False) is not None:
                sw = si
    ok = sw is not None
    if ok:
        lat = roles.latch_fns(f)
        steps = [c for c in code.calls.values() if c.bb in code.reachable and (f.call_does_io(c) or roles.call_writes_state(f, c))
                 and not any(t in lat for t in f.call_targets(c))]
        fe = sw["edges"].get(False)
        via = [(sw["bb"], fe)]
        if swo is not None and swo["edges"].get("None") is not None:
            via.append((swo["bb"], swo["edges"]["None"]))   # absent deadline = not expired
        # (what happens *on* the expiry branch -- the teardown itself, possibly the session-level half of it -- is not
        # "outbound work before the test")
        te_ = sw["edges"].get(True)
        steps = [c for c in steps if te_ is None or not code.must_pass([0], [c.bb], via_edges=[(sw["bb"], te_)])[0]]
        okdom = all(code.must_pass([0], [c.bb], via_edges=via)[0] for c in steps) and bool(steps)
        # absent deadline never takes the expiry branch
        te = sw["edges"].get(True)
        okabs = swo is None or swo["edges"].get("None") is None or \
            code.must_pass([swo["edges"]["None"]], [te], via_edges=[(sw["bb"], fe)])[0] or te not in code.reach([swo["edges"]["None"]]) or \
            _none_never_expires(code, swo, sw)
        latch = roles.latch_blocks(f, code)
        okl = code.must_pass([te], code.returns, via_blocks=latch)[0]
        if not okl:
            # the expiry branch may sit in a folded-in helper: follow the feasible paths (the helper's Err is known on them)
            lset = set(latch)
            lvs = [lf for lf in paths.explore(code, te, lambda t_: False, lambda b_, x_: x_ in lset, max_paths=400)]
            rets = [lf for lf in lvs if lf["kind"] == "return"]
            okl = bool(rets) and all(lf["marked"] for lf in rets) and not any(lf["kind"] == "limit" for lf in lvs)
        vals = [code.rvalue_term(s2["rv"]) for x in code.reach([te], avoid=[fe]) for s2 in code.blocks[x]["stmts"]
                if s2["k"] == "assign" and s2["dst"]["l"] == 0]
        okv = bool(vals) and all("Disconnected" in show(v) for v in vals)
        if not okv:
            # the expiry branch may sit in a folded-in helper whose Err(Disconnected) comes back through `?`
            vs2 = []
            for lf in paths.explore(code, te, lambda t: False, lambda b_, x_: False, max_paths=200):
                if lf["kind"] == "return":
                    vs2.append(paths.value_on_path(code, [sw["bb"]] + lf["path"], 0))
            okv = bool(vs2) and all(v is not None and "Disconnected" in show(v) for v in vs2)
        ok = okdom and okabs and okl and okv
    R.ob("check/expiry-first", ok,
         "service() tests `now >= ping_timeout` (absent = not expired) before any outbound work; on expiry it latches the "
         "handle and returns Disconnected", where=b.span)


def _deadline_value(v, have):
    """what next_deadline returns on a path (term v) given which of the two deadlines are present"""
    if v[0] == "agg" and v[3] == "None":
        return "none"
    if v[0] == "agg" and v[3] == "Some" and v[5]:
        inner = peel(v[5][0])
        if is_call(inner, "Ord::min", "min"):
            return "min"
        n = chain(inner)[1]
        return n[0] if n else "?"
    if is_call(v, "core::iter::Iterator::min") and v[3]:
        # the minimum over the deadlines that are present: `[a, b].into_iter().flatten().min()`,
        # `a.into_iter().chain(b).min()` (an Option iterates over its value, if any)
        def sources(x, depth=0):
            x = peel(x)
            if depth > 6 or not isinstance(x, tuple):
                return None
            if is_call(x, "core::iter::IntoIterator::into_iter", "core::iter::Iterator::by_ref", "Option::<T>::iter", "Option::<T>::into_iter") and x[3]:
                return sources(x[3][0], depth + 1)
            if is_call(x, "core::iter::Iterator::chain") and len(x[3]) == 2:
                a_, b_ = sources(x[3][0], depth + 1), sources(x[3][1], depth + 1)
                return None if a_ is None or b_ is None else a_ + b_
            if is_call(x, "core::iter::Iterator::flatten") and x[3]:
                arr = [y for y in walk(x[3][0]) if y[0] == "agg" and y[1] == "array"]
                if len(arr) != 1:
                    return None
                out = []
                for o in arr[0][5]:
                    n_ = [n for n in chain(peel(o))[1] if n in have]
                    if len(n_) != 1:
                        return None
                    out += n_
                return out
            n_ = chain(x)[1]
            if len(n_) == 1 and n_[0] in have:
                return [n_[0]]
            return None
        names = sources(v[3][0])
        if names is not None and sorted(names) == sorted(have):
            present = [n for n in names if have[n] == "Some"]
            return "min" if len(present) == 2 else (present[0] if present else "none")
        return "?"
    if is_call(v, "Option::<T>::or") and len(v[3]) == 2:
        # a.or(b): a if present, else b
        fa = [n for n in chain(peel(v[3][0]))[1] if n in have]
        fb = [n for n in chain(peel(v[3][1]))[1] if n in have]
        if len(fa) == 1 and len(fb) == 1:
            if have[fa[0]] == "Some":
                return fa[0]
            return fb[0] if have[fb[0]] == "Some" else "none"
        return "?"
    n = chain(v)[1]
    if len(n) == 1 and n[0] in have:
        # the field itself is returned: present -> that deadline, absent -> none
        return n[0] if have[n[0]] == "Some" else "none"
    return "?"


def rule_race(R):
    f = R.f
    cm = roles.conn_methods(f)
    b, code = cm["wait_for_progress"]
    R.touch(code)
    nd = roles.method(f, RUNTIME, "next_deadline")
    wd = [c for c in code.calls.values() if c.bb in code.reachable and c.is_("embassy_time::with_deadline", "with_deadline")]
    ok = len(wd) == 1
    if ok:
        d = code.operand_term(wd[0].args[0])
        r, n = chain(d)
        okd = any(x[0] == "call" and x[2] == nd.name for x in walk(d)) and n[-2:] == ["@Some", "0"]
        fut = code.operand_term(wd[0].args[1])
        okf = any(is_call(x, "read_packet") for x in walk(fut))
        ok = okd and okf
    R.ob("race/with-deadline", ok, "poll/recv race the transport read against next_deadline()", where=b.span)
    # un-raced read only on the None edge
    sw = None
    for bb in code.switches:
        si = code.switch_info(bb)
        if si["enum"] == "core::option::Option" and any(x[0] == "call" and x[2] == nd.name for x in walk(si["subject"])):
            sw = si
    okn = False
    if sw is not None and wd:
        some_t, none_t = sw["edges"].get("Some"), sw["edges"].get("None")
        okn = some_t is not None and none_t is not None and code.must_pass([0], [wd[0].bb], via_edges=[(sw["bb"], some_t)])[0]
        # awaits of read_packet not through with_deadline must be on the None edge
        polls = [c for c in code.calls.values() if c.bb in code.reachable and c.path == "core::future::Future::poll"
                 and any(is_call(x, "read_packet") for x in walk(code.operand_term(c.args[0]))) and
                 not any(is_call(x, "with_deadline") for x in walk(code.operand_term(c.args[0])))]
        okn = okn and all(code.must_pass([0], [p.bb], via_edges=[(sw["bb"], none_t)])[0] for p in polls)
    R.ob("race/unbounded-only-without-deadline", okn, "the read is awaited without a time limit only when no deadline exists", where=b.span)
    # a deadline that fires re-enters the drive loop (so the expiry check / due test run)
    okc = False
    if wd:
        res, qs = roles.awaited_result_switches(code, wd[0])
        for si in res:
            et = si["edges"].get("Err")
            if et is not None:
                okc = any(c.is_("drive_packet") for bb2 in code.reach([et]) for c in ([code.calls[bb2]] if bb2 in code.calls else []))
    R.ob("race/timeout-reenters", okc, "when the deadline fires the loop re-enters drive_packet (keep-alive is serviced)", where=b.span)
    # next_deadline table
    leaves = paths.explore(nd, 0, lambda t: "rt" if t == ("param", "self") else False, lambda bd, x: False)
    table = {}
    for lf in leaves:
        if lf["kind"] != "return":
            continue
        np_ = lf["cons"].get(("rt", "next_ping"))
        pt_ = lf["cons"].get(("rt", "ping_timeout"))
        v = ret_value_on_path(nd, lf["path"])
        if v is None:
            continue
        def _allowed(c):
            if isinstance(c, str):
                return [c]
            if isinstance(c, tuple) and c and c[0] == "not":
                return [x for x in ("Some", "None") if x not in c[1]]
            return ["Some", "None"]
        for a in _allowed(np_):
            for b_ in _allowed(pt_):
                d = _deadline_value(peel(v), {"next_ping": a, "ping_timeout": b_})
                if (a, b_) in table and table[(a, b_)] != d:
                    d = "conflict"
                table[(a, b_)] = d
    want = {("Some", "Some"): "min", ("Some", "None"): "next_ping", ("None", "Some"): "ping_timeout", ("None", "None"): "none"}
    R.ob("race/next-deadline-table", table == want,
         "next_deadline is the earlier of the two deadlines, the present one if only one exists, none otherwise (extracted %s)" % table,
         where=nd.span)


def rule_const(R):
    f = R.f
    ks = roles.method(f, RUNTIME, "keepalive_send_interval")
    R.touch(ks)
    t = ks.local_term(0)
    # the constant(s) that bound the wait for PINGRESP, taken from where the deadline is armed
    armed = set()
    for (b_, bb_, v_, sp_) in field_stores(f, "ping_timeout"):
        if v_[0] == "agg" and v_[3] == "Some" and v_[5]:
            armed |= _timeout_items(v_[5][0])
    mine = set()
    for x in walk(t):
        mine |= _timeout_items(x) if x[0] == "const" else set()
    for c_ in ks.calls.values():
        if c_.bb in ks.reachable:
            for a_ in c_.args:
                mine |= _timeout_items(ks.operand_term(a_))
    for bb_ in ks.switches:
        mine |= _timeout_items(ks.switch_info(bb_)["subject"])
    def closure(items):
        """a constant defined in terms of another one (`const T: Duration = from_millis(T_MS)`) is the same quantity"""
        out = set(items)
        work = list(items)
        while work:
            it = work.pop()
            cb = f.bodies.get(it)
            if cb is None or cb.kind not in ("const", "assoc_const"):
                continue
            found = set()
            for c2 in cb.calls.values():
                for a2 in c2.args:
                    found |= _timeout_items(cb.operand_term(a2))
            for bb2, j2, s2 in cb.assigns():
                found |= _timeout_items(cb.rvalue_term(s2["rv"]))
            for x in found - out:
                out.add(x)
                work.append(x)
        return out
    uses_const = bool(armed) and bool(closure(armed) & closure(mine))
    R.ob("const/shared", uses_const, "the PINGREQ lead time is derived from the same ROUND_TRIP_TIMEOUT constant that bounds the "
         "wait for PINGRESP", where=ks.span)
    # the lead time is positive (and below the keep-alive) for every keep-alive of at least one second: interval
    # abstract interpretation of keepalive_send_interval over keep-alive classes (1..12 s one by one, then 13 s .. u16::MAX)
    from .. import absint
    def is_ka(p):
        fe = [e for e in p["proj"] if isinstance(e, dict) and "f" in e]
        return bool(fe) and fe[-1].get("name") == "keepalive_interval"
    bad_class = None
    undecided = False
    for cls in [(k * 1000, k * 1000) for k in range(1, 13)] + [(13000, 65535000)]:
        it = absint.Interp(ks, is_ka, need_result=False)
        it.run(cls)
        if getattr(it, "aborted", False) or not it.subs:
            undecided = True
            break
        for (a_, b_) in it.subs:
            if a_ is None or b_ is None:
                undecided = True
            elif (b_[0] < 1 or not (b_[1] < a_[0])) and bad_class is None:
                bad_class = (cls, a_, b_)
    if undecided:
        R.undecide("const/lead-positive", "keepalive_send_interval is not in a form the interval interpreter can evaluate")
    else:
        R.ob("const/lead-positive", bad_class is None,
             "for every keep-alive of at least one second the PINGREQ is scheduled strictly before the keep-alive elapses: "
             "the lead time subtracted from the keep-alive is at least one clock unit and less than the keep-alive%s"
             % ("" if bad_class is None else " (keep-alive %d..%d ms: subtracting %s from %s)" % (bad_class[0][0], bad_class[0][1], bad_class[2], bad_class[1])),
             where=ks.span)
    okz = False
    for bb in ks.switches:
        si = ks.switch_info(bb)
        s = peel(si["subject"])
        zt = None
        # `match keepalive_ms { 0 => None, ms => .. }`: an integer switch on the value itself
        if si["enum"] is None and any(k_ == 0 and not isinstance(k_, bool) for k_ in si["edges"]) \
                and any(x[0] == "field" and x[2] == "keepalive_interval" for x in walk(s)):
            zt = [t_ for k_, t_ in si["edges"].items() if k_ == 0 and not isinstance(k_, bool)][0]
            vals = []
            for lf in paths.explore(ks, zt, lambda t_: False, lambda b_, x_: False):
                if lf["kind"] == "return":
                    vals.append(paths.value_on_path(ks, [bb] + lf["path"], 0))
            okz = okz or (bool(vals) and all(v is not None and v[0] == "agg" and v[3] == "None" for v in vals))
            continue
        if s[0] == "bin" and s[1] in ("Eq", "Ne") and any(x[0] == "const" and x[2] == 0 for x in (s[2], s[3])):
            zero_lab = (s[1] == "Eq")
            zt, nz = si["edges"].get(zero_lab), si["edges"].get(not zero_lab)
            if zt is None:
                continue
            # every path that takes the `== 0` outcome returns None
            vals = []
            for lf in paths.explore(ks, zt, lambda t_: False, lambda b_, x_: False):
                if lf["kind"] == "return":
                    vals.append(paths.value_on_path(ks, [bb] + lf["path"], 0))
            okz = bool(vals) and all(v is not None and v[0] == "agg" and v[3] == "None" for v in vals) and any(
                x[0] == "field" and x[2] == "keepalive_interval" for x in walk(s))
    R.ob("const/zero-disables", okz, "a keep-alive of zero yields no ping interval (no PINGREQ is ever scheduled)", where=ks.span)
    # the handshake adopts the server keep-alive
    call, hb, hcode = roles.handshake(f)
    v = [x for x in field_stores(f, "keepalive_interval") if x[0].name == hcode.name]
    ok = len(v) == 1 and any(x[0] == "downcast" and x[2] == "ServerKeepAlive" for x in walk(v[0][2]))
    if ok and not any(x[0] == "field" and x[2] == "keepalive_interval" for a in phi_alts(v[0][2]) for x in walk(a)):
        # the store does not carry the configured value as an alternative: then it must be the conditional form
        # `if let Some(s) = server_keepalive { keepalive_interval = .. }` -- performed exactly when the CONNACK carried
        # the property, the configured value staying in place otherwise
        sbb = v[0][1]
        cond = False
        for wb in hcode.switches:
            if wb not in hcode.reachable:
                continue
            si = hcode.switch_info(wb)
            if si["enum"] == "core::option::Option" and si["edges"].get("Some") is not None \
                    and any(x[0] == "downcast" and x[2] == "ServerKeepAlive" for x in walk(si["subject"])) \
                    and hcode.must_pass([0], [sbb], via_edges=[(wb, si["edges"]["Some"])])[0]:
                # and nothing else decides about the store between that test and the store
                cond = hcode.must_pass([si["edges"]["Some"]], hcode.returns, via_blocks=[sbb])[0]
        ok = cond
    R.ob("const/server-keepalive", ok,
         "the effective keep-alive is the configured one, replaced by the CONNACK's Server Keep Alive when present", where=hb.span)
    a = roles.connack_property_arms(f).get("ServerKeepAlive")
    avs = roles.arm_values_for(a, RUNTIME, "keepalive_interval") if a is not None else []
    okh = a is not None and a["unconditional"] and (
        any(is_call(peel(av), "Duration::from_secs") for av in avs)
        # the arm may keep the raw seconds and the handshake convert them where it applies them
        or (len(v) == 1 and is_call(peel(v[0][2]), "Duration::from_secs")
            and any(peel(av)[0] == "agg" and peel(av)[3] == "Some" and any(x[0] == "downcast" and x[2] == "ServerKeepAlive" for x in walk(av))
                    for av in avs)))
    R.ob("const/server-keepalive-honoured", okh,
         "a Server Keep Alive in the CONNACK always replaces the configured keep-alive (converted from seconds)",
         where=a["span"] if a else hb.span)
    roles.clause_connack_walk_complete(R, "const/connack-walk-complete")
    # and restarts the schedule after CONNACK
    noa = roles.method(f, RUNTIME, "note_outbound_activity")
    ka_store = [bb for (b, bb, vv, sp) in field_stores(f, "keepalive_interval") if b.name == hcode.name]
    cs = outq.calls_to(f, hcode, noa)
    okn = bool(cs) and bool(ka_store) and all(
        hcode.must_pass([0], [c.bb], via_blocks=ka_store)[0]
        # a conditional store (`if let Some(..) = server_keepalive`): no store can follow the (re)start of the schedule
        or not (set(ka_store) & hcode.reach([c.bb], include_start=False)) for c in cs) and \
        hcode.must_pass(ka_store, [r for r in hcode.returns], via_blocks=[c.bb for c in cs] + [bb for bb in hcode.returns if False])[0] is not None
    R.ob("const/schedule-after-connack", okn, "the ping schedule is (re)started after the effective keep-alive is known", where=hb.span)


def rule_inbound_first(R):
    """a PINGRESP that was received in time must not lead to a disconnect: in the drive loop a packet that is already
    complete in the reader is handled (it may be the PINGRESP that clears the deadline) *before* `service()` tests that
    deadline -- every call of `service` is reached only over the "no packet available" edge"""
    f = R.f
    cm = roles.conn_methods(f)
    b, code = cm["drive_packet"]
    R.touch(code)
    sv = cm.get("service")
    calls = outq.calls_to(f, code, sv[0]) if sv else []
    edges = []
    for bb in code.switches:
        if bb not in code.reachable:
            continue
        si = code.switch_info(bb)
        sj = peel(si["subject"])
        neg = False
        if sj[0] == "un" and sj[1] == "Not":
            sj, neg = peel(sj[2]), True
        if is_call(sj, "packet_available") and si["edges"].get(neg) is not None:
            edges.append((bb, si["edges"][neg]))       # the edge on which no complete packet is waiting
    # ... or behind an unconditional `process_received_packet()` (it takes the packet out of the reader when one is complete;
    # nothing in the drive loop reads from the transport, so none can arrive in between)
    prp = cm.get("process_received_packet")
    pblocks = [c.bb for c in outq.calls_to(f, code, prp[0])] if prp else []
    ok = bool(calls) and (bool(edges) or bool(pblocks)) and \
        all(code.must_pass([0], [c.bb], via_edges=edges, via_blocks=pblocks)[0] for c in calls)
    R.ob("check/inbound-before-expiry", ok,
         "Connection::drive_packet calls service() (which tests the PINGRESP deadline first) only when no complete inbound "
         "packet is waiting in the reader (%d calls, %d tests)" % (len(calls), len(edges)), where=b.span)


def run(R):
    R.rule("inbound-first", rule_inbound_first)
    R.rule("who", rule_who)
    R.rule("due", rule_due)
    R.rule("refresh", rule_refresh)
    R.rule("check", rule_check)
    R.rule("race", rule_race)
    R.rule("const", rule_const)
