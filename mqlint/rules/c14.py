"""C14 — Maximum Packet Size is honoured in both directions (structural clauses)."""
import re
from ..core import AnchorLost, chain, peel, phi_alts, is_call, walk, show, same_shape
from .. import paths
from . import roles, outq, ops
from .roles import CONN, RUNTIME, READER, OUTBOUND
from .c01 import write_sites
from .c11 import ordinal_keys

EXPLANATION = (
    "Static clauses of C14 on mir_built: (pred) every size predicate of the crate has the form `len > max as usize` on "
    "the Some(max) edge of the broker limit and yields PacketTooLarge on its true edge (sibling agreement of all four); "
    "(tx) every transport write inside a Connection method is dominated by the success edge of a size check of the bytes "
    "being written; in publish/subscribe/unsubscribe the size check's success edge dominates the enqueue; every "
    "acknowledgement / PUBREL / PINGREQ enqueue is dominated by the success edge of its size pre-check, whose failure "
    "reaches the latch (C11); (adv) CONNECT advertises the receive-buffer length, and the broker limit is only written "
    "by the handshake from the CONNACK property; (rx) the receive window is only sliced on the `end <= buffer.len()` "
    "edge and the other edge is an error. Sizes around the limit are not enumerated as values: the predicate form and "
    "its placement are decided."
)
ASSUMPTIONS = ["usize is at least 32 bits wide (max as usize does not truncate)"]


LIMIT = "maximum_packet_size"


def _too_large(v):
    return v is not None and v[0] == "agg" and v[3] == "Err" and "PacketTooLarge" in show(v)


def size_checkers(f):
    """functions that themselves answer PacketTooLarge from a comparison with the broker limit (`direct`), and wrappers
    returning the result of such a function (`allc`)"""
    direct = set()
    for b in f.bodies.values():
        if b.kind not in ("fn", "assoc_fn") or f.in_fuzzing(b):
            continue
        builds = any("agg" in s["rv"] and s["rv"]["agg"].get("variant") == "PacketTooLarge" for bb, j, s in b.assigns() if bb in b.reachable)
        if not builds:
            continue
        reads_limit = any(si["enum"] == "core::option::Option" and (chain(si["subject"])[1][-1:] == [LIMIT] or chain(si["subject"]) == (("param", LIMIT), []))
                          for si in (b.switch_info(bb) for bb in b.switches if bb in b.reachable))
        if reads_limit:
            direct.add(b.name)
    allc = set(direct)
    changed = True
    while changed:
        changed = False
        for b in f.bodies.values():
            if b.name in allc or b.kind not in ("fn", "assoc_fn") or f.in_fuzzing(b):
                continue
            for alt in phi_alts(b.local_term(0)):
                a = peel(alt)
                if a[0] == "call" and a[2] in allc:
                    allc.add(b.name)
                    changed = True
                # `checker(limit, len)?` : the refusal is handed on through `?` (with the crate's own `From` conversion)
                elif is_call(a, "core::ops::FromResidual::from_residual") and a[3] and isinstance(a[3][0], tuple) and a[3][0][0] == "residual":
                    r_ = peel(a[3][0][1])
                    if isinstance(r_, tuple) and r_[0] == "call" and r_[2] in allc and b.name not in allc:
                        allc.add(b.name)
                        changed = True
    return direct, allc, {}


def rule_pred(R):
    """each checker, read as a decision over (limit absent / present): absent -> never PacketTooLarge; present ->
    PacketTooLarge exactly where `len > limit as usize` was tested and holds"""
    f = R.f
    from .. import optsem, panics
    direct, allc, _ = size_checkers(f)
    n = 0
    for name in sorted(direct):
        b = f.bodies[name]
        R.touch(b)
        key = b.fn_name + ("@" + b.self_ty.split("::")[-1].split("<")[0] if b.self_ty else "")
        none_o = optsem.decide(b, {LIMIT: "None"})
        some_o = optsem.decide(b, {LIMIT: "Some"})
        ok_none = bool(none_o) and not any(_too_large(v) for o in none_o for v in o["values"])

        def limit_cmp(t):
            """canonical `limit as usize < len` (i.e. len > limit as usize), None otherwise"""
            c = panics.canon_cmp(t) if isinstance(t, tuple) else None
            if c is None:
                return None
            op, l, r = c
            if LIMIT in l and "as usize" in l and LIMIT not in r:
                return op
            if LIMIT in r and "as usize" in r and LIMIT not in l:
                return {"<": ">", "<=": ">=", "==": "==", "!=": "!="}.get(op)
            return None
        form_ok = True
        verdict_ok = bool(some_o)
        hits = 0
        found = []
        for o in (some_o or []):
            tl = any(_too_large(v) for v in o["values"])
            t_ops = [limit_cmp(t) for t in o["true"]]
            f_ops = [limit_cmp(t) for t in o["false"]]
            found += [x for x in t_ops + f_ops if x]
            if tl:
                hits += 1
                # the refusal requires a test that held: `limit as usize < len`
                if "<" not in t_ops:
                    verdict_ok = False
                    if any(x for x in t_ops + f_ops if x):
                        form_ok = False
                if not all(_too_large(v) for v in o["values"]):
                    verdict_ok = False
            else:
                # an accepted packet was not tested to exceed the limit
                if "<" in t_ops:
                    verdict_ok = False
        if any(x not in ("<",) for x in found):
            form_ok = False
        n += 1
        R.ob("pred/form/%s" % key, form_ok and bool(found),
             "size predicate in %s must be `len > max as usize` (a packet of exactly the maximum size is legal, one byte more "
             "is not); found comparison(s) %s of `limit as usize` with the length" % (b.fn_name, sorted(set(found))), where=b.span)
        R.ob("pred/verdict/%s" % key, ok_none and verdict_ok and hits >= 1,
             "%s answers PacketTooLarge exactly on the edge where the predicate holds for a present broker limit, and never "
             "without a limit" % b.fn_name, where=b.span)
    # at least one function compares against the limit itself, and the four places that need a verdict (control packets,
    # PUBREL, retained packets, direct writes) have one -- directly or through a wrapper
    R.floor("pred", n if n >= 1 and len(allc) >= 4 else 0, 1, "size predicates (with %d checker functions in all)" % len(allc))


def checker_cont_edges(f, code, allc):
    edges = []
    checks = []
    for c in code.calls.values():
        if c.bb in code.reachable and any(t in allc for t in f.call_targets(c)):
            ce, _ = ops.cont_edges(code, c)
            edges += ce
            checks.append(c)
    return edges, checks


def rule_tx(R):
    f = R.f
    direct, allc, owners = size_checkers(f)
    cm = roles.conn_methods(f)
    n = 0
    for name, (b, code) in sorted(cm.items()):
        ws = write_sites(f, code)
        if not ws:
            continue
        R.touch(code)
        edges, checks = checker_cont_edges(f, code, allc)
        for c, k in ordinal_keys(ws):
            n += 1
            ok = bool(edges) and code.must_pass([0], [c.bb], via_edges=edges)[0]
            if bool(edges) and not ok:
                # path-sensitive (the step is prepared in per-kind arms and matched again later)
                ok, off, np_ = paths.every_path_passes(code, 0, c.bb, via_edges=edges)
                R.stats["paths"] += np_
            R.ob("tx/%s/%s" % (name, k), ok,
                 "the transport write `%s` in Connection::%s is dominated by the success edge of a Maximum Packet Size "
                 "check on every path" % (c.name(), name), where=c.span)
    R.floor("tx", n, 3, "transport writes in Connection methods")
    # size check before enqueue in the three operations, applied to the encoded length
    for op in ops.ENQ_OPS:
        P = ops.pipeline(f, op)
        code = P.code
        edges, checks = checker_cont_edges(f, code, allc)
        ret = ops.first(P.retains, "retain", op)
        ok = bool(edges) and code.must_pass([0], [ret.bb], via_edges=edges)[0]
        R.ob("tx/enqueue/%s" % op, ok,
             "%s retains (and later sends) its packet only after the Maximum Packet Size check succeeded" % op, where=ret.span)
        # the checked length is the length of the encoded packet that is retained
        enc = ops.first(P.encodes, "encode", op)
        okl = False
        for sc in P.sizechecks:
            lt = code.operand_term(sc.args[1])
            rl = code.operand_term(ret.args[3]) if len(ret.args) > 3 else None
            if rl is not None and same_shape(lt, rl) and any(x[0] == "call" and x[1] == enc.bb for x in walk(lt)):
                okl = True
        R.ob("tx/enqueue-length/%s" % op, okl,
             "the length checked against the broker limit in %s is the length of the packet just encoded and retained" % op,
             where=ret.span)
    # pre-checks of queued control packets
    qc = outq.role_fn(f, "queue_control")
    qr = outq.role_fn(f, "queue_release")
    m = 0

    def checked_edges(b, arg):
        """success edges of the size checks in b that are applied to the packet identified by `arg` (the check receives
        it, or a length computed from it)"""
        edges, checks = checker_cont_edges(f, b, allc)
        good = []
        for ck in checks:
            for a in ck.args:
                if any(same_shape(x, arg) for x in walk(b.operand_term(a)) if isinstance(x, tuple)):
                    ce, _ = ops.cont_edges(b, ck)
                    good += ce
                    break
        return good

    def checks_itself(target):
        """the enqueue function checks the size of what it is about to queue before it pushes it"""
        tb = f.code(target)
        if tb.arg_count < 2:
            return False
        pushes = [c for c in tb.calls.values() if c.bb in tb.reachable and c.is_("push")]
        good = checked_edges(tb, ("param", tb.param_name(2)))
        return bool(pushes) and bool(good) and all(tb.must_pass([0], [pc.bb], via_edges=good)[0] for pc in pushes)

    internal = {target.name: checks_itself(target) for target in (qc, qr)}
    for b in f.bodies.values():
        if f.in_fuzzing(b):
            continue
        for target in (qc, qr):
            for c in outq.calls_to(f, b, target):
                m += 1
                # the check must be applied to the same action / id
                arg = b.operand_term(c.args[1])
                good = checked_edges(b, arg)
                ok = internal[target.name] or (bool(good) and b.must_pass([0], [c.bb], via_edges=good)[0])
                R.ob("tx/precheck/%s#%d" % (b.fn_name, m), ok,
                     "`%s` in %s is dominated by the success edge of the size pre-check of the very packet it queues: if a "
                     "mandatory acknowledgement does not fit the broker limit the connection is closed instead (the error "
                     "is latched, C11)" % (target.fn_name, b.fn_name), where=c.span)
    R.floor("tx/precheck", m, 5, "control / release enqueue sites")


def clause_connect_property(R, key):
    f = R.f
    call, hb, hcode = roles.handshake(f)
    R.touch(hcode)
    ok = False
    for bb, j, s in hcode.assigns():
        rv = s["rv"]
        if "agg" in rv and rv["agg"].get("adt") == "properties::Property" and rv["agg"].get("variant") == "MaximumPacketSize":
            t = hcode.rvalue_term(rv)
            v = t[5][0]
            inner = peel(v[2]) if v[0] == "cast" else None
            if inner is not None and not is_call(inner, "len"):
                inner = peel(roles.expand_getter(f, inner))   # an accessor such as PacketReader::capacity()
            ok = v[0] == "cast" and inner is not None and is_call(inner, "len") and chain(peel(inner[3][0]))[1][-2:] == ["packet_reader", "buffer"]
    R.ob(key, ok,
         "CONNECT advertises Maximum Packet Size = length of the receive buffer", where=hb.span)


def rule_adv(R):
    f = R.f
    call, hb, hcode = roles.handshake(f)
    clause_connect_property(R, "adv/connect-property")
    n = 0
    for (b, bb, j, dst, rv, s, final) in f.field_stores(RUNTIME, "maximum_packet_size"):
        n += 1
        t = b.rvalue_term(rv)
        okw = b.name == hcode.name and all(
            (a[0] == "agg" and a[3] == "None") or (a[0] == "agg" and a[3] == "Some" and any(
                x[0] == "downcast" and x[2] == "MaximumPacketSize" for x in walk(a))) for a in phi_alts(t))
        R.ob("adv/limit-writer/%s" % b.fn_name, okw,
             "the broker limit is only written by the handshake: None, or the CONNACK's Maximum Packet Size (found %s in %s)"
             % (show(t), b.fn_name), where=s["span"])
    R.floor("adv/limit-writer", n, 1, "stores to maximum_packet_size")
    roles.clause_negotiated_per_connection(R, "adv", ("maximum_packet_size",))
    roles.clause_connack_walk_complete(R, "adv/connack-walk-complete")
    arms = roles.connack_property_arms(f)
    a = arms.get("MaximumPacketSize")
    ok = a is not None and a["unconditional"] and any(v[0] == "agg" and v[3] == "Some" and chain(v[5][0])[1][-2:] == ["@MaximumPacketSize", "0"]
                                                      for v in roles.arm_values_for(a, RUNTIME, "maximum_packet_size"))
    R.ob("adv/limit-honoured", ok,
         "whenever the CONNACK carries a Maximum Packet Size it becomes the broker limit, unconditionally and unmodified "
         "(a limit that is dropped for some values lets oversize packets through)", where=a["span"] if a else hb.span)


def rule_rx(R):
    f = R.f
    rb = roles.method(f, READER, "receive_buffer")
    R.touch(rb)
    idx = [c for c in rb.calls.values() if c.bb in rb.reachable and c.is_("index_mut", "IndexMut::index_mut", "Index::index")]
    ok = bool(idx)
    for c in idx:
        rng = peel(rb.operand_term(c.args[1]))
        end = rng[5][1] if rng[0] == "agg" and rng[4] == ["start", "end"] else None
        start = rng[5][0] if end is not None else None
        guard = []
        from .. import panics as _panics
        for bb in rb.switches:
            si = rb.switch_info(bb)
            cc = _panics.canon_cmp(si["subject"])
            if cc is None or end is None:
                continue
            # the edge on which `end <= buffer.len()` holds, however the test is spelled (`end <= len`, `!(end > len)`, ..)
            for lab in (True, False):
                c2 = cc if lab else _panics.negate(cc)
                # the bound is exactly `buffer.len()` -- no arithmetic around it
                exact_len = re.match(r"^(<impl \[T\]>::|\[T\]::|core::slice::<impl \[T\]>::)?len\(&?\**\(?\**self\.buffer\)?\)$", c2[2]) is not None
                if c2[0] == "<=" and c2[1] == _panics.show(peel(end)) and exact_len and si["edges"].get(lab) is not None:
                    guard.append((bb, si["edges"][lab], si["edges"].get(not lab)))
        okc = bool(guard) and rb.must_pass([0], [c.bb], via_edges=[(g[0], g[1]) for g in guard])[0]
        okc = okc and start is not None and chain(start)[1] == ["read_bytes"]
        # the false edge returns an error
        for g in guard:
            if g[2] is None:
                okc = False
                continue
            vals = [rb.rvalue_term(s["rv"]) for x in rb.reach([g[2]], avoid=[g[1]]) for s in rb.blocks[x]["stmts"]
                    if s["k"] == "assign" and s["dst"]["l"] == 0 and not s["dst"]["proj"]]
            okc = okc and bool(vals) and all(v[0] == "agg" and v[3] == "Err" for v in vals)
        ok = ok and okc
    R.ob("rx/window", ok,
         "the receive window buffer[read_bytes..end] is only taken on the edge `end <= buffer.len()`; a declared packet "
         "length beyond the receive buffer is an error instead of an overrun", where=rb.span)
    # the error of receive_buffer reaches the latch: covered by C11.fatal for read_packet; here: fill propagates it
    fp = roles.free_fn(f, "fill_packet_reader")
    fcode = f.code(fp)
    cs = outq.calls_to(f, fcode, rb)
    okp = len(cs) == 1 and bool(fcode.q_edges(lambda x: peel(x)[0] == "call" and peel(x)[1] == cs[0].bb))
    R.ob("rx/propagated", okp, "fill_packet_reader propagates the reader's refusal with `?`", where=fp.span)


def rule_rx_latch(R):
    """an inbound packet beyond the limit ends the connection: the reader's refusal (and every other fatal inbound error)
    latches the handle before it is returned -- the inbound part of C11's latch rule, as under C08"""
    from .c08 import rule_latch as _r
    _r(R)


def run(R):
    R.rule("latch", rule_rx_latch)
    R.rule("pred", rule_pred)
    R.rule("tx", rule_tx)
    R.rule("adv", rule_adv)
    R.rule("rx", rule_rx)
