"""Census of everything that touches the three outbound queues and the transmit arena of `Outbound`
(who-may-mutate facts), and the roles derived from it."""
from ..core import AnchorLost, chain, peel, phi_alts, is_call, walk, show, ELEM
from . import roles
from .roles import OUTBOUND, SDATA, cached

QUEUES = ("pending_control", "retained", "pending_release")
SHRINK = ("remove", "swap_remove", "swap_remove_unchecked", "retain", "retain_mut", "clear", "pop", "pop_unchecked",
          "truncate", "drain", "set_len", "split_off", "dedup", "dedup_by", "dedup_by_key")
ORDER_BREAKING = ("swap_remove", "swap_remove_unchecked", "swap", "reverse", "sort", "sort_by", "sort_by_key",
                  "sort_unstable", "sort_unstable_by", "sort_unstable_by_key", "rotate_left", "rotate_right", "insert")
GROW = ("push", "push_unchecked", "extend", "extend_from_slice", "insert", "resize", "resize_default")
READONLY_VIEWS = ("iter", "len", "is_empty", "is_full", "capacity", "deref", "as_slice", "contains", "first", "last",
                  "get", "into_iter")


def mname(c):
    p = c.path or ""
    return p.split("::<")[-1] if False else p.rsplit("::", 1)[-1]


def elem_sources(f, b, it, depth=0):
    """Where the elements of an iterator expression come from, as [(queue, [field names applied on the way])] -- for
    adaptor trees such as `a.iter_mut().map(|e| &mut e.state).chain(b.iter_mut().map(..))`.  [] when the expression is
    not (only) made of queue iterators, chain and map."""
    if depth > 6:
        return []
    out = []
    for alt in phi_alts(it):
        x = alt
        while isinstance(x, tuple) and (x[0] in ("ref", "deref") or is_call(x, "core::iter::IntoIterator::into_iter", "core::iter::Iterator::by_ref")):
            x = x[1] if x[0] in ("ref", "deref") else x[3][0]
        if is_call(x, "core::iter::Iterator::chain") and len(x[3]) == 2:
            a = elem_sources(f, b, x[3][0], depth + 1)
            c = elem_sources(f, b, x[3][1], depth + 1)
            if not a or not c:
                return []
            out += a + c
            continue
        if is_call(x, "core::iter::Iterator::map") and len(x[3]) == 2:
            from .ops import _closure_defs
            inner = elem_sources(f, b, x[3][0], depth + 1)
            defs = _closure_defs(x[3][1])
            if not inner or len(defs) != 1 or defs[0] not in f.bodies:
                return []
            cb = f.bodies[defs[0]]
            if cb.arg_count < 2:
                return []
            names = None
            for ralt in phi_alts(cb.local_term(0)):
                root, ns = chain(ralt)
                if root != ("param", cb.param_name(2)):
                    return []
                ns = [n for n in ns if not n.startswith("@") and n not in ("0", "#")]
                if names is not None and names != ns:
                    return []
                names = ns
            out += [(q, pre + (names or [])) for (q, pre) in inner]
            continue
        root, names = chain(x, extra=ELEM)
        hit = [q for q in QUEUES if q in names and _names_of_outbound(x, q)]
        if len(hit) != 1:
            return []
        q = hit[0]
        out.append((q, [n for n in names[names.index(q) + 1:] if not n.startswith("@") and n not in ("0", "#")]))
    return out


@cached
def census(f):
    """queue -> {'calls': [(body, call, method, is_mut)], 'elem_stores': [(body, bb, field, value_term, span)]}"""
    out = {q: {"calls": [], "elem_stores": [], "stores": [], "closure_sites": {}} for q in QUEUES}
    for b in f.bodies.values():
        if f.in_fuzzing(b):
            continue
        for c in b.calls.values():
            if c.bb not in b.reachable or not c.args:
                continue
            t = b.operand_term(c.args[0])
            for alt in phi_alts(t):
                x = alt
                mut = False
                direct = True
                while isinstance(x, tuple) and x[0] in ("ref", "deref"):
                    if x[0] == "ref" and x[2]:
                        mut = True
                    x = x[1]
                if x[0] == "field" and x[3] == OUTBOUND and x[2] in QUEUES:
                    out[x[2]]["calls"].append((b, c, mname(c), mut))
        for (bb, j, dst, rv, s) in b.stores():
            if bb not in b.reachable:
                continue
            t = b.place_term(dst)
            root, names = chain(t, extra=ELEM)
            for q in QUEUES:
                if q in names and _names_of_outbound(t, q):
                    i = names.index(q)
                    rest = [n for n in names[i + 1:] if not n.startswith("@") and n not in ("0", "#")]
                    if rest:
                        out[q]["elem_stores"].append((b, bb, rest[-1], b.rvalue_term(rv), s["span"]))
                    else:
                        out[q]["stores"].append((b, bb, b.rvalue_term(rv), s["span"]))
            if not any(q in names for q in QUEUES):
                # the element of an adaptor tree over several queues (`for state in a.chain(b).chain(c) { *state = .. }`)
                r0, n0 = chain(t)
                if is_call(r0, "core::iter::Iterator::next") and r0[3] and any(_names_of_outbound(r0, q) for q in QUEUES):
                    tail = [n for n in n0 if not n.startswith("@") and n not in ("0", "#")]
                    for (q, pre) in elem_sources(f, b, r0[3][0]):
                        rest = pre + tail
                        if rest:
                            out[q]["elem_stores"].append((b, bb, rest[-1], b.rvalue_term(rv), s["span"]))
        # element mutation through a method call on `&mut elem.field` (e.g. entry.state.set_written(..))
        for c in b.calls.values():
            if c.bb not in b.reachable or not c.args:
                continue
            t = b.operand_term(c.args[0])
            x = t
            mut = False
            while isinstance(x, tuple) and x[0] in ("ref", "deref"):
                if x[0] == "ref" and x[2]:
                    mut = True
                x = x[1]
            if not mut:
                continue
            root, names = chain(x, extra=ELEM)
            for q in QUEUES:
                if q in names and _names_of_outbound(x, q):
                    i = names.index(q)
                    rest = [n for n in names[i + 1:] if not n.startswith("@") and n not in ("0", "#")]
                    if rest:
                        out[q]["elem_stores"].append((b, c.bb, rest[-1], ("call", c.bb, c.key, [b.operand_term(a) for a in c.args], c.path), c.span))
    # closures applied to every element: `queue.iter_mut().for_each(|entry| ...)`
    for b in list(f.bodies.values()):
        if f.in_fuzzing(b):
            continue
        for c in b.calls.values():
            if c.bb not in b.reachable or len(c.args) < 2:
                continue
            t0 = b.operand_term(c.args[0])
            q = None
            for qq in QUEUES:
                if _names_of_outbound(t0, qq):
                    q = qq
            if q is None:
                continue
            from .ops import _closure_defs
            # projection already applied to the element before the closure sees it,
            # e.g. `queue.iter_mut().find(..).map(|e| &mut e.state).map(|state| *state = ..)`
            pre = []
            for alt0 in phi_alts(t0):
                r0, n0 = chain(alt0, extra=ELEM)
                if q in n0:
                    pre = [n for n in n0[n0.index(q) + 1:] if not n.startswith("@") and n not in ("0", "#")]
                    break
            for a in c.args[1:]:
                for d in _closure_defs(b.operand_term(a)):
                    cb = f.bodies.get(d)
                    if cb is None or cb.arg_count < 2:
                        continue
                    pname = cb.param_name(2)
                    every = mname(c) in ("for_each",)
                    for (bb, j, dst, rv, s2) in cb.stores():
                        if bb not in cb.reachable:
                            continue
                        root, names = chain(cb.place_term(dst), extra=ELEM)
                        rest = pre + [n for n in names if not n.startswith("@") and n not in ("0", "#")]
                        if root == ("param", pname) and rest:
                            out[q]["elem_stores"].append((b, c.bb, rest[-1], cb.rvalue_term(rv), s2["span"]))
                            out[q]["closure_sites"][(b.name, c.bb, rest[-1])] = (cb, bb, every)
                    for c2 in cb.calls.values():
                        if c2.bb not in cb.reachable or not c2.args:
                            continue
                        x = cb.operand_term(c2.args[0])
                        mut = False
                        while isinstance(x, tuple) and x[0] in ("ref", "deref"):
                            if x[0] == "ref" and x[2]:
                                mut = True
                            x = x[1]
                        root, names = chain(x, extra=ELEM)
                        rest = pre + [n for n in names if not n.startswith("@") and n not in ("0", "#")]
                        if mut and root == ("param", pname) and rest:
                            val = ("call", c2.bb, c2.key, [cb.operand_term(a2) for a2 in c2.args], c2.path)
                            out[q]["elem_stores"].append((b, c.bb, rest[-1], val, c2.span))
                            out[q]["closure_sites"][(b.name, c.bb, rest[-1])] = (cb, c2.bb, every)
    return out


def _names_of_outbound(t, q):
    for x in walk(t):
        if x[0] == "field" and x[2] == q and x[3] == OUTBOUND:
            return True
    return False


def fns_calling(f, q, methods, mut_only=True):
    cen = census(f)
    return sorted(set(b.name for (b, c, m, mut) in cen[q]["calls"] if m in methods and (mut or not mut_only)))


@cached
def role_fn(f, role):
    """structural roles over the census"""
    table = {
        "enqueue": ("retained", GROW),
        "queue_release": ("pending_release", GROW),
        "queue_control": ("pending_control", GROW),
        "retained_removal": ("retained", ("remove", "swap_remove", "retain")),
        "release_removal": ("pending_release", ("remove", "swap_remove", "retain")),
        "clear": ("retained", ("clear",)),
    }
    q, ms = table[role]
    c = fns_calling(f, q, ms)
    if len(c) != 1:
        raise AnchorLost("outbound:" + role, "expected one function calling %s on `%s`, found %s" % ("/".join(ms), q, c))
    return f.bodies[c[0]]


def is_write0(t):
    """term is SendState::Write{written: 0}"""
    t = peel(t)
    return (isinstance(t, tuple) and t[0] == "agg" and t[1] == "adt" and t[2] and t[2].endswith("SendState")
            and t[3] == "Write" and t[5] and t[5][0][0] == "const" and t[5][0][2] == 0)


def is_sent(t):
    t = peel(t)
    return isinstance(t, tuple) and t[0] == "agg" and t[1] == "adt" and t[2] and t[2].endswith("SendState") and t[3] == "Sent"


def helper_write0(f, val):
    """`val` is a call to a local function that stores Write{written:0} into `*self`: 'always' if on every path,
    'sometimes' if only on some, None otherwise"""
    if not (isinstance(val, tuple) and val[0] == "call" and val[2] in f.bodies):
        return None
    hb = f.bodies[val[2]]
    sb = []
    for (bb, j, dst, rv, s) in hb.stores():
        if bb in hb.reachable and dst["proj"] == ["deref"] and dst["l"] == 1 and is_write0(hb.rvalue_term(rv)):
            sb.append(bb)
    if not sb:
        return None
    ok, _ = hb.must_pass([0], hb.returns, via_blocks=sb)
    return "always" if ok else "sometimes"


def loop_head_of(body, bb):
    """block of the innermost `next()` call whose Some edge dominates bb (the `for` loop bb sits in), or None"""
    best = None
    for sb in body.switches:
        si = body.switch_info(sb)
        if si["enum"] == "core::option::Option" and si["edges"].get("Some") is not None:
            for alt in phi_alts(si["subject"]):
                if is_call(alt, "core::iter::Iterator::next") and body.dominates(si["edges"]["Some"], bb):
                    if best is None or body.dominates(best[0], si["edges"]["Some"]):
                        best = (si["edges"]["Some"], alt[1])
    return best[1] if best else None


def unconditional_in_loop(body, store_bb):
    """the store block lies on every path of the enclosing `for` loop body (from the Some edge of the iterator's
    next() back to the next() call)"""
    best = None
    for bb in body.switches:
        si = body.switch_info(bb)
        if si["enum"] == "core::option::Option" and si["edges"].get("Some") is not None:
            for alt in phi_alts(si["subject"]):
                if is_call(alt, "core::iter::Iterator::next") and body.dominates(si["edges"]["Some"], store_bb):
                    if best is None or body.dominates(best[0], si["edges"]["Some"]):
                        best = (si["edges"]["Some"], alt[1])
    if best is None:
        return True  # not in a recognised loop: a plain store
    some_t, next_bb = best
    ok, _ = body.must_pass([some_t], [next_bb], via_blocks=[store_bb])
    return ok


@cached
def rearm_sites(f):
    """fn name -> {queue: 'always' | 'sometimes'}: functions that reset *existing* queue elements to
    Write{written:0}, directly or through a helper, and whether they do so for every element on every path"""
    cen = census(f)
    out = {}
    for q in QUEUES:
        for (b, bb, field, val, span) in cen[q]["elem_stores"]:
            if field != "state":
                continue
            how = None
            if is_write0(val):
                how = "always"
            else:
                how = helper_write0(f, val)
            if how is None:
                continue
            cs = cen[q]["closure_sites"].get((b.name, bb, field))
            if cs is not None:
                cb, cbb, every = cs
                if how == "always" and not (every and cb.must_pass([0], cb.returns, via_blocks=[cbb])[0]):
                    how = "sometimes"
            elif how == "always" and not unconditional_in_loop(b, bb):
                how = "sometimes"
            prev = out.setdefault(b.name, {}).get(q)
            out[b.name][q] = how if prev is None or prev == how else "sometimes"
    return out


@cached
def rearm_fns(f):
    """functions that store SendState::Write{written:0} into *existing* queue elements"""
    out = {n: set(qs) for n, qs in rearm_sites(f).items()}
    if not out:
        raise AnchorLost("re-arm", "no function resets queue entries to Write{written:0}")
    return out


@cached
def dup_patch_fns(f):
    """functions storing `buf[i] | c` into arena bytes"""
    out = []
    for b in f.bodies.values():
        if f.in_fuzzing(b):
            continue
        for (bb, j, dst, rv, s) in b.stores():
            if bb not in b.reachable:
                continue
            t = b.place_term(dst)
            if t[0] == "index":
                root, names = chain(t[1])
                if names and names[-1] == "buf" and _field_of(t[1], "buf", OUTBOUND):
                    out.append((b, bb, t, b.rvalue_term(rv), s["span"]))
    return out


def _field_of(t, name, adt):
    for x in walk(t):
        if x[0] == "field" and x[2] == name and x[3] == adt:
            return True
    return False


def _counter_fields(f):
    """names of the 16-bit scalar fields of SessionData (the identifier counter, whatever it is called)"""
    out = []
    for v in f.adts.get(SDATA, {}).get("variants", [{}])[0].get("fields", []):
        ty = v.get("ty") or ""
        if ty == "u16" or ("NonZero" in ty and "u16" in ty):
            out.append(v["name"])
    return out


@cached
def allocator(f):
    """the identifier allocator: the SessionData method returning u16 that (transitively) writes the 16-bit counter
    field of SessionData and is the one the enqueueing operations call"""
    names = _counter_fields(f)
    cands = []
    for b in f.bodies.values():
        if b.kind == "assoc_fn" and roles.self_is(b, SDATA) and b.locals[0]["ty"] == "u16" and not f.in_fuzzing(b):
            reach = f.reachable_bodies([b.name])
            writes = False
            for n in reach:
                rb = f.bodies[n]
                for (bb, j, dst, rv, s) in rb.stores():
                    if bb not in rb.reachable:
                        continue
                    if any(isinstance(e, dict) and e.get("name") in names and e.get("of") == SDATA for e in dst["proj"]):
                        writes = True
                    else:
                        # through a `&mut self.<counter>` handed to a helper that was folded in
                        t_ = rb.place_term(dst)
                        if any(isinstance(x, tuple) and x[0] == "field" and x[2] in names and x[3] == SDATA for x in walk(t_)):
                            writes = True
            if writes:
                cands.append(b)
    if len(cands) > 1:
        # prefer the one called from outside SessionData (the operations), not internal helpers
        ext = []
        for b in cands:
            for o in f.bodies.values():
                if o.name == b.name or f.in_fuzzing(o):
                    continue
                owner = f.bodies.get(o.root, o)
                if not roles.self_is(owner, SDATA) and calls_to(f, o, b):
                    ext.append(b)
                    break
        cands = ext
    if len(cands) != 1:
        raise AnchorLost("id-allocator", "expected one SessionData method returning u16 that advances the 16-bit counter %s and is "
                         "called by the operations, found %s" % (names, [b.fn_name for b in cands]))
    return cands[0]


def counter_field(f):
    """(name, type) of the counter field the allocator advances"""
    alloc = allocator(f)
    names = _counter_fields(f)
    hit = set()
    for n in f.reachable_bodies([alloc.name]):
        rb = f.bodies[n]
        for (bb, j, dst, rv, s) in rb.stores():
            if bb in rb.reachable:
                for e in dst["proj"]:
                    if isinstance(e, dict) and e.get("name") in names and e.get("of") == SDATA:
                        hit.add(e["name"])
                for x in walk(rb.place_term(dst)):
                    if isinstance(x, tuple) and x[0] == "field" and x[2] in names and x[3] == SDATA:
                        hit.add(x[2])
    if len(hit) != 1:
        raise AnchorLost("id-counter", "expected one counter field advanced by the allocator, found %s" % sorted(hit))
    nm = hit.pop()
    ty = [v["ty"] for v in f.adts[SDATA]["variants"][0]["fields"] if v["name"] == nm][0]
    return nm, ty


@cached
def session_reset(f):
    c = []
    for (b, bb, j, dst, rv, s, final) in f.field_stores(SDATA, "session_present"):
        t = b.rvalue_term(rv)
        if t[0] == "const" and t[2] == 0 and b.kind == "assoc_fn" and b.fn_name != "new":
            c.append(b.name)
    c = sorted(set(c))
    if len(c) != 1:
        raise AnchorLost("session-reset", "expected one method storing false into session_present, found %s" % c)
    return f.bodies[c[0]]


@cached
def inbound_handler(f):
    c = []
    for b in f.bodies.values():
        if b.kind != "assoc_fn" or not roles.self_is(b, SDATA):
            continue
        for bb in b.switches:
            si = b.switch_info(bb)
            if si["enum"] and si["enum"].endswith("ReceivedPacket") and len(si["edges"]) >= 9:
                root, names = chain(si["subject"])
                if root[0] == "param":
                    c.append((b, bb))
    if len(c) != 1:
        raise AnchorLost("inbound-handler", "expected one SessionData method matching on ReceivedPacket, found %d" % len(c))
    return c[0]


def handler_arm(f, variant):
    """(body, entry block of the arm for ReceivedPacket::<variant>, blocks of the arm)"""
    b, sw = inbound_handler(f)
    si = b.switch_info(sw)
    if variant not in si["edges"]:
        raise AnchorLost("inbound-arm:" + variant)
    entry = si["edges"][variant]
    others = [t for v, t in si["edges"].items() if v != variant]
    blocks = b.reach([entry]) - set()
    return b, entry, blocks


def targets_fn(f, c, body):
    """call c may enter function `body` (or its coroutine)"""
    tg = f.call_targets(c)
    return body.name in tg


def calls_to(f, code, body):
    return [c for c in code.calls.values() if c.bb in code.reachable and targets_fn(f, c, body)]


# ----------------------------------------------------------------------------------------------
# "the entry that is removed is the entry that was looked up"

def _position_sites(body):
    """{dst local: note} for every `position(..)` that was read as a loop (normalize.py leaves a note)"""
    out = {}
    for i, bl in enumerate(body.blocks):
        if bl["cleanup"] or i not in body.reachable:
            continue
        for s in bl["stmts"]:
            if s["k"] == "note" and s.get("what") == "position" and not s["dst"]["proj"]:
                out[s["dst"]["l"]] = s
    return out


def index_sources(body, op, sites=None):
    """where the value of operand `op` (an index) comes from, following moves, `(x as Some).0` / `?` payloads,
    `Some(..)` wrappers and `+ const`: list of ('pos', note, offset, def block) | ('const', value, def block) | ('?', text)"""
    sites = _position_sites(body) if sites is None else sites
    defs = body.defs()
    out = []
    seen = set()

    def walk_place(pl, payload, offset, depth):
        # pl: raw place; payload: how many Some-payload projections are still to be resolved
        if depth > 40:
            out.append(("?", "depth"))
            return
        proj = list(pl["proj"])
        # `((it.next() as Some).0).0`: the index half of an `enumerate()` item
        enum_field = None
        if len(proj) >= 3 and isinstance(proj[-1], dict) and "f" in proj[-1] and not proj[-1].get("variant") \
                and isinstance(proj[-2], dict) and proj[-2].get("f") == 0 and isinstance(proj[-3], dict) and proj[-3].get("downcast") == "Some":
            enum_field = proj[-1]["f"]
            proj = proj[:-1]
        # strip `(x as Some).0` / `(x as Continue).0`
        while len(proj) >= 2 and isinstance(proj[-2], dict) and proj[-2].get("downcast") in ("Some", "Continue", "Ok") \
                and isinstance(proj[-1], dict) and proj[-1].get("f") == 0:
            payload += 1
            proj = proj[:-2]
        # `.k` of a tuple built on the way (closure arguments), `.0` of a checked addition
        fld = None
        if len(proj) == 1 and isinstance(proj[0], dict) and "f" in proj[0] and not proj[0].get("variant"):
            fld = proj[0]["f"]
            proj = []
        if proj:
            out.append(("?", "projection"))
            return
        l = pl["l"]
        key = (l, payload, offset, fld)
        if key in seen:
            return
        seen.add(key)
        if fld is not None:
            for d in defs.get(l, []):
                rv = body.blocks[d[1]]["stmts"][d[2]]["rv"] if d[0] == "stmt" else None
                if rv is not None and "agg" in rv and rv["agg"]["kind"] == "tuple" and fld < len(rv["ops"]):
                    o = rv["ops"][fld]
                    if "const" in o:
                        if payload == 0 and o["const"].get("value") is not None:
                            out.append(("const", o["const"]["value"] + offset, d[1]))
                        else:
                            out.append(("?", "constant"))
                    else:
                        walk_place(o.get("move") or o.get("copy"), payload, offset, depth + 1)
                elif rv is not None and "bin" in rv and rv["bin"].endswith("WithOverflow") and fld == 0:
                    walk_place({"l": l, "proj": []}, payload, offset, depth + 1)
                else:
                    out.append(("?", "field of a computed value"))
            return
        if l in sites and payload >= 1:
            out.append(("pos", sites[l], offset, None))
            return
        if enum_field is not None:
            hit = False
            for d in defs.get(l, []):
                if d[0] == "call" and body.calls[d[1]].is_("core::iter::Iterator::next") and body.calls[d[1]].args:
                    it = body.operand_term(body.calls[d[1]].args[0])
                    en = [x for x in walk(it) if isinstance(x, tuple) and is_call(x, "core::iter::Iterator::enumerate") and x[3]]
                    if en and enum_field == 0 and payload == 1:
                        out.append(("enumidx", en[0][3][0], offset, d[1]))
                        hit = True
            if not hit:
                out.append(("?", "field of a loop item"))
            return
        ds = defs.get(l, [])
        if not ds:
            out.append(("?", "no definition of _%d" % l))
        for d in ds:
            if d[0] == "arg":
                out.append(("?", "parameter"))
            elif d[0] == "call":
                c = body.calls[d[1]]
                if c.path in ("core::ops::Try::branch",) and c.args:
                    a = c.args[0].get("move") or c.args[0].get("copy")
                    if a is not None:
                        # (branch(x) as Continue).0 is (x as Some).0 / (x as Ok).0
                        walk_place(a, payload, offset, depth + 1)
                        continue
                if c.path == "core::ops::FromResidual::from_residual":
                    continue   # the failure variant: carries no index
                out.append(("?", "result of %s" % (c.path or "a call")))
            elif d[0] == "stmt":
                rv = body.blocks[d[1]]["stmts"][d[2]]["rv"]
                if "use" in rv:
                    cst = rv["use"].get("const")
                    src = rv["use"].get("move") or rv["use"].get("copy")
                    if cst is not None:
                        if payload == 0 and cst.get("value") is not None:
                            out.append(("const", cst["value"] + offset, d[1]))
                        else:
                            out.append(("?", "constant"))
                    else:
                        walk_place(src, payload, offset, depth + 1)
                elif "agg" in rv and rv["agg"]["kind"] == "adt" and rv["agg"].get("variant") in ("Some", "Continue", "Ok") and rv["ops"]:
                    if payload >= 1:
                        o = rv["ops"][0]
                        if "const" in o:
                            if payload == 1 and o["const"].get("value") is not None:
                                out.append(("const", o["const"]["value"] + offset, d[1]))
                            else:
                                out.append(("?", "constant"))
                        else:
                            walk_place(o.get("move") or o.get("copy"), payload - 1, offset, depth + 1)
                    else:
                        out.append(("?", "wrapped value used as index"))
                elif "agg" in rv and rv["agg"]["kind"] == "adt" and rv["agg"].get("variant") in ("None", "Break", "Err"):
                    continue   # carries no index
                elif "bin" in rv and rv["bin"] in ("Add", "AddWithOverflow", "AddUnchecked"):
                    a, b = rv["a"], rv["b"]
                    ca, cb_ = a.get("const"), b.get("const")
                    if cb_ is not None and cb_.get("value") is not None and "const" not in a:
                        walk_place(a.get("move") or a.get("copy"), payload, offset + cb_["value"], depth + 1)
                    elif ca is not None and ca.get("value") is not None and "const" not in b:
                        walk_place(b.get("move") or b.get("copy"), payload, offset + ca["value"], depth + 1)
                    else:
                        out.append(("?", "sum of two variables"))
                else:
                    out.append(("?", "computed value"))
            else:
                out.append(("?", d[0]))

    pl = op.get("move") or op.get("copy")
    if pl is None:
        c = op.get("const") or {}
        return [("const", c.get("value"), None)] if c.get("value") is not None else [("?", "constant")]
    walk_place(pl, 0, 0, 0)
    return out


def clause_removal_index(R, key, fn, q, id_param="packet_id", id_field="packet_id"):
    """In `fn`, every `remove(i)` on queue q removes the entry whose identifier is the one asked for: i is what
    `position(|e| e.<id_field> == <id_param>)` over the *whole* list returned -- or that position over the tail
    `list[1..]` plus one, or 0 under a test that the first entry matches.  An index into a sub-slice used on the whole
    list removes a neighbour: the exchange that was acknowledged stays, another one is dropped."""
    f = R.f
    code = f.code(fn)
    rms = [c for c in code.calls.values() if c.bb in code.reachable and mname(c) in ("remove", "swap_remove") and len(c.args) >= 2
           and any(x[0] == "field" and x[2] == q and x[3] == OUTBOUND for x in walk(code.operand_term(c.args[0])))]
    # `list.retain(|e| e.id != id)`: drops exactly the entries carrying that identifier
    rts = [c for c in code.calls.values() if c.bb in code.reachable and mname(c) in ("retain", "retain_mut") and len(c.args) >= 2
           and any(x[0] == "field" and x[2] == q and x[3] == OUTBOUND for x in walk(code.operand_term(c.args[0])))]
    ok = bool(rms) or bool(rts)
    why = "" if ok else "no removal found"
    for c in rts:
        if not _pred_is_id_eq(f, code, c.args[1], id_field, id_param, op="Ne"):
            ok, why = False, "retain() keeps entries by a test other than `entry.%s != %s`" % (id_field, id_param)
    sites = _position_sites(code)
    for c in rms:
        for src in index_sources(code, c.args[1], sites):
            if src[0] == "pos":
                note, off = src[1], src[2]
                recv = peel(code.operand_term(note["recv"]))
                whole = _iterates(recv, q, tail=False)
                tail = _iterates(recv, q, tail=True)
                pred_ok = _pred_is_id_eq(f, code, note["f"], id_field, id_param)
                extra = _pred_mutable_conditions(f, code, note, q, id_field, id_param)
                if not pred_ok:
                    ok, why = False, "the lookup's predicate is not `entry.%s == %s`" % (id_field, id_param)
                elif extra:
                    ok, why = False, ("besides the identifier the lookup also tests %s, which changes while the packet is in flight "
                                      "(send progress, compaction, the DUP patch): an acknowledgement can then be refused as stale"
                                      % extra[0])
                elif whole and off == 0:
                    pass
                elif tail and off == 1:
                    pass
                else:
                    ok = False
                    why = "the index comes from a search over %s, used with offset %d on the whole list" % (show(recv)[:80], off)
            elif src[0] == "enumidx":
                # `for (i, e) in list.iter().enumerate() { if e.id == id { list.remove(i) } }`
                recv, off, nbb = peel(src[1]), src[2], src[3]
                whole, tail = _iterates(recv, q, tail=False), _iterates(recv, q, tail=True)
                guarded = False
                for sb in code.switches:
                    if sb not in code.reachable:
                        continue
                    si = code.switch_info(sb)
                    sj = peel(si["subject"])
                    sides = None
                    if sj[0] == "bin" and sj[1] == "Eq":
                        sides = (peel(sj[2]), peel(sj[3]))
                    elif is_call(sj, "PartialEq::eq", "eq") and len(sj[3]) == 2:
                        sides = (peel(sj[3][0]), peel(sj[3][1]))
                    te = si["edges"].get(True)
                    if sides is None or te is None or not code.must_pass([0], [c.bb], via_edges=[(sb, te)])[0]:
                        continue
                    for a, b in (sides, sides[::-1]):
                        ra, na = chain(a)
                        ra = peel(ra)
                        if b == ("param", id_param) and na[-1:] == [id_field] and isinstance(ra, tuple) and ra[0] == "call" and ra[1] == nbb \
                                and [k for k in na if not k.startswith("@")][:2] == ["0", "1"]:
                            guarded = True
                if not guarded:
                    ok, why = False, "the removal is not guarded by `entry.%s == %s` on the item whose index is used" % (id_field, id_param)
                elif not ((whole and off == 0) or (tail and off == 1)):
                    ok, why = False, "the index enumerates %s, used with offset %d on the whole list" % (show(recv)[:80], off)
            elif src[0] == "const":
                good = False
                if src[1] == 0 and src[2] is not None:
                    for sb in code.switches:
                        if sb not in code.reachable:
                            continue
                        si = code.switch_info(sb)
                        sj = peel(si["subject"])
                        sides = None
                        if sj[0] == "bin" and sj[1] == "Eq":
                            sides = (peel(sj[2]), peel(sj[3]))
                        elif is_call(sj, "PartialEq::eq", "eq") and len(sj[3]) == 2:
                            sides = (peel(sj[3][0]), peel(sj[3][1]))
                        te = si["edges"].get(True)
                        if sides is None or te is None or not code.must_pass([0], [src[2]], via_edges=[(sb, te)])[0]:
                            continue
                        for a, b in (sides, sides[::-1]):
                            if b == ("param", id_param) and chain(a, extra=ELEM)[1][-1:] == [id_field] and _is_first_of(a, q):
                                good = True
                if not good:
                    ok, why = False, "the constant index %s is not guarded by a test that this entry is the one asked for" % (src[1],)
            else:
                ok, why = False, "the index is %s" % src[1]
    R.ob(key, ok,
         "`%s` removes from `%s` exactly the entry it looked up by identifier (the index handed to remove() is the position of "
         "the matching entry in the whole list)%s" % (fn.fn_name, q, "" if ok else " — " + why), where=fn.span)


def clause_removal_result(R, key, fn, q):
    """The removal function tells its caller whether an entry was removed -- the inbound handler returns a window slot,
    reports the acknowledgement and opens the release exchange on `true`, and treats the packet as stale on `false`.
    So: every path that returns true has removed an entry of q, every path that returns false has removed none; in the
    `retain` form the result is the comparison of the list length before and after."""
    from .. import paths as _paths
    f = R.f
    code = f.code(fn)
    def on_q(c):
        return len(c.args) >= 1 and any(x[0] == "field" and x[2] == q and x[3] == OUTBOUND for x in walk(code.operand_term(c.args[0])))
    rms = set(c.bb for c in code.calls.values() if c.bb in code.reachable and mname(c) in ("remove", "swap_remove") and on_q(c))
    rts = [c for c in code.calls.values() if c.bb in code.reachable and mname(c) in ("retain", "retain_mut") and on_q(c)]
    ok, why = True, ""
    if code.locals[0]["ty"] != "bool":
        R.ob(key, True, "`%s` does not report a boolean (result type %s)" % (fn.fn_name, code.locals[0]["ty"]), where=fn.span)
        return
    if rts and not rms:
        r = peel(code.local_term(0))
        def is_len(t):
            t = peel(t)
            if t[0] == "cast":
                t = peel(t[2])
            return is_call(t, "len") and t[3] and chain(t[3][0])[1][-1:] == [q]
        good = False
        for alt in phi_alts(r):
            a = peel(alt)
            neg = False
            if a[0] == "un" and a[1] == "Not":
                a, neg = peel(a[2]), True
            cmp_len = a[0] == "bin" and (is_len(a[2]) or is_len(a[3]))
            if cmp_len and ((a[1] in ("Ne", "Lt", "Gt") and not neg) or (a[1] == "Eq" and neg)):
                good = True
            else:
                good = False
                break
        if not good:
            ok, why = False, "with retain() the result must compare the length of `%s` before and after (found %s)" % (q, show(r)[:120])
    elif rms:
        leaves = _paths.explore(code, 0, lambda t: False, lambda b, x: x in rms, max_paths=2000)
        n = 0
        for lf in leaves:
            if lf["kind"] != "return":
                continue
            n += 1
            v = _paths.value_on_path(code, lf["path"], 0)
            v = peel(v) if v is not None else None
            if v is None or v[0] != "const":
                ok, why = False, "a result that is not a constant on its path (%s)" % (show(v)[:80] if v else "unknown")
            elif bool(v[2]) != bool(lf["marked"]):
                ok, why = False, ("returns true without having removed an entry" if v[2] else "returns false after removing an entry")
        if n == 0:
            ok, why = False, "no return path found"
    else:
        ok, why = False, "no removal found"
    R.ob(key, ok,
         "`%s` returns true exactly when it removed an entry of `%s` (the caller credits the window / reports the "
         "acknowledgement on true and ignores the packet as stale on false)%s" % (fn.fn_name, q, "" if ok else " — " + why),
         where=fn.span)


def _iterates(recv, q, tail):
    """recv is an iterator over the whole queue q (tail=False) or over q without its first entry (tail=True)"""
    x = recv
    for _ in range(8):
        x = peel(x)
        if is_call(x, "core::iter::IntoIterator::into_iter", "core::slice::<impl [T]>::iter", "VecInner::<T, LenT, S>::iter",
                   "core::slice::<impl [T]>::iter_mut", "VecInner::<T, LenT, S>::iter_mut", "core::iter::Iterator::by_ref") and x[3]:
            x = x[3][0]
            continue
        break
    x = peel(x)
    if not tail:
        r, n = chain(x)
        return n[-1:] == [q] and x[0] == "field"
    # tail forms: (split_first(list) as Some).0.1  /  list[1..]
    r, n = chain(x)
    r = peel(r)
    while isinstance(r, tuple) and r[0] == "ok":      # `split_first()?`
        r = peel(r[1])
    n = [k for k in n if not k.startswith("@") or k != "@Some"]
    if is_call(r, "split_first") and n[-1:] == ["1"] and r[3]:
        return chain(r[3][0])[1][-1:] == [q]
    if is_call(x, "Index::index", "index") and len(x[3]) == 2:
        rng = peel(x[3][1])
        if rng[0] == "agg" and rng[4] == ["start"] and peel(rng[5][0])[0] == "const" and peel(rng[5][0])[2] == 1:
            return chain(x[3][0])[1][-1:] == [q]
    return False


def _is_first_of(t, q):
    for x in walk(t):
        if isinstance(x, tuple) and x[0] == "ok":
            continue
        if isinstance(x, tuple) and is_call(x, "split_first", "first") and x[3] and chain(x[3][0])[1][-1:] == [q]:
            return True
        if isinstance(x, tuple) and x[0] in ("index", "cidx") and chain(x[1])[1][-1:] == [q]:
            return True
    return False


def _pred_is_id_eq(f, code, fop, id_field, id_param, op="Eq"):
    """the closure handed to position() is |e| e.<id_field> == <captured id_param>"""
    from .ops import _closure_defs
    from ..core import subst
    t = code.operand_term(fop)
    defs = _closure_defs(t)
    if len(defs) == 1 and defs[0] not in f.bodies:
        # the closure body was folded into the loop the search is read as: its test is a switch of this function
        for sb in code.switches:
            if sb not in code.reachable:
                continue
            sj = peel(code.switch_info(sb)["subject"])
            sides = None
            if sj[0] == "bin" and sj[1] == "Eq":
                sides = (peel(sj[2]), peel(sj[3]))
            elif is_call(sj, "PartialEq::eq", "eq") and len(sj[3]) == 2:
                sides = (peel(sj[3][0]), peel(sj[3][1]))
            if sides is None:
                continue
            for a, b in (sides, sides[::-1]):
                ra, na = chain(a, extra=ELEM)
                if peel(b) == ("param", id_param) and na[-1:] == [id_field] and len(na) >= 2 \
                        and any(isinstance(x, tuple) and is_call(x, "core::iter::Iterator::next") for x in walk(a)):
                    return True
        return False
    if len(defs) != 1 or defs[0] not in f.bodies:
        return False
    cb = f.bodies[defs[0]]
    if cb.arg_count < 2:
        return False
    env = {}
    for x in walk(t):
        if isinstance(x, tuple) and x[0] == "agg" and x[1] == "closure" and x[2] == defs[0]:
            env = dict(zip(x[4], x[5]))
    r = peel(cb.local_term(0))
    sides = None
    neg = False
    if r[0] == "un" and r[1] == "Not":
        r, neg = peel(r[2]), True
    if r[0] == "bin" and r[1] in ("Eq", "Ne") and (r[1] == op) != neg:
        sides = (peel(r[2]), peel(r[3]))
    elif is_call(r, "PartialEq::eq", "eq", "PartialEq::ne", "ne") and len(r[3]) == 2 \
            and (("Ne" if r[2].endswith("ne") else "Eq") == op) != neg:
        sides = (peel(r[3][0]), peel(r[3][1]))
    if sides is None:
        return False
    for a, b in (sides, sides[::-1]):
        ra, na = chain(a)
        rb, nb = chain(b)
        if ra == ("param", cb.param_name(2)) and na[-1:] == [id_field]:
            # the other side is the captured identifier
            if rb[0] == "param" and nb:
                cap = env.get(nb[0])
                if cap is not None and peel(cap) == ("param", id_param):
                    return True
            if peel(subst(b, env)) == ("param", id_param):
                return True
    return False


def _pred_mutable_conditions(f, code, note, q, id_field, id_param):
    """conditions (other than the identifier comparison) that decide a hit of the search the note stands for and that read
    data which changes during the entry's life: arena bytes, or entry fields that are stored to after the enqueue"""
    from ..core import same_shape
    recv = peel(code.operand_term(note["recv"]))
    nxs = [c for c in code.calls.values() if c.bb in code.reachable and c.is_("core::iter::Iterator::next")
           and any(isinstance(x, tuple) and same_shape(peel(x), recv) for x in walk(code.operand_term(c.args[0])))]
    if len(nxs) != 1:
        return []
    nx = nxs[0]
    sw = None
    for bb in code.switches:
        si = code.switch_info(bb)
        if si["enum"] == "core::option::Option" and any(a[0] == "call" and a[1] == nx.bb for a in phi_alts(peel(si["subject"]))):
            sw = si
    if sw is None or sw["edges"].get("Some") is None:
        return []
    cen = census(f)
    mutable_fields = set(fld for (b, bb, fld, val, span) in cen[q]["elem_stores"])
    # blocks of the per-element test: from the Some edge until the loop head is reached again or the loop is left
    region = code.reach([sw["edges"]["Some"]], avoid=[nx.bb])
    out = []
    for sb in sorted(region):
        if sb not in code.switches or sb == sw["bb"]:
            continue
        # only tests that can send control back to the loop head (i.e. reject this element) matter
        si = code.switch_info(sb)
        tgts = list(si["edges"].values()) + [si["otherwise"]]
        if not any(nx.bb in code.reach([t], avoid=[]) for t in tgts if t is not None):
            continue
        sj = si["subject"]
        reads_elem = any(isinstance(x, tuple) and x[0] == "call" and x[1] == nx.bb for x in walk(sj))
        if not reads_elem:
            continue
        for x in walk(sj):
            if not isinstance(x, tuple):
                continue
            if x[0] in ("index", "cidx") and any(isinstance(y, tuple) and y[0] == "field" and y[2] == "buf" and y[3] == OUTBOUND for y in walk(x)):
                out.append("a byte of the transmit arena")
            if is_call(x, "Index::index", "index") and x[3] and any(isinstance(y, tuple) and y[0] == "field" and y[2] == "buf" and y[3] == OUTBOUND for y in walk(x[3][0])):
                out.append("a byte of the transmit arena")
            if x[0] == "field" and x[2] in mutable_fields and x[2] != id_field and any(
                    isinstance(y, tuple) and y[0] == "call" and y[1] == nx.bb for y in walk(x[1])):
                out.append("the entry's `%s`" % x[2])
    return out


def step_constructions(f, ns):
    """every `OutboundStep::<Kind>(..)` built in next_step, with the fields of the step it carries:
    [dict(kind, bb, span, fields={name: term}, whole=bool)].  The step may be assembled field by field from an entry, or be
    a copy of the whole entry (`OutboundStep::Control(*entry)` when the queue stores the step records themselves)."""
    out = []
    oadt = None
    for n_, a_ in f.adts.items():
        if n_.endswith("::OutboundStep") or n_ == "OutboundStep":
            oadt = a_
    for bb, j, s in ns.assigns():
        rv = s["rv"]
        if bb not in ns.reachable or "agg" not in rv or not (rv["agg"].get("adt") or "").endswith("OutboundStep"):
            continue
        kind = rv["agg"]["variant"]
        t = ns.rvalue_term(rv)
        inner = peel(t[5][0]) if t[5] else None
        fields, whole = {}, False
        if inner is not None and inner[0] == "agg" and inner[4]:
            fields = dict(zip(inner[4], inner[5]))
        elif inner is not None and oadt is not None:
            # a copy of the entry itself: its fields are the entry's fields
            pty = None
            for v in oadt["variants"]:
                if v["name"] == kind and v["fields"]:
                    pty = v["fields"][0]["ty"]
            padt = f.adts.get((pty or "").split("<")[0])
            if padt and len(padt["variants"]) == 1:
                whole = True
                for fl in padt["variants"][0]["fields"]:
                    fields[fl["name"]] = ("field", t[5][0], fl["name"], (pty or "").split("<")[0], None)
        out.append({"kind": kind, "bb": bb, "span": s["span"], "fields": fields, "whole": whole})
    return out


@cached
def removed_labels(f):
    """{removal function name: label of its result that means "an entry was removed"} -- True for a `bool` result, the
    variant name when the function answers with a two-variant enum (`AckOutcome::Removed`)"""
    from .. import paths as _paths
    out = {}
    for role in ("retained_removal", "release_removal"):
        try:
            fn = role_fn(f, role)
        except AnchorLost:
            continue
        code = f.code(fn)
        rms = set(c.bb for c in code.calls.values() if c.bb in code.reachable and mname(c) in ("remove", "swap_remove"))
        labs = set()
        for lf in _paths.explore(code, 0, lambda t: False, lambda b, bb: bb in rms, max_paths=2000):
            if lf["kind"] != "return" or not lf["marked"]:
                continue
            v = _paths.value_on_path(code, lf["path"], 0)
            v = peel(v) if v is not None else None
            if v is not None and v[0] == "const" and v[2] in (0, 1):
                labs.add(bool(v[2]))
            elif v is not None and v[0] == "agg" and v[1] == "adt" and v[3]:
                labs.add(v[3])
            else:
                labs.add(None)
        out[fn.name] = next(iter(labs)) if len(labs) == 1 else True
    return out


def removed_edge(f, fn, si):
    """target of the edge of switch `si` (on the result of removal function `fn`) taken when an entry was removed"""
    lab = removed_labels(f).get(fn.name, True)
    return si["edges"].get(lab)


def removed_edges(f, body, rc, fn):
    """[(switch block, target)] -- the edges of `body` that are taken exactly when the removal call `rc` (to function `fn`)
    removed an entry: a test of its boolean result, a match on its enum result, or a derived `==` / `!=` of the result
    against one of the enum's variants"""
    lab = removed_labels(f).get(fn.name, True)
    out = []
    for sb in body.switches:
        if sb not in body.reachable:
            continue
        si = body.switch_info(sb)
        for alt in phi_alts(si["subject"]):
            x = peel(alt)
            if isinstance(x, tuple) and x[0] == "discr":
                x = peel(x[1])
            neg = False
            if isinstance(x, tuple) and x[0] == "un" and x[1] == "Not":
                neg, x = True, peel(x[2])
            if isinstance(x, tuple) and x[0] == "call" and x[1] == rc.bb:
                want = lab if not neg else (not lab if isinstance(lab, bool) else None)
                if want is not None and si["edges"].get(want) is not None:
                    out.append((sb, si["edges"][want]))
                elif isinstance(lab, str) and not neg and lab not in si["edges"] and si.get("otherwise") is not None \
                        and lab in si.get("otherwise_variants", [lab]):
                    out.append((sb, si["otherwise"]))
                break
            cmp_ = _variant_compare(x)
            if cmp_ is not None and isinstance(lab, str):
                eq_op, a, b = cmp_
                for p_, q_ in ((a, b), (b, a)):
                    if isinstance(p_, tuple) and p_[0] == "call" and p_[1] == rc.bb and q_[0] == "agg" and q_[1] == "adt" and not q_[5]:
                        is_removed_variant = (q_[3] == lab)
                        eq = eq_op
                        # edge on which "result is the Removed variant" holds
                        val = (is_removed_variant == eq)
                        if neg:
                            val = not val
                        # only a two-variant enum lets `!= Stale` mean Removed
                        adt = f.adts.get(q_[2])
                        if is_removed_variant or (adt and len(adt["variants"]) == 2):
                            if si["edges"].get(val) is not None:
                                out.append((sb, si["edges"][val]))
                        break
    return out


def _variant_compare(x):
    """(is_eq, a, b) when x compares two enum values for (in)equality: `PartialEq::eq/ne(a, b)` or -- the derived impl
    folded in -- `discriminant_value(a) ==/!= discriminant_value(b)`"""
    if is_call(x, "core::cmp::PartialEq::eq", "core::cmp::PartialEq::ne") and len(x[3]) == 2:
        return x[4].endswith("::eq"), peel(x[3][0]), peel(x[3][1])
    if isinstance(x, tuple) and x[0] == "bin" and x[1] in ("Eq", "Ne"):
        a, b = peel(x[2]), peel(x[3])
        if is_call(a, "discriminant_value") and is_call(b, "discriminant_value") and a[3] and b[3]:
            return x[1] == "Eq", peel(a[3][0]), peel(b[3][0])
    return None
