"""C15 — behaviour does not depend on how the transport fragments reads and writes (structural clauses only)."""
from ..core import AnchorLost, chain, peel, phi_alts, is_call, walk, show, same_shape, IO_READ, IO_WRITE
from .. import valueset
from . import roles, outq
from .roles import READER, CONN
from .c13 import derived_from

EXPLANATION = (
    "PARTIAL claim. Static clauses of C15 on mir_built — the partial-I/O counts are what advances state: (read) the count "
    "committed to the reader is exactly the count returned by Read::read, commit adds it to read_bytes, the receive window "
    "starts at read_bytes, a packet is available when read_bytes >= its length, and a zero-length read is end of stream; "
    "(look-ahead) while the packet length is unknown the reader never asks for more bytes than any packet is guaranteed to "
    "still have (one byte; the header probe runs whenever the length is unknown) — asking for more swallows the start of "
    "the next packet under some chunkings; (write) the slice handed to the transport is bytes[written..] of the step's own "
    "bytes with `written` taken from the entry's recorded state, the recorded count advances by exactly the count returned "
    "(C13.store), write_all advances its cursor by the returned count, and a zero-length write is WriteZero; (take) the "
    "packet handed on is buffer[..packet_length] and the reader is reset for the next packet before it is decoded. "
    "Equality of whole runs under different chunkings is a relation between executions and is not decided; the header "
    "probe's arithmetic is not decided."
)
ASSUMPTIONS = ["every MQTT packet has at least two bytes (fixed header byte + one remaining-length byte)"]


def rule_read(R):
    f = R.f
    fp = roles.free_fn(f, "fill_packet_reader")
    code = f.code(fp)
    R.touch(code)
    reads = [c for c in code.calls.values() if c.bb in code.reachable and c.path == IO_READ]
    R.exact("read/sites", len(reads), 1, "Read::read call sites in fill_packet_reader")
    rd = reads[0]
    commit = roles.method(f, READER, "commit")
    cs = outq.calls_to(f, code, commit)
    ok = len(cs) == 1
    if ok:
        r = roles.ok_payload_source(code.operand_term(cs[0].args[1]))
        ok = isinstance(r, tuple) and r[0] == "await" and peel(r[1])[0] == "call" and peel(r[1])[1] == rd.bb
    R.ob("read/commit-count", ok, "the count committed to the reader is exactly the count returned by this Read::read", where=cs[0].span if cs else fp.span)
    # buffer handed to read is the reader's receive window
    rb = roles.method(f, READER, "receive_buffer")
    bt = code.operand_term(rd.args[1])
    okb = any(x[0] == "call" and x[2] == rb.name for x in walk(bt))
    R.ob("read/window-arg", okb, "the transport reads directly into the reader's receive window", where=rd.span)
    # commit: read_bytes += count
    st = [(bb, commit.rvalue_term(rv)) for (bb, j, dst, rv, s) in commit.stores() if chain(commit.place_term(dst))[1] == ["read_bytes"]]
    okc = len(st) == 1
    if okc:
        v = peel(st[0][1])
        if v[0] == "field":
            v = v[1]
        okc = v[0] == "bin" and v[1].startswith("Add") and {show(peel(v[2])), show(peel(v[3]))} == {"self.read_bytes", "count"} or \
            (v[0] == "bin" and v[1].startswith("Add") and sorted([chain(v[2])[1][-1:] or [str(peel(v[2]))], chain(v[3])[1][-1:] or [str(peel(v[3]))]], key=str) is not None
             and any(chain(x)[1] == ["read_bytes"] for x in (v[2], v[3])) and any(peel(x) == ("param", "count") for x in (v[2], v[3])))
    R.ob("read/commit-adds", okc, "PacketReader::commit advances read_bytes by exactly the committed count", where=commit.span)
    # zero read = end of stream
    okz = False
    from .. import paths as _paths
    for bb in code.switches:
        if bb not in code.reachable:
            continue
        si = code.switch_info(bb)
        s = peel(si["subject"])
        zt = None
        if s[0] == "bin" and s[1] == "Eq" and derived_from(s, rd.bb) and any(x[0] == "const" and x[2] == 0 for x in (s[2], s[3])):
            zt = si["edges"].get(True)
        elif s[0] == "bin" and s[1] == "Ne" and derived_from(s, rd.bb) and any(x[0] == "const" and x[2] == 0 for x in (s[2], s[3])):
            zt = si["edges"].get(False)
        elif derived_from(s, rd.bb) and any(k_ == 0 and not isinstance(k_, bool) for k_ in si["edges"]):
            zt = [t_ for k_, t_ in si["edges"].items() if k_ == 0 and not isinstance(k_, bool)][0]   # `match count { 0 => .. }`
        if zt is None:
            continue
        vals = []
        commits = False
        for lf in _paths.explore(code, zt, lambda t_: False, lambda b_, x_: False, max_paths=500):
            if lf["kind"] == "return":
                vals.append(_paths.value_on_path(code, [bb] + lf["path"], 0))
            if any(x in code.calls and outq.targets_fn(f, code.calls[x], commit) for x in lf["path"]):
                commits = True
        okz = bool(vals) and all(v is not None and "Disconnected" in show(v) for v in vals) and not commits
    R.ob("read/zero-is-eof", okz, "a read of zero bytes is reported as Disconnected (end of stream), never committed", where=fp.span)
    pa = roles.method(f, READER, "packet_available")
    from .. import optsem
    is_self = lambda r: r == ("param", "self")
    none_v = optsem.returns_under(pa, is_self, ["packet_length"], "None")
    some_v = optsem.returns_under(pa, is_self, ["packet_length"], "Some")
    okp = none_v is not None and len(none_v) >= 1 and all(v[0] == "const" and v[2] == 0 for v in none_v)

    def _ge(v):
        v = peel(v)
        if is_call(v, "PartialOrd::ge", "ge") and len(v[3]) == 2:
            v = ("bin", "Ge", peel(v[3][0]), peel(v[3][1]))
        if v[0] == "bin" and v[1] == "Le":
            v = ("bin", "Ge", v[3], v[2])
        return v[0] == "bin" and v[1] == "Ge" and chain(peel(v[2]))[1] == ["read_bytes"] and chain(peel(v[3]))[1][:1] == ["packet_length"]
    okp = okp and some_v is not None and len(some_v) >= 1 and all(_ge(v) for v in some_v)
    R.ob("read/available", okp, "a packet is available exactly when read_bytes >= its length; never while the length is unknown", where=pa.span)


def rule_lookahead(R):
    f = R.f
    rb = roles.method(f, READER, "receive_buffer")
    R.touch(rb)
    idx = [c for c in rb.calls.values() if c.bb in rb.reachable and c.is_("index_mut", "IndexMut::index_mut")]
    if len(idx) != 1:
        raise AnchorLost("receive_buffer:window")
    rng = peel(rb.operand_term(idx[0].args[1]))
    end = rng[5][1] if rng[0] == "agg" and rng[4] == ["start", "end"] else None
    if end is None:
        raise AnchorLost("receive_buffer:range")
    alts = phi_alts(end)
    known = [a for a in alts if any(x[0] == "downcast" and x[2] == "Some" for x in walk(a)) and chain(a)[1][:1] == ["packet_length"]]
    unknown = [a for a in alts if a not in known]
    R.ob("look-ahead/known-length", len(known) == 1 and chain(known[0])[1] == ["packet_length", "@Some", "0"],
         "once the length is known the window ends at exactly the packet's length", where=idx[0].span)
    ok = len(unknown) == 1
    detail = ""
    if ok:
        worst = None
        for r in range(0, 6):
            vs = valueset.evaluate(f, unknown[0], env={(READER, "read_bytes"): {r}})
            if vs is None:
                ok = None
                break
            limit = max(r + 1, 2)
            if max(vs) > limit or min(vs) <= r:
                worst = (r, sorted(vs), limit)
        if ok is None:
            R.undecide("look-ahead/unknown-length", "the look-ahead expression %s could not be evaluated" % show(unknown[0]))
            return
        ok = worst is None
        if worst:
            detail = ": with %d bytes read it asks up to byte %s, but only %d are guaranteed to belong to this packet" % (worst[0], worst[1], worst[2])
    R.ob("look-ahead/unknown-length", bool(ok),
         "while the packet length is unknown the reader asks only for bytes that every packet still has (at most "
         "read_bytes + 1, two for an empty buffer)%s" % detail, where=idx[0].span)
    # the header probe runs whenever the length is unknown
    pf = roles.method(f, READER, "probe_fixed_header")
    cs = outq.calls_to(f, rb, pf)
    # the probe may also run unconditionally (it returns at once when the length is known)
    okp = bool(cs) and rb.must_pass([0], [idx[0].bb], via_blocks=[c.bb for c in cs])[0]
    for bb in rb.switches:
        si = rb.switch_info(bb)
        s = peel(si["subject"])
        if is_call(s, "is_none") and chain(s[3][0])[1] == ["packet_length"] and si["edges"].get(True) is not None and cs:
            okp = okp or rb.must_pass([si["edges"][True]], [idx[0].bb], via_blocks=[c.bb for c in cs])[0]
        # canonical reading: the None edge of a test of packet_length
        if si["enum"] == "core::option::Option" and chain(s)[1][-1:] == ["packet_length"] and si["edges"].get("None") is not None and cs:
            # the first test of the length (the one that dominates the probe) decides; later matches on it compute the window
            if all(rb.dominates(bb, c.bb) for c in cs):
                okp = okp or rb.must_pass([si["edges"]["None"]], [idx[0].bb], via_blocks=[c.bb for c in cs])[0]
    R.ob("look-ahead/probe", okp, "whenever the length is unknown the fixed header is probed before the next window is computed", where=rb.span)


def rule_write(R):
    f = R.f
    cm = roles.conn_methods(f)
    pb, pcode = cm["perform_outbound_step"]
    R.touch(pcode)
    ws = [c for c in pcode.calls.values() if c.bb in pcode.reachable and c.is_("write_current")]
    inline_write = False
    if not ws:
        # the single-write helper was folded into the step function: the transport write itself is the site
        ws = [c for c in pcode.calls.values() if c.bb in pcode.reachable and c.path == IO_WRITE]
        inline_write = True
    R.exact("write/sites", len(ws), 1, "write sites in perform_outbound_step")
    t = peel(pcode.operand_term(ws[0].args[1]))
    # the prepared write steps: a `WriteStep { bytes, written, .. }` struct or a `PreparedStep::Write { bytes, written, .. }` variant
    steps = []
    for bb, j, s in pcode.assigns():
        rv = s["rv"]
        if bb in pcode.reachable and "agg" in rv and ((rv["agg"].get("adt") or "").endswith("WriteStep") or (
                (rv["agg"].get("adt") or "").endswith("PreparedStep") and rv["agg"].get("variant") == "Write" and "bytes" in (rv["agg"].get("fields") or []))):
            a = pcode.rvalue_term(rv)
            steps.append((dict(zip(a[4], a[5])), s["span"]))
    ok = is_call(t, "Index::index", "index") and len(t[3]) == 2
    if ok:
        base = t[3][0]
        rng = peel(t[3][1])
        okr = rng[0] == "agg" and rng[4] == ["start"]
        rb_, nb_ = chain(base)
        rs_, ns_ = chain(rng[5][0]) if okr else (None, [])
        ok = okr and nb_[-1:] == ["bytes"] and ns_[-1:] == ["written"] and nb_[:-1] == ns_[:-1] and same_shape(rb_, rs_)
        if okr and not ok and steps:
            # the step's fields read through to the values they were built from: one (bytes, written) pair per step, in order
            b_alts = [peel(x) for x in phi_alts(peel(base))]
            w_alts = [peel(x) for x in phi_alts(peel(rng[5][0]))]
            ok = len(b_alts) == len(w_alts) == len(steps) and all(
                "bytes" in fl and "written" in fl and same_shape(b_alts[i], peel(fl["bytes"])) and same_shape(w_alts[i], peel(fl["written"]))
                for i, (fl, _) in enumerate(steps))
    R.ob("write/resume-slice", ok,
         "the bytes handed to the transport are step.bytes[step.written ..]: a partially written packet is continued, "
         "never restarted or skipped", where=ws[0].span)
    # WriteStep.written comes from the entry's recorded state; bytes from the matching serialisation
    n = 0
    for fl, span_ in steps:
        if True:
            n += 1
            r, nm = chain(fl["written"]) if "written" in fl else (None, [])
            okw = nm[-3:] == ["state", "@Write", "written"] and r == ("param", "step")
            if "len" in fl:
                ln = peel(fl["len"])
                okl = (is_call(ln, "len") and same_shape(peel(ln[3][0]), peel(fl["bytes"]))) or chain(ln)[1][-1:] == ["len"]
            else:
                okl = "bytes" in fl   # no separate length is carried: the length is that of the bytes by construction
            R.ob("write/step-fields#%d" % n, okw and okl,
                 "a write step starts at the entry's recorded `written` and its length is the length of its bytes (written %s)"
                 % (show(fl["written"]) if "written" in fl else "not carried by the step"), where=span_)
    R.floor("write/step-fields", n, 3, "WriteStep constructions")
    # write_current: Ok(0) -> WriteZero, Ok(n) -> n
    wc = pcode if inline_write else f.code(roles.free_fn(f, "write_current"))
    w = [c for c in wc.calls.values() if c.bb in wc.reachable and c.path == IO_WRITE]
    okz = len(w) == 1
    if okz:
        if inline_write:
            okz = True   # the count is used in place (C13.store checks what is recorded); only the zero case remains
        else:
            alts = phi_alts(wc.local_term(0))
            oks = [a for a in alts if a[0] == "agg" and a[3] == "Ok"]
            okz = len(oks) == 1 and chain(oks[0][5][0])[1] == ["@Ok", "0"] and derived_from(oks[0], w[0].bb)
        zero = False
        for bb in wc.switches:
            si = wc.switch_info(bb)
            if derived_from(si["subject"], w[0].bb) and any(k_ == 0 and not isinstance(k_, bool) for k_ in si["edges"]):
                from .. import paths as _paths
                vals = []
                for lf in _paths.explore(wc, si["edges"][0], lambda t_: False, lambda b_, x_: False, max_paths=3000):
                    if lf["kind"] == "return":
                        vals.append(_paths.value_on_path(wc, [bb] + lf["path"], 0))
                zero = bool(vals) and all(v is not None and "WriteZero" in show(v) for v in vals)
        okz = okz and zero
    R.ob("write/current", okz, "write_current returns exactly the count the transport accepted and reports 0 as WriteZero", where=wc.span)
    # write_all: cursor advances by the returned count
    wa = f.code(roles.free_fn(f, "write_all"))
    w = [c for c in wa.calls.values() if c.bb in wa.reachable and c.path == IO_WRITE]
    if not w and not inline_write:
        # write_all may go through the single-write helper, whose result is the accepted count (write/current)
        wcb = roles.free_fn(f, "write_current")
        w = outq.calls_to(f, wa, wcb)
    oka = len(w) == 1
    if oka:
        idx = [c for c in wa.calls.values() if c.bb in wa.reachable and c.is_("Index::index", "index")]
        oka = len(idx) == 1
        if oka:
            rng = peel(wa.operand_term(idx[0].args[1]))
            oka = rng[0] == "agg" and rng[4] == ["start"] and derived_from(rng[5][0], w[0].bb) and roles.ok_payload_source(rng[5][0]) is not None
            # and the write is given the current cursor
            oka = oka and wa.root_local(w[0].args[1]) == wa.root_local(idx[0].args[0])
    R.ob("write/all-cursor", oka, "write_all continues at bytes[count ..] with exactly the count the transport accepted", where=wa.span)


def strip_opt(t):
    """look through `?`, ok_or, as_ref, copied and the payload projection `(x as Some).0` on an Option/Result value"""
    while True:
        t = peel(t)
        if isinstance(t, tuple) and t[0] == "ok":
            t = t[1]
        elif is_call(t, "ok_or", "as_ref", "copied", "cloned", "ok_or_else") and t[3]:
            t = t[3][0]
        elif isinstance(t, tuple) and t[0] == "field" and t[2] == "0" and t[1][0] == "downcast" and t[1][2] in ("Some", "Ok"):
            t = t[1][1]
        else:
            return t


def rule_take(R):
    f = R.f
    tp = roles.method(f, READER, "take_packet")
    R.touch(tp)
    fb = [c for c in tp.calls.values() if c.bb in tp.reachable and c.is_("from_buffer")]
    rs = [c for c in tp.calls.values() if c.bb in tp.reachable and c.is_("PacketReader::<'a>::reset", "reset")]
    ok = len(fb) == 1 and len(rs) == 1
    if ok:
        t = peel(tp.operand_term(fb[0].args[0]))
        ok = is_call(t, "Index::index", "index")
        if ok:
            rng = peel(t[3][1])
            ok = rng[0] == "agg" and rng[4] == ["end"] and chain(strip_opt(rng[5][0])) == (("param", "self"), ["packet_length"]) \
                and chain(t[3][0])[1][-1:] == ["buffer"]
        # length is read before the reset clears it
        ok = ok and tp.must_pass([0], [fb[0].bb], via_blocks=[rs[0].bb])[0]
    R.ob("take/slice", ok,
         "the packet handed on is buffer[..packet_length] with the length read before the reader is reset for the next packet",
         where=tp.span)
    v = [a for a in phi_alts(tp.local_term(0)) if a[0] == "agg" and a[3] == "Ok"]
    okl = len(v) == 1 and chain(strip_opt(peel(v[0][5][0])[5][0])) == (("param", "self"), ["packet_length"])
    R.ob("take/length", okl, "take_packet returns the packet's own length", where=tp.span)


def rule_interleave(R):
    from .c01 import clause_steps_gated
    clause_steps_gated(R, "write/no-interleave")


def rule_replay(R):
    """a write offset belongs to the transport it was counted on: how much of a packet an earlier transport accepted
    must not decide which bytes the next connection carries -- every queued entry restarts from byte 0 on a new
    transport, whatever its send progress was (shared with C01 / C05)"""
    from .c01 import rule_replay as _r
    _r(R)


def rule_store(R):
    """writes resume from the recorded offset only if the offset that is recorded is the accepted count: the setters
    forward (written, len) by position and the step hands them over in that order (shared with C13)"""
    from .c13 import rule_store as _r
    _r(R)


def rule_drained(R):
    """a transport that accepts a packet only in part must not change what is sent: the drive loop reports "nothing more
    to do" (Idle / Advanced) only when the outbound queues have no step left -- decided by asking the queues, not by what
    the last step happened to report.  A loop that stops after a partial write leaves the packet's tail unsent until some
    later call, and a direct write in between lands inside it."""
    f = R.f
    cm = roles.conn_methods(f)
    b, code = cm["drive_packet"]
    R.touch(code)
    edges = []
    for bb in code.switches:
        if bb not in code.reachable:
            continue
        si = code.switch_info(bb)
        sj = peel(si["subject"])
        neg = False
        if sj[0] == "un" and sj[1] == "Not":
            sj, neg = peel(sj[2]), True
        if not any(is_call(x, "next_step") for x in walk(sj)):
            continue
        if is_call(sj, "is_none") and si["edges"].get(not neg) is not None:
            edges.append((bb, si["edges"][not neg]))
        elif is_call(sj, "is_some") and si["edges"].get(neg) is not None:
            edges.append((bb, si["edges"][neg]))
        elif si["enum"] == "core::option::Option" and si["edges"].get("None") is not None:
            edges.append((bb, si["edges"]["None"]))
    # every way out that reports Idle / Advanced (the value is followed along the path: it may be kept in a local, or come
    # back from a folded-in helper) has passed one of those edges
    from .. import paths as _paths
    none_targets = set(e[1] for e in edges)
    outs, bad = [], None
    for lf in _paths.explore(code, 0, lambda t: False, lambda body, x: x in none_targets, max_paths=6000):
        if lf["kind"] == "path-limit":
            bad = "too many paths"
            break
        if lf["kind"] != "return":
            continue
        v = _paths.value_on_path(code, lf["path"], 0)
        v = peel(v) if v is not None else None
        variant = None
        if v is not None and v[0] == "agg" and v[3] == "Err":
            continue
        if v is not None and is_call(v, "core::ops::FromResidual::from_residual", "from_residual"):
            continue       # `?`: an error is handed on
        if v is not None and v[0] == "agg" and v[3] == "Ok" and v[5]:
            pv = peel(v[5][0])
            if pv[0] == "agg" and (pv[2] or "").endswith("Progress"):
                variant = pv[3]
        if variant == "Inbound":
            continue
        outs.append(lf["end"])
        if not lf["marked"] and bad is None:
            bad = "a path reports %s without having seen next_step() == None" % (variant or "a progress value that could not be followed")
    ok = bool(edges) and bool(outs) and bad is None
    R.ob("write/loop-until-drained", ok,
         "Connection::drive_packet reports Idle / Advanced only on the edge where Outbound::next_step() is None "
         "(%d such tests, %d reporting paths)%s" % (len(edges), len(outs), "" if bad is None else " — " + bad), where=b.span)


def rule_shared_reader_reset(R):
    """what a connection delivers does not depend on how the previous connection's last packet was split: the reader's partial-packet state never survives into the next connection -- C12's rule"""
    from .c12 import rule_reset as _r
    _r(R)


def run(R):
    R.rule("reader-reset", rule_shared_reader_reset)
    R.rule("drained", rule_drained)
    R.rule("store", rule_store)
    R.rule("replay", rule_replay)
    R.rule("interleave", rule_interleave)
    R.rule("read", rule_read)
    R.rule("look-ahead", rule_lookahead)
    R.rule("write", rule_write)
    R.rule("take", rule_take)
