"""C02 — an accepted QoS 1 publish is never lost (structural clauses)."""
from ..core import AnchorLost, chain, peel, phi_alts, is_call, walk, show
from . import roles, outq, ops
from .roles import CONN, OUTBOUND, SDATA, SESSION

EXPLANATION = (
    "Static clauses of C02 on mir_built: (enq) in publish the enqueue's success edge dominates every transport-reaching "
    "call after the encode, with no await between encode and enqueue; (remove) the retained list only shrinks in the "
    "removal function and in clear(); the removal function is only called from the PUBACK/PUBREC/SUBACK/UNSUBACK arms "
    "with the identifier of that packet; clear() only from the session reset, which only the handshake calls on the "
    "session_present==false edge; (once) send progress is re-armed only by Session::connect / Session::handle_disconnect, "
    "and inside a live connection only by the latch; (sent) completing a flush marks the entry of the same kind and "
    "identifier Sent; (order) no order-breaking operation on the retained and control queues; (dup) re-arming retained "
    "entries is paired with the DUP patch. Necessary conditions; byte identity of retransmissions is argued from C17."
)
ASSUMPTIONS = ["heapless::Vec methods behave as documented (push/remove/retain/clear preserve order)"]

ACK_ARMS = ("PubAck", "PubRec", "SubAck", "UnsubAck")


def rule_enq(R):
    ops.clause_enqueue_before_write(R, "enq", "publish")


def arm_of(b, sw_bb, bb):
    """variant whose arm contains block bb (arm = blocks reachable from the variant edge target but from no other)"""
    si = b.switch_info(sw_bb)
    hits = []
    for v, t in si["edges"].items():
        if bb in b.reach([t]):
            hits.append(v)
    return hits


def rule_remove(R):
    f = R.f
    cen = outq.census(f)
    rem = outq.role_fn(f, "retained_removal")
    clr = outq.role_fn(f, "clear")
    allowed = {rem.name, clr.name}
    n = 0
    for (b, c, m, mut) in cen["retained"]["calls"]:
        if m in outq.SHRINK and mut:
            n += 1
            R.ob("remove/who/%s/%s" % (b.fn_name, m), b.name in allowed,
                 "the retained list may only shrink in the acknowledgement removal (`%s`) and in `%s`; found `%s` in %s"
                 % (rem.fn_name, clr.fn_name, m, b.name), where=c.span)
    for (b, bb, val, span) in cen["retained"]["stores"]:
        R.ob("remove/who/%s/overwrite" % b.fn_name, b.fn_name == "new",
             "the retained list is overwritten as a whole in %s" % b.name, where=span)
    R.floor("remove/who", n, 2, "shrinking calls on `retained`")

    # callers of the removal function: only the four ack arms, id wired from that packet
    hb, sw = outq.inbound_handler(f)
    R.touch(hb)
    ncall = 0
    for b in f.bodies.values():
        if f.in_fuzzing(b):
            continue
        for c in outq.calls_to(f, b, rem):
            ncall += 1
            if b.name != hb.name:
                R.ob("remove/caller/%s" % b.fn_name, False,
                     "`%s` (removal of a retained packet) may only be called from the acknowledgement arms of the "
                     "inbound handler; called from %s" % (rem.fn_name, b.name), where=c.span)
                continue
            arms = arm_of(hb, sw, c.bb)
            ok_arm = len(arms) == 1 and arms[0] in ACK_ARMS
            idt = hb.operand_term(c.args[1]) if len(c.args) > 1 else ("unknown",)
            root, names = chain(idt)
            ok_id = ok_arm and root == ("param", param_packet(hb)) and names == ["@" + arms[0], "0", "packet_id"]
            R.ob("remove/caller/%s" % ("+".join(arms) or "?"), ok_arm and ok_id,
                 "retained removal in the inbound handler must sit in exactly one of the arms %s and take the packet "
                 "identifier of that very packet (found arm %s, id = %s)" % (list(ACK_ARMS), arms, show(idt)), where=c.span)
    R.exact("remove/caller", ncall, 4, "call sites of the retained removal")
    outq.clause_removal_index(R, "remove/removes-the-acknowledged-entry", rem, "retained")
    outq.clause_removal_result(R, "remove/reports-removal", rem, "retained")

    # clear() only from the session reset; reset only from the handshake on session_present == false
    rst = outq.session_reset(f)
    for b in f.bodies.values():
        if f.in_fuzzing(b):
            continue
        for c in outq.calls_to(f, b, clr):
            R.ob("remove/clear-caller/%s" % b.fn_name, b.name == rst.name,
                 "`%s` (drops all in-flight state) may only be called from the session reset; called from %s"
                 % (clr.fn_name, b.name), where=c.span)
    call, hsb, hcode = roles.handshake(f)
    nr = 0
    for b in f.bodies.values():
        if f.in_fuzzing(b):
            continue
        for c in outq.calls_to(f, b, rst):
            nr += 1
            ok = b.name == hcode.name
            why = ""
            if ok:
                edges = []
                for bb in hcode.switches:
                    si = hcode.switch_info(bb)
                    root, names = chain(si["subject"])
                    if names and names[-1] == "session_present" and si["edges"].get(False) is not None:
                        edges.append((bb, si["edges"][False]))
                ok = bool(edges)
                if ok:
                    ok, _ = hcode.must_pass([0], [c.bb], via_edges=edges)
                if not ok:
                    why = ": not control dependent on CONNACK session_present == false"
            R.ob("remove/reset-caller/%s" % b.fn_name, ok,
                 "the session reset may only run in the handshake, on the edge where the CONNACK reports no session%s" % why,
                 where=c.span)
    R.exact("remove/reset-caller", nr, 1, "call sites of the session reset")


def param_packet(hb):
    # the ReceivedPacket parameter of the handler
    for i in range(1, hb.arg_count + 1):
        if "ReceivedPacket" in hb.locals[i]["ty"]:
            return hb.param_name(i)
    raise AnchorLost("handler-packet-param")


def rule_once(R):
    f = R.f
    re = outq.rearm_fns(f)
    _, ccode = roles.session_connect(f)
    sess_hd = roles.method(f, SESSION, "handle_disconnect")
    allowed_callers = {ccode.name, sess_hd.name}
    for name, queues in sorted(re.items()):
        rb = f.bodies[name]
        R.touch(rb)
        n = 0
        for b in f.bodies.values():
            if f.in_fuzzing(b):
                continue
            for c in outq.calls_to(f, b, rb):
                n += 1
                R.ob("once/rearm-caller/%s" % b.fn_name, b.name in allowed_callers,
                     "send progress may only be re-armed (`%s`) by Session::connect and Session::handle_disconnect: "
                     "within one connection a Sent packet must never be sent again; called from %s" % (rb.fn_name, b.name),
                     where=c.span)
        R.floor("once/rearm-caller/" + rb.fn_name, n, 2, "callers of the re-arm function")
    # Session::handle_disconnect from Connection methods only through the latch
    latch = roles.latch_fns(f)
    n = 0
    for b in f.bodies.values():
        if f.in_fuzzing(b):
            continue
        for c in outq.calls_to(f, b, sess_hd):
            n += 1
            is_conn = roles.self_is(b, CONN) or (b.kind in ("closure", "coroutine") and roles.self_is(f.bodies.get(b.root, b), CONN))
            if is_conn:
                ok = b.name in latch
                # and the store of false dominates or accompanies the call
                R.ob("once/latch-only/%s" % b.fn_name, ok,
                     "inside a Connection the session-level disconnect handling (which re-arms replay) may only run in "
                     "the latch, which kills the handle; called from %s" % b.name, where=c.span)
            else:
                R.ob("once/session-hd-caller/%s" % b.fn_name, roles.self_is(b, SESSION) or roles.self_is(f.bodies.get(b.root, b), SESSION),
                     "Session::handle_disconnect called from %s" % b.name, where=c.span)
    R.floor("once/session-hd", n, 2, "callers of Session::handle_disconnect")


KIND_QUEUE = {"Control": "pending_control", "Release": "pending_release", "Retained": "retained"}


def rule_sent(R):
    f = R.f
    cen = outq.census(f)
    # functions that store Sent into elements, per queue
    sent_fns = {}
    for q in outq.QUEUES:
        for (b, bb, field, val, span) in cen[q]["elem_stores"]:
            if field == "state" and outq.is_sent(val):
                sent_fns.setdefault(q, set()).add(b.name)
    for q in outq.QUEUES:
        R.ob("sent/marker/%s" % q, len(sent_fns.get(q, ())) == 1,
             "exactly one function marks entries of `%s` as Sent (found %s)" % (q, sorted(sent_fns.get(q, ()))))
    cm = roles.conn_methods(f)
    b, code = roles.flush_completion(f)
    R.touch(code)
    # the match on the FlushedPacket kind
    n = 0
    for bb in code.switches:
        si = code.switch_info(bb)
        if not (si["enum"] and si["enum"].endswith("FlushedPacket")):
            continue
        if not set(KIND_QUEUE) <= set(si["edges"]):
            continue
        root, names = chain(si["subject"])
        for kind, q in KIND_QUEUE.items():
            tgt = si["edges"][kind]
            others = [t for k, t in si["edges"].items() if k != kind]
            arm = code.reach([tgt]) - code.reach(others)
            calls = [c for c in code.calls.values() if c.bb in arm and any(t in sent_fns.get(q, ()) for t in f.call_targets(c))]
            ok = len(calls) == 1
            idok = False
            if ok:
                c = calls[0]
                a = code.operand_term(c.args[1]) if len(c.args) > 1 else None
                r2, n2 = chain(a) if a else (None, [])
                idok = r2 == root and n2 == names + ["@" + kind, "0"]
            n += 1
            R.ob("sent/complete/%s" % kind, ok and idok,
                 "completing the flush of a %s packet must mark the `%s` entry with the same identifier as Sent"
                 % (kind, q), where=code.line(tgt))
    R.floor("sent/complete", n, 3, "FlushedPacket arms in complete_flush")
    # FlushedPacket kinds are built from the OutboundStep of the same kind
    if "perform_outbound_step" not in cm:
        raise AnchorLost("Connection::perform_outbound_step")
    pb, pcode = cm["perform_outbound_step"]
    sws = []
    for bb in sorted(pcode.switches):
        si = pcode.switch_info(bb)
        if bb in pcode.reachable and si["enum"] and si["enum"].endswith("OutboundStep") and set(KIND_QUEUE) <= set(si["edges"]):
            sws.append(si)
    if not sws:
        raise AnchorLost("perform_outbound_step:match-on-step")
    sw = sws[-1]
    m = 0
    for bb, j, s in pcode.assigns():
        rv = s["rv"]
        if bb in pcode.reachable and "agg" in rv and (rv["agg"].get("adt") or "").endswith("FlushedPacket"):
            kind = rv["agg"]["variant"]
            # the arm of *a* match on the step the record is built in (the step may be matched more than once: a first
            # match that only derives the record, then the one that prepares the write)
            arms = None
            for sw_ in sws:
                a_ = [k for k, t in sw_["edges"].items() if bb in pcode.reach([t])]
                if arms is None or (len(a_) == 1 and len(arms) != 1):
                    arms = a_
            t = pcode.rvalue_term(rv)
            src = t[5][0] if t[5] else None
            r2, n2 = chain(src) if src else (None, [])
            okw = n2[:1] == ["@" + kind]
            m += 1
            R.ob("sent/kind/%s#%d" % (kind, m), arms == [kind] and okw,
                 "a FlushedPacket::%s record must be built in the OutboundStep::%s arm from that step's own identifier "
                 "(found in arm %s from %s)" % (kind, kind, arms, show(src) if src else "?"), where=s["span"])
    built_kinds = set(s["rv"]["agg"]["variant"] for bb, j, s in pcode.assigns()
                      if bb in pcode.reachable and "agg" in s["rv"] and (s["rv"]["agg"].get("adt") or "").endswith("FlushedPacket"))
    R.floor("sent/kind", len(built_kinds & set(KIND_QUEUE)), 3, "FlushedPacket kinds built in perform_outbound_step")


def clause_order(R, prefix, queues, why):
    f = R.f
    cen = outq.census(f)
    n = 0
    for q in queues:
        for (b, c, m, mut) in cen[q]["calls"]:
            n += 1
            if m in outq.ORDER_BREAKING:
                R.ob("%s/%s/%s/%s" % (prefix, q, b.fn_name, m), False,
                     "`%s` on `%s` in %s does not preserve the order in which packets were accepted%s" % (m, q, b.name, why),
                     where=c.span)
        R.ob("%s/%s" % (prefix, q), True, "no order-breaking operation on `%s`" % q, nontrivial=True)
    return n


def rule_order(R):
    n = clause_order(R, "order", ("retained", "pending_control"), "")
    R.floor("order", n, 10, "method calls on the retained/control queues")


def rule_dup(R):
    f = R.f
    re = outq.rearm_fns(f)
    patches = outq.dup_patch_fns(f)
    pnames = set(b.name for (b, bb, t, v, sp) in patches)
    R.ob("dup/patch-exists", len(pnames) == 1, "exactly one function patches arena bytes in place (found %s)" % sorted(pnames))
    for name, queues in sorted(re.items()):
        if "retained" not in queues:
            continue
        rb = f.bodies[name]
        pcalls = [c.bb for c in rb.calls.values() if c.bb in rb.reachable and any(t in pnames for t in f.call_targets(c))]
        # the patch may also be written out in the re-arm function itself (helper folded in, loops fused)
        pcalls += [bb for (b_, bb, t_, v_, sp_) in patches if b_.name == rb.name and bb in rb.reachable]
        cen = outq.census(f)
        stores = [bb for (b, bb, field, val, span) in cen["retained"]["elem_stores"]
                  if b.name == name and field == "state" and (outq.is_write0(val) or outq.helper_write0(f, val))]
        # a patch / re-arm that sits in a `for` loop over the queue stands for its loop: what matters is that the two loops
        # run on the same paths (an empty queue skips both bodies), and that each body does its store on every iteration
        def site(bb_):
            h = outq.loop_head_of(rb, bb_)
            return h if h is not None and outq.unconditional_in_loop(rb, bb_) else bb_
        pcalls = [site(x) for x in pcalls]
        stores = [site(x) for x in stores]
        ok = bool(pcalls) and bool(stores)
        if ok:
            for sb in stores:
                pre, _ = rb.must_pass([0], [sb], via_blocks=pcalls)
                post, _ = rb.must_pass([sb], rb.returns, via_blocks=pcalls)
                ok = ok and (pre or post)
        R.ob("dup/rearm/%s" % rb.fn_name, ok,
             "whenever retained packets are re-armed for replay the DUP patch runs on the same path (a retransmitted "
             "PUBLISH carries DUP=1)", where=rb.span)


def rule_replay(R):
    """a retained PUBLISH is sent again *from its first byte* on the next connection, whatever state it was left in: an
    entry that stays at Write{written: k} would have only its tail written to the new transport -- the broker never sees
    the PUBLISH, and the client considers it sent"""
    f = R.f
    sites = outq.rearm_sites(f)
    _, ccode = roles.session_connect(f)
    how = [q.get("retained") for n, q in sites.items() if outq.calls_to(f, ccode, f.bodies[n]) and q.get("retained")]
    R.ob("replay/retained-rearmed-whole", "always" in how,
         "on a new connection every retained entry restarts at Write{written: 0}, unconditionally%s"
         % ("" if "always" in how else (" (the re-arm is conditional on the entry's state)" if how else " (no re-arm reached from Session::connect)")),
         where=ccode.span)


def rule_arena(R):
    """what is retransmitted is what was accepted: every mutable view of the arena handed out after a packet was retained
    starts behind all retained bytes (`buf[used..]` after a dominating compact); nothing but the encoders, the DUP patch
    and compaction writes the arena; compaction moves each entry's own bytes and keeps its bookkeeping; the entry records
    where the encoder put the packet and the step reads it back from there -- the clauses of C17, which are also necessary
    for "otherwise byte-identical content"""
    from . import c17
    c17.rule_base(R)
    c17.rule_writers(R)
    c17.rule_compact(R)
    c17.rule_wire(R)
    c17.rule_used(R)


def rule_final(R):
    """the PUBACK ends the exchange whatever its reason code (shared with C18)"""
    from .c18 import clause_remove_then_report
    clause_remove_then_report(R, "final", arms=("PubAck",))
    # "never after its PUBACK": every PUBACK reaches the removal (C03's clause for the PUBACK arm)
    from .c03 import clause_ack_reaches_removal
    clause_ack_reaches_removal(R, "final/PubAck/reaches-removal", "PubAck", "retained_removal")


def rule_limit(R):
    """replay is gated by the broker's Maximum Packet Size: the gate must use the limit of the connection the replay
    runs on (shared with C14) -- a stale, smaller limit refuses the retained packet on every later connection"""
    roles.clause_negotiated_per_connection(R, "limit", ("maximum_packet_size",))


def rule_reason(R):
    """the PUBACK outcome reported to the application follows ReasonCode::as_result (MQTT 5 2.4: below 0x80) -- shared clause"""
    roles.clause_reason_predicates(R, "reason")


def rule_shared_fresh(R):
    """a refused or garbled CONNACK says nothing about the stored session: the reset that drops unacknowledged messages runs only on the no-session edge of an *accepted* CONNACK -- C05's placement clause"""
    from .c05 import clause_fresh_reset
    clause_fresh_reset(R, "fresh")


def rule_shared_resume(R):
    """"never retransmitted within one connection", "byte-identical": a packet the transport accepted in part continues at the
    recorded offset -- the offset stored is the count reported (C13's store rule) and every write starts at the entry's
    recorded `written` (C15's write rule).  An offset that is narrowed, restarted or skipped re-sends or drops bytes."""
    from .c13 import rule_store as _s
    from .c15 import rule_write as _w
    _s(R)
    _w(R)


def run(R):
    R.rule("resume", rule_shared_resume)
    R.rule("fresh", rule_shared_fresh)
    R.rule("reason", rule_reason)
    R.rule("limit", rule_limit)
    R.rule("final", rule_final)
    R.rule("replay", rule_replay)
    R.rule("arena", rule_arena)
    R.rule("enq", rule_enq)
    R.rule("remove", rule_remove)
    R.rule("once", rule_once)
    R.rule("sent", rule_sent)
    R.rule("order", rule_order)
    R.rule("dup", rule_dup)
