"""Role resolution: the anchors of the properties (public API, named state, external items) resolved
against the facts of the current tree.  Every resolver fails closed with AnchorLost."""
from ..core import AnchorLost, chain, peel, phi_alts, is_call, walk, IO_METHODS, IO_READ, IO_WRITE, IO_FLUSH

CONN = "mqtt_client::session::Connection"
SESSION = "mqtt_client::session::Session"
SDATA = "mqtt_client::session::state::SessionData"
RUNTIME = "mqtt_client::session::state::RuntimeState"
OUTBOUND = "mqtt_client::outbound::Outbound"
READER = "de::packet_reader::PacketReader"
STATE_ADTS = (SESSION, SDATA, RUNTIME, OUTBOUND, READER)

PUBLIC_OPS = ("drive", "poll", "recv", "publish", "subscribe", "unsubscribe", "disconnect", "disconnect_with")


def cached(fn):
    def w(f, *a):
        k = (fn.__name__,) + a
        store = f.__dict__.setdefault("_roles", {})
        if k not in store:
            store[k] = fn(f, *a)
        return store[k]
    w.__name__ = fn.__name__
    return w


def self_is(b, adt):
    return b.self_ty is not None and (b.self_ty == adt or b.self_ty.startswith(adt + "<"))


@cached
def conn_methods(f):
    """name -> (fn body, code body) for inherent methods of Connection"""
    out = {}
    for b in f.bodies.values():
        if b.kind == "assoc_fn" and self_is(b, CONN) and b.trait is None:
            out[b.fn_name] = (b, f.code(b))
    if len(out) < 10:
        raise AnchorLost("Connection-methods", "found %d" % len(out))
    return out


@cached
def method(f, adt, name):
    c = [b for b in f.bodies.values() if b.kind == "assoc_fn" and self_is(b, adt) and b.fn_name == name and b.trait is None]
    if not c:
        # a method that was moved to another type keeps its reference name in the normal form (normalize.detect_renames)
        short = adt.rsplit("::", 1)[-1]
        for new, old in (getattr(f, "normalization", {}) or {}).get("renamed", {}).items():
            b = f.bodies.get(old)
            if b is not None and b.fn_name == name and b.kind == "assoc_fn" and ("::%s::" % short in old or "::%s<" % short in old or "::%s::<" % short in old):
                c = [b]
    if len(c) != 1:
        raise AnchorLost("%s::%s" % (adt.rsplit("::", 1)[-1], name), "found %d candidates" % len(c))
    return c[0]


def code(f, adt, name):
    return f.code(method(f, adt, name))


@cached
def free_fn(f, name, module=None):
    c = [b for b in f.bodies.values() if b.kind == "fn" and b.fn_name == name and (module is None or b.name.startswith(module))]
    if not c:
        # a free function that became a method keeps its reference name in the normal form (normalize.detect_renames)
        ren = (getattr(f, "normalization", {}) or {}).get("renamed", {})
        c = [f.bodies[old] for new, old in ren.items() if old in f.bodies and f.bodies[old].fn_name == name
             and f.bodies[old].kind in ("fn", "assoc_fn") and (module is None or old.startswith(module))]
    if len(c) != 1:
        raise AnchorLost("fn:" + name, "found %d candidates" % len(c))
    return c[0]


@cached
def live_field(f):
    """LIVE = the field of Connection whose value `is_connected` returns"""
    b = method(f, CONN, "is_connected")
    t = b.local_term(0)
    root, names = chain(t)
    if root == ("param", "self") and len(names) == 1:
        return names[0]
    raise AnchorLost("LIVE", "is_connected does not return a field of self")


def is_live_term(f, t):
    lf = live_field(f)
    for alt in phi_alts(t):
        root, names = chain(alt)
        if root == ("param", "self") and names == [lf]:
            return True
    return False


@cached
def latch_fns(f):
    """functions that store `false` into LIVE"""
    lf = live_field(f)
    out = set()
    for (b, bb, j, dst, rv, s, final) in f.field_stores(CONN, lf):
        t = b.rvalue_term(rv)
        if t[0] == "const" and t[2] == 0:
            out.add(b.name)
    if not out:
        raise AnchorLost("latch", "no function stores false into Connection.%s" % lf)
    return out


@cached
def may_latch(f):
    lat = latch_fns(f)
    return f.summary("may_latch", lambda b: b.name in lat)


@cached
def live_true_writers(f):
    """sites that make LIVE true: stores of non-false values and Connection{..} aggregates"""
    lf = live_field(f)
    sites = []
    for (b, bb, j, dst, rv, s, final) in f.field_stores(CONN, lf):
        t = b.rvalue_term(rv)
        if not (t[0] == "const" and t[2] == 0):
            sites.append((b, bb, "store"))
    for b in f.bodies.values():
        for bb, j, s in b.assigns():
            rv = s["rv"]
            if "agg" in rv and rv["agg"].get("adt") == CONN:
                sites.append((b, bb, "aggregate"))
    return sites


def call_latches(f, c):
    ml = may_latch(f)
    return any(t in ml for t in f.call_targets(c))


@cached
def public_ops(f):
    cm = conn_methods(f)
    out = {}
    for n in PUBLIC_OPS:
        if n not in cm:
            raise AnchorLost("public-op:" + n)
        b, c = cm[n]
        if b.vis != "pub" or not b.is_async:
            raise AnchorLost("public-op:" + n, "not a pub async fn")
        out[n] = (b, c)
    # any other pub async fn of Connection is a public operation as well
    for n, (b, c) in cm.items():
        if b.vis == "pub" and b.is_async and n not in out:
            out[n] = (b, c)
    return out


@cached
def session_connect(f):
    b = method(f, SESSION, "connect")
    if not b.is_async:
        raise AnchorLost("Session::connect", "not async")
    return b, f.code(b)


@cached
def handshake(f):
    """the does_io callee(s) of Session::connect"""
    _, c = session_connect(f)
    io = f.does_io()
    out = []
    for call in c.calls.values():
        if call.bb not in c.reachable:
            continue
        for t in f.call_targets(call):
            tb = f.bodies[t]
            if tb.kind == "assoc_fn" and t in io and self_is(tb, SESSION):
                out.append((call, tb))
    names = set(tb.name for _, tb in out)
    if len(names) != 1:
        raise AnchorLost("handshake", "Session::connect calls %d does_io Session methods" % len(names))
    call, tb = out[0]
    return call, tb, f.code(tb)


def is_io_call(c):
    return c.path in IO_METHODS


def state_field_of(place_or_term):
    pass


@cached
def writes_state(f):
    """functions that may mutate session state (fields of Session/SessionData/RuntimeState/Outbound/
    PacketReader): direct stores, or `&mut field` passed to any call"""
    def pred(b):
        for (bb, j, dst, rv, s) in b.stores():
            if bb not in b.reachable:
                continue
            for e in dst["proj"]:
                if isinstance(e, dict) and "f" in e and e.get("of") in STATE_ADTS:
                    return True
        for c in b.calls.values():
            if c.bb not in b.reachable:
                continue
            for a in c.args:
                t = b.operand_term(a)
                for alt in phi_alts(t):
                    x = alt
                    mut = False
                    while isinstance(x, tuple) and x[0] in ("ref", "deref"):
                        if x[0] == "ref" and x[2]:
                            mut = True
                        x = x[1]
                    if mut and x[0] == "field" and x[3] in STATE_ADTS:
                        # passing &mut state to a *local* function is accounted through that function's
                        # own summary; passing it to an external function (Vec::push, ...) is a mutation
                        if not f.call_targets(c):
                            return True
        return False
    return f.summary("writes_state", pred)


def call_writes_state(f, c):
    ws = writes_state(f)
    return any(t in ws for t in f.call_targets(c))


def live_true_edges(f, body):
    """edges (src, dst) on which LIVE is known true: the True edge of a switch on LIVE"""
    out = []
    for bb in body.switches:
        if bb not in body.reachable:
            continue
        si = body.switch_info(bb)
        if is_live_term(f, si["subject"]) and True in si["edges"]:
            out.append((bb, si["edges"][True], si["edges"].get(False)))
    return out


def live_known(f, body):
    """forward must-dataflow: set of blocks at whose *entry* LIVE is known true, and a function
    known_at_term(bb) telling whether it is still known when bb's terminator executes."""
    gen_edges = {}
    for (src, t, fl) in live_true_edges(f, body):
        gen_edges[(src, t)] = True
    lf = live_field(f)

    def kills_stmt(bb):
        for s in body.blocks[bb]["stmts"]:
            if s["k"] == "assign" and s["dst"]["proj"]:
                for e in s["dst"]["proj"]:
                    if isinstance(e, dict) and e.get("name") == lf and e.get("of") == CONN:
                        return True
        return False

    def kills_term(bb):
        c = body.calls.get(bb)
        if c is None:
            return False
        if call_latches(f, c):
            return True
        # an unknown callee that receives `&mut self` (whole connection) could latch; local ones are summarised
        return False

    IN = {b: True for b in body.reachable}
    IN[0] = False
    changed = True
    order = sorted(body.reachable)
    while changed:
        changed = False
        for b in order:
            if b == 0:
                continue
            val = True
            preds = [p for p in body.pred[b] if p in body.reachable]
            if not preds:
                val = False
            for p in preds:
                if (p, b) in gen_edges:
                    e = True
                else:
                    e = IN[p] and not kills_stmt(p) and not kills_term(p)
                val = val and e
            if val != IN[b]:
                IN[b] = val
                changed = True
    def at_term(bb):
        return IN.get(bb, False) and not kills_stmt(bb)
    return IN, at_term


def transport_sites(f, body):
    """calls in `body` that touch the transport: direct Read/Write calls, and calls to does_io functions
    that are *not* Connection methods (helpers receiving `&mut io`)"""
    out = []
    io = f.does_io()
    for c in body.calls.values():
        if c.bb not in body.reachable:
            continue
        if is_io_call(c):
            out.append(c)
            continue
        for t in f.call_targets(c):
            tb = f.bodies[t]
            if t in io and tb.kind in ("fn", "assoc_fn") and not self_is(tb, CONN):
                out.append(c)
                break
    return out


def awaited_result_switches(body, call):
    """switches whose subject is the (awaited) result of `call`, `?` applications to it, and
    direct matches. returns (result_switches, q_sites)"""
    def is_res(x):
        return is_result_of(x, call.bb)
    res = body.result_switches(is_res)
    qs = body.q_edges(is_res)
    return res, qs


RESULT_ADAPTERS = ("Result::<T, E>::map", "Result::<T, E>::map_err", "Result::<T, E>::inspect", "Result::<T, E>::inspect_err")


def closure_envs(f, b):
    """closures built in body b: list of (closure body, {captured name: term in b})"""
    from ..core import subst as _subst
    out = []
    for bb, j, s in b.assigns():
        rv = s["rv"]
        if bb in b.reachable and "agg" in rv and rv["agg"]["kind"] == "closure" and rv["agg"].get("def") in f.bodies:
            names = rv["agg"].get("fields", [])
            env = {}
            for k, op in enumerate(rv["ops"]):
                if k < len(names):
                    t = b.operand_term(op)
                    env[names[k]] = t
            out.append((f.bodies[rv["agg"]["def"]], env))
    return out


def calls_with_env(f, b, target):
    """calls to `target` in b or in a closure built in b: list of (call, term(operand) -> term over b's parameters)"""
    from ..core import subst as _subst
    from . import outq as _outq
    out = []
    for c in _outq.calls_to(f, b, target):
        out.append((c, lambda op, b=b: b.operand_term(op)))
    for cb, env in closure_envs(f, b):
        for c in _outq.calls_to(f, cb, target):
            def tf(op, cb=cb, env=env):
                t = cb.operand_term(op)
                # by-reference captures are `*_ref__x`
                m = {}
                for k, v in env.items():
                    m[k] = v
                t = _subst(t, m)
                return peel(t)
            out.append((c, tf))
    return out


def expand_getter(f, t, depth=0):
    """a call to a local function that merely returns an expression over its own parameters (an accessor) is replaced
    by that expression (one level of term-level inlining, on demand)"""
    from ..core import subst as _subst
    t0 = peel(t)
    if depth > 3 or not (isinstance(t0, tuple) and t0[0] == "call" and t0[2] in f.bodies):
        return t
    cb = f.bodies[t0[2]]
    if cb.kind not in ("fn", "assoc_fn") or cb.is_async or len(cb.blocks) > 12 or cb.stores():
        return t
    if any(f.call_does_io(c) for c in cb.calls.values() if c.bb in cb.reachable):
        return t
    mapping = {cb.param_name(i + 1): a for i, a in enumerate(t0[3]) if i < cb.arg_count}
    return _subst(cb.local_term(0), mapping)


def lookup_edges(body, blocks, field):
    """(found target, not-found target) of a search over the collection `field` inside `blocks`: either the Some / None
    edges of a switch on `position(..)` / `find(..)`, or -- for a loop `for x in field.iter() { if x == key { .. } }`, which is
    what those adaptors read as -- the true edge of the equality test on the element and the exhaustion edge of next()"""
    from ..core import chain as _chain
    for bb in sorted(blocks):
        if bb in body.switches and bb in body.reachable:
            si = body.switch_info(bb)
            for alt in phi_alts(si["subject"]):
                if is_call(alt, "position", "iter::Iterator::position", "iter::Iterator::find") and field in show(alt):
                    return si["edges"].get("Some"), si["edges"].get("None")
    nxt = [c for c in body.calls.values() if c.bb in blocks and c.bb in body.reachable and c.is_("core::iter::Iterator::next")
           and any(x[0] == "field" and x[2] == field for x in walk(body.operand_term(c.args[0])))]
    for nx in nxt:
        sw = None
        for bb in body.switches:
            si = body.switch_info(bb)
            if si["enum"] == "core::option::Option" and any(a[0] == "call" and a[1] == nx.bb for a in phi_alts(peel(si["subject"]))):
                sw = si
        if sw is None or sw["edges"].get("Some") is None:
            continue
        for bb in sorted(body.switches):
            if bb not in body.reachable or not body.must_pass([0], [bb], via_edges=[(sw["bb"], sw["edges"]["Some"])])[0]:
                continue
            si = body.switch_info(bb)
            s_ = peel(si["subject"])
            iseq = (s_[0] == "bin" and s_[1] == "Eq") or is_call(s_, "PartialEq::eq", "eq")
            if iseq and any(x[0] == "call" and x[1] == nx.bb for x in walk(s_)) and si["edges"].get(True) is not None:
                return si["edges"][True], sw["edges"].get("None")
    return None, None


def membership_loop(body, field, hit_pred):
    """`body` is a boolean search over the collection `field` (a loop, which is also what `.iter().any(..)` reads as):
    it returns true only on a path where hit_pred(path) holds for an element of this iteration, and false only when the
    iteration is exhausted.  hit_pred(body, next_call, path) -> bool.  A search that looks at the first entry on its own
    and loops over the rest (`split_first`) is the same search: the head test counts as a hit, the empty list as
    exhaustion."""
    from .. import paths as _paths
    nxt = [c for c in body.calls.values() if c.bb in body.reachable and c.is_("core::iter::Iterator::next")
           and any(x[0] == "field" and x[2] == field for x in walk(body.operand_term(c.args[0])))]
    if len(nxt) != 1:
        return False
    nx = nxt[0]
    sw = None
    for bb in body.switches:
        si = body.switch_info(bb)
        if si["enum"] == "core::option::Option" and any(a[0] == "call" and a[1] == nx.bb for a in phi_alts(peel(si["subject"]))):
            sw = si
    if sw is None or sw["edges"].get("None") is None:
        return False
    # head / tail split: the loop runs over `split_first(field).1`; the None edge of the split is the empty list
    it = body.operand_term(nx.args[0])
    split = [x for x in walk(it) if isinstance(x, tuple) and is_call(x, "split_first") and x[3]
             and any(y[0] == "field" and y[2] == field for y in walk(x[3][0]) if isinstance(y, tuple))]
    empty_edges = []
    if split:
        for bb in body.switches:
            si = body.switch_info(bb)
            if si["enum"] == "core::option::Option" and si["edges"].get("None") is not None \
                    and any(isinstance(a, tuple) and a[0] == "call" and a[1] == split[0][1] for a in phi_alts(peel(si["subject"]))):
                empty_edges.append((bb, si["edges"]["None"]))
        for c in body.calls.values():
            # `split_first()?`
            if c.bb in body.reachable and c.path == "core::ops::Try::branch" and c.args \
                    and any(isinstance(a, tuple) and a[0] == "call" and a[1] == split[0][1] for a in phi_alts(peel(body.operand_term(c.args[0])))):
                for si in body.result_switches(lambda x, c=c: peel(x)[0] == "call" and peel(x)[1] == c.bb):
                    if si["edges"].get("Break") is not None:
                        empty_edges.append((si["bb"], si["edges"]["Break"]))
        if not empty_edges:
            return False
    trues = falses = 0
    for lf in _paths.explore(body, 0, lambda t: False, lambda b, x: False, max_paths=4000):
        if lf["kind"] == "limit":
            return False
        if lf["kind"] != "return":
            continue
        v = _paths.value_on_path(body, lf["path"], 0)
        p_ = lf["path"]
        exhausted = any(p_[i] == sw["bb"] and p_[i + 1] == sw["edges"]["None"] for i in range(len(p_) - 1)) or \
            any(p_[i] == a and p_[i + 1] == b_ for (a, b_) in empty_edges for i in range(len(p_) - 1))
        if v is None or v[0] != "const" or v[2] not in (0, 1):
            return False
        if v[2] == 1:
            trues += 1
            if exhausted or not (hit_pred(body, nx, p_) or (split and hit_pred(body, None, p_, head_of=split[0]))):
                return False
        else:
            falses += 1
            if not exhausted:
                return False
    return trues >= 1 and falses >= 1


def eq_test_taken(elem_field, key):
    """hit predicate: the path takes the true edge of `element.<elem_field> == <key term>` (the element being what this
    iteration's next() returned, or -- with head_of -- the first entry `split_first(..).0`)"""
    def pred(body, nx, path, head_of=None):
        for i in range(len(path) - 1):
            bb = path[i]
            if bb not in body.switches:
                continue
            si = body.switch_info(bb)
            s_ = peel(si["subject"])
            sides = None
            if s_[0] == "bin" and s_[1] == "Eq":
                sides = (peel(s_[2]), peel(s_[3]))
            elif is_call(s_, "PartialEq::eq", "eq") and len(s_[3]) == 2:
                sides = (peel(s_[3][0]), peel(s_[3][1]))
            if sides is None or si["edges"].get(True) != path[i + 1]:
                continue
            from ..core import chain as _chain
            for a, b in (sides, sides[::-1]):
                ra, na = _chain(a)
                ra = peel(ra)
                while isinstance(ra, tuple) and ra[0] == "ok":
                    ra = peel(ra[1])
                if peel(b) != key or na[-1:] != [elem_field]:
                    continue
                if head_of is None:
                    if isinstance(ra, tuple) and ra[0] == "call" and nx is not None and ra[1] == nx.bb:
                        return True
                else:
                    nn = [k_ for k_ in na if not k_.startswith("@")]
                    if isinstance(ra, tuple) and ra[0] == "call" and ra[1] == head_of[1] and nn[:1] == ["0"]:
                        return True
        return False
    return pred


@cached
def connect_write(f):
    """the handshake's write of CONNECT: dict(calls=[io calls that put CONNECT on the wire], conts=[success edges],
    buffer=term of the buffer CONNECT is encoded into, span).  Either one call of an encode-and-write helper instantiated
    for packets::Connect, or -- when that helper is folded into the handshake -- MqttSerializer::encode::<Connect> followed
    by the writes of its result."""
    from .ops import cont_edges
    call, hb, hcode = handshake(f)
    ios = [c for c in hcode.calls.values() if c.bb in hcode.reachable and f.call_does_io(c)]
    conn = [c for c in ios if any("Connect" in g and "packets::" in g for g in c.gargs)]
    if len(conn) == 1:
        c = conn[0]
        conts, _ = cont_edges(hcode, c)
        return {"calls": [c], "conts": conts, "buffer": hcode.operand_term(c.args[0]), "span": c.span, "ios": ios, "count": 1}
    encs = [c for c in hcode.calls.values() if c.bb in hcode.reachable and c.path and "MqttSerializer" in c.path and "encode" in c.path
            and any("Connect" in g and "packets::" in g for g in c.gargs)]
    if len(encs) == 1:
        e = encs[0]
        writes = [c for c in ios if any(x[0] == "call" and x[1] == e.bb for a in c.args for x in walk(hcode.operand_term(a)))]
        conts = []
        for w in writes:
            ce, _ = cont_edges(hcode, w)
            conts += ce
        flushes = [c for c in ios if c.path == IO_FLUSH and writes and hcode.must_pass([0], [c.bb], via_edges=conts)[0]]
        return {"calls": writes + flushes, "conts": conts, "buffer": hcode.operand_term(e.args[0]), "span": e.span, "ios": ios,
                "count": 1 if writes else 0}
    return {"calls": [], "conts": [], "buffer": None, "span": hb.span, "ios": ios, "count": len(conn) + len(encs)}


OK_KEEPING = ("Result::<T, E>::map_err", "Result::<T, E>::inspect", "Result::<T, E>::inspect_err")


def ok_payload_source(t):
    """t is the Ok payload of some Result r -- via `match r { Ok(v) => v, .. }`, `r?`, or through adapters that keep
    the Ok payload (map_err / inspect*) -- returns r (peeled, adapters stripped), else None"""
    from ..core import chain as _chain
    t = peel(t)
    r = None
    if isinstance(t, tuple) and t[0] == "ok":
        r = t[1]
    else:
        root, names = _chain(t)
        if names == ["@Ok", "0"]:
            r = root
    if r is None:
        return None
    for _ in range(6):
        r = peel(r)
        if is_call(r, *OK_KEEPING) and r[3]:
            r = r[3][0]
        else:
            break
    return peel(r)


def is_result_of(x, bb, depth=0):
    """term x is the (awaited) result of the call at block bb, possibly merged with other results in a local
    (phi) or passed through Result::map / map_err (which keep Ok/Err-ness)"""
    if depth > 6:
        return False
    x = peel(x)
    if not isinstance(x, tuple):
        return False
    if x[0] == "phi":
        return any(is_result_of(a, bb, depth + 1) for a in x[1])
    if x[0] == "await":
        return is_result_of(x[1], bb, depth + 1)
    if x[0] == "call":
        if x[1] == bb:
            return True
        if is_call(x, *RESULT_ADAPTERS) and x[3]:
            return is_result_of(x[3][0], bb, depth + 1)
    return False


def _raw_locals(o, out):
    if isinstance(o, dict):
        if "l" in o and "proj" in o:
            out.add(o["l"])
            for e in o["proj"]:
                if isinstance(e, dict) and "index" in e:
                    out.add(e["index"])
            return
        for v in o.values():
            _raw_locals(v, out)
    elif isinstance(o, list):
        for v in o:
            _raw_locals(v, out)


def depends_on_local(code, rv, target, limit=400):
    """the raw rvalue / operand `rv` of body `code` is computed from local `target` (def-use closure over the body)"""
    seen = set()
    work = set()
    _raw_locals(rv, work)
    work = list(work)
    defs = code.defs()
    n = 0
    while work and n < limit:
        n += 1
        l = work.pop()
        if l == target:
            return True
        if l in seen:
            continue
        seen.add(l)
        for d in defs.get(l, []):
            nxt = set()
            if d[0] == "stmt":
                _raw_locals(code.blocks[d[1]]["stmts"][d[2]]["rv"], nxt)
            elif d[0] == "call":
                _raw_locals(code.blocks[d[1]]["term"]["args"], nxt)
            work.extend(nxt)
    return False


def _raw_places(o, out):
    """(local, first field name or None) of every place mentioned in a raw rvalue / operand list"""
    if isinstance(o, dict):
        if "l" in o and "proj" in o:
            fn = None
            for e in o["proj"]:
                if e == "deref":
                    continue
                if isinstance(e, dict) and "f" in e:
                    fn = e.get("name")
                break
            out.add((o["l"], fn))
            for e in o["proj"]:
                if isinstance(e, dict) and "index" in e:
                    out.add((e["index"], None))
            return
        for v in o.values():
            _raw_places(v, out)
    elif isinstance(o, list):
        for v in o:
            _raw_places(v, out)


def depends_on_place(code, rv, target, tfield, limit=800):
    """field-sensitive variant of depends_on_local: rv is computed from `target.tfield` (or from all of `target`)"""
    work = set()
    _raw_places(rv, work)
    work = list(work)
    seen = set()
    defs = code.defs()
    n = 0
    while work and n < limit:
        n += 1
        l, fn = work.pop()
        if l == target and (fn is None or tfield is None or fn == tfield):
            return True
        if (l, fn) in seen:
            continue
        seen.add((l, fn))
        # whole-local definitions
        for d in defs.get(l, []):
            nxt = set()
            if d[0] == "stmt":
                rv2 = code.blocks[d[1]]["stmts"][d[2]]["rv"]
                if fn is not None and "agg" in rv2 and rv2["agg"]["kind"] == "adt" and fn in (rv2["agg"].get("fields") or []):
                    _raw_places(rv2["ops"][rv2["agg"]["fields"].index(fn)], nxt)   # only the operand of that field
                else:
                    _raw_places(rv2, nxt)
            elif d[0] == "call":
                _raw_places(code.blocks[d[1]]["term"]["args"], nxt)
            work.extend(nxt)
        # partial stores `l.f = ..`
        for (bb, j, dst, rv2, s_) in code.stores():
            if dst["l"] != l or bb not in code.reachable:
                continue
            first = [e for e in dst["proj"] if e != "deref"][:1]
            sf = first[0].get("name") if first and isinstance(first[0], dict) and "f" in first[0] else None
            if fn is None or sf is None or sf == fn:
                nxt = set()
                _raw_places(rv2, nxt)
                work.extend(nxt)
    return False


def local_feeds(f, hcode, l, fname):
    """(adt, field) of state that hcode stores a value computed from local l (its field fname) into"""
    fs = set()
    for (bb, j, dst, rv, s) in hcode.stores():
        if bb not in hcode.reachable or dst["l"] == l:
            continue
        last = None
        for e in dst["proj"]:
            if isinstance(e, dict) and "f" in e and e.get("name"):
                last = (e.get("of"), e["name"])
        if last and depends_on_place(hcode, rv, l, fname):
            fs.add(last)
    return fs


def upvar_feeds(f, hcode, cb):
    """for a closure `cb` built in `hcode`: captured-by-&mut variable name -> set of (adt, field) that hcode stores a value
    computed from that variable into"""
    cap = {}
    for bb, j, s in hcode.assigns():
        rv = s["rv"]
        if "agg" in rv and rv["agg"].get("def") == cb.name:
            names = rv["agg"].get("fields", [])
            for k, op in enumerate(rv["ops"]):
                pl = op.get("move") or op.get("copy")
                if pl is None or pl["proj"] or k >= len(names):
                    continue
                for dd in hcode.defs().get(pl["l"], []):
                    if dd[0] == "stmt":
                        rv2 = hcode.blocks[dd[1]]["stmts"][dd[2]]["rv"]
                        if "ref" in rv2 and not rv2["ref"]["proj"]:
                            cap[names[k].replace("_ref__", "")] = (rv2["ref"]["l"], None)
                        elif "ref" in rv2 and len(rv2["ref"]["proj"]) == 1 and isinstance(rv2["ref"]["proj"][0], dict) \
                                and "f" in rv2["ref"]["proj"][0] and rv2["ref"]["proj"][0].get("name"):
                            # closures capture disjoint fields: `&mut settings.limit`
                            cap[names[k].replace("_ref__", "")] = (rv2["ref"]["l"], rv2["ref"]["proj"][0]["name"])
    out = {}
    for nm, (l, fld) in cap.items():
        fs = set()
        for (bb, j, dst, rv, s) in hcode.stores():
            if bb not in hcode.reachable or (fld is not None and dst["l"] == l):
                continue
            last = None
            for e in dst["proj"]:
                if isinstance(e, dict) and "f" in e and e.get("name"):
                    last = (e.get("of"), e["name"])
            if last and (depends_on_local(hcode, rv, l) if fld is None else depends_on_place(hcode, rv, l, fld)):
                fs.add(last)
        out[nm] = fs
    return out


def arm_values_for(a, adt, field):
    """values an arm of the CONNACK property loop stores into captured variables that end up in `adt.field`"""
    return [v for nm, v in a["stores"] if (adt, field) in a["feeds"].get(nm, ())]


@cached
def connack_property_arms(f):
    """For the handshake's CONNACK property loop: variant -> dict(stores=[(upvar name, value term)], unconditional=bool,
    span).  `unconditional` means every path through the arm that does not leave with an error performs every store of
    the arm (a honoured CONNACK property is not silently skipped)."""
    from ..core import chain as _chain
    call, hb, hcode = handshake(f)
    out = {}
    for cb in [hcode] + [c for c in f.children(hcode) if c.kind == "closure"]:
        for bb in sorted(cb.switches):
            if bb not in cb.reachable:
                continue
            si = cb.switch_info(bb)
            if si["enum"] != "properties::Property":
                continue
            for v, tgt in si["edges"].items():
                others = [t for k, t in si["edges"].items() if k != v] + [si["otherwise"]]
                arm = cb.reach([tgt], avoid=[bb]) - cb.reach([o for o in others if o != tgt], avoid=[bb])
                stores = []
                sblocks = []
                feeds = {}
                if cb.kind == "closure":
                    for (sb, j, dst, rv, s) in cb.stores():
                        if sb in arm:
                            t = cb.place_term(dst)
                            if t[0] == "deref" and t[1][0] == "param":
                                stores.append((t[1][1].replace("_ref__", ""), cb.rvalue_term(rv)))
                                sblocks.append(sb)
                else:
                    # the loop lives in the handshake itself (or in a helper that was inlined): the values are kept in
                    # locals, or in fields of a local struct, until they are applied to the session
                    for sb, j, s in cb.assigns():
                        if sb not in arm:
                            continue
                        dst = s["dst"]
                        firstp = [e for e in dst["proj"] if e != "deref"][:1]
                        fn = firstp[0].get("name") if firstp and isinstance(firstp[0], dict) and "f" in firstp[0] else None
                        if dst["proj"] and fn is None:
                            continue
                        if any(isinstance(e, dict) and e.get("of") in STATE_ADTS for e in dst["proj"]):
                            continue
                        fd = local_feeds(f, cb, dst["l"], fn)
                        if not fd:
                            continue
                        nm = "local%d%s" % (dst["l"], ("." + fn) if fn else "")
                        stores.append((nm, cb.rvalue_term(s["rv"])))
                        sblocks.append(sb)
                        feeds[nm] = fd
                # paths from the arm entry back to the loop head (the switch) or to a normal Ok return must pass the stores
                unconditional = bool(sblocks)
                if sblocks:
                    from .. import paths as _paths
                    leaves = _paths.explore(cb, tgt, lambda t: False, lambda b, x: x in sblocks,
                                            stop_pred=lambda b, x, bb=bb: x == bb)
                    for lf in leaves:
                        if lf["kind"] == "stop" and not lf["marked"]:
                            unconditional = False
                        if lf["kind"] == "return" and not lf["marked"]:
                            # leaving with an error is fine
                            val = None
                            for pb in lf["path"]:
                                for st in cb.blocks[pb]["stmts"]:
                                    if st["k"] == "assign" and st["dst"]["l"] == 0:
                                        val = cb.rvalue_term(st["rv"])
                                c = cb.calls.get(pb)
                                if c is not None and c.dst["l"] == 0:
                                    val = cb.call_term(pb)
                            if val is not None and val[0] == "agg" and val[3] == "Ok":
                                unconditional = False
                if cb.kind == "closure":
                    feeds = upvar_feeds(f, hcode, cb)
                if v not in out or stores:
                    out[v] = {"stores": stores, "unconditional": unconditional, "span": cb.line(tgt), "body": cb, "feeds": feeds}
    return out


def clause_connack_walk_complete(R, key):
    """Every property of the CONNACK is looked at: inside the handshake's property loop an arm may leave with an error, but
    the walk ends *successfully* only when the iterator is exhausted.  An arm that returns Ok (or breaks out of the loop)
    silently ignores every property encoded after it -- Receive Maximum, Maximum Packet Size, Server Keep Alive, Maximum
    QoS each depend on being reached."""
    from .. import paths as _paths
    f = R.f
    call, hb, hcode = handshake(f)
    n = 0
    bad = []
    for cb in [hcode] + [c for c in f.children(hcode) if c.kind == "closure"]:
        for bb in sorted(cb.switches):
            if bb not in cb.reachable:
                continue
            si = cb.switch_info(bb)
            if si["enum"] != "properties::Property":
                continue
            # the loop head: the closest Iterator::next call that dominates the dispatch
            heads = [c.bb for c in cb.calls.values() if c.bb in cb.reachable and c.is_("Iterator::next", "core::iter::Iterator::next")
                     and cb.dominates(c.bb, bb)]
            if not heads:
                continue
            head = max(heads, key=lambda h: len([x for x in heads if cb.dominates(x, h)]))
            R.touch(cb)
            n += 1
            exits_after_loop = cb.reach([head], avoid=[bb])
            for v, tgt in list(si["edges"].items()) + [("_", si["otherwise"])]:
                if tgt is None:
                    continue
                leaves = _paths.explore(cb, tgt, lambda t: False, lambda b, x: False, stop_pred=lambda b, x, head=head: x == head)
                for lf in leaves:
                    if lf["kind"] == "stop":
                        continue
                    if lf["kind"] != "return":
                        continue
                    if cb.kind != "closure":
                        # the loop lives in the handshake: leaving the arm without passing the loop head skips the rest
                        val = None
                    val = None
                    for pb in lf["path"]:
                        for st in cb.blocks[pb]["stmts"]:
                            if st["k"] == "assign" and st["dst"]["l"] == 0:
                                val = cb.rvalue_term(st["rv"])
                        c = cb.calls.get(pb)
                        if c is not None and c.dst["l"] == 0:
                            val = cb.call_term(pb)
                    if val is not None and val[0] == "agg" and val[3] == "Err":
                        continue
                    if val is not None and is_call_term(val, "from_residual"):
                        continue
                    bad.append("%s arm at %s" % (v, cb.line(tgt)))
    if n == 0:
        raise AnchorLost("connack-property-loop")
    R.ob(key, not bad,
         "the walk over the CONNACK's properties ends successfully only when every property was looked at: no arm returns "
         "Ok or leaves the loop early%s" % ((" (found: %s)" % "; ".join(sorted(set(bad))[:3])) if bad else ""), where=hb.span)


def is_call_term(t, *names):
    from ..core import is_call as _ic
    return _ic(t, *names)


def element_predicate_table(f, body, field, elem_adt, dims):
    """Truth table of the per-element test of a boolean search over `field` (`.iter().any(|e| ..)`, or the loop it is read
    as): for every combination of variants of the element's enum-typed fields `dims` = [(field name, adt)] the value the
    test has for such an element -- True / False / None (not decided by the variants alone, or not evaluable).
    Tests may be discriminant switches (`matches!`, `match`) or derived `==` / `!=` against a variant constant."""
    from .. import paths as _paths
    import itertools
    nxt = [c for c in body.calls.values() if c.bb in body.reachable and c.is_("core::iter::Iterator::next")
           and any(x[0] == "field" and x[2] == field for x in walk(body.operand_term(c.args[0])))]
    if len(nxt) != 1:
        return None
    nx = nxt[0]
    sw = None
    for bb in body.switches:
        si = body.switch_info(bb)
        if si["enum"] == "core::option::Option" and any(a[0] == "call" and a[1] == nx.bb for a in phi_alts(peel(si["subject"]))):
            sw = si
    if sw is None or sw["edges"].get("Some") is None:
        return None
    variants = {}
    for name, adt in dims:
        a = f.adts.get(adt)
        if not a:
            return None
        variants[name] = [(v["name"], bool(v["fields"])) for v in a["variants"]]

    def elem_field(t):
        """name of the element field a term reads (rooted at this loop's next()), or None"""
        r, n = chain(t)
        r = peel(r)
        if isinstance(r, tuple) and r[0] == "call" and r[1] == nx.bb:
            n = [k for k in n if not k.startswith("@") and k != "0"]
            if n and n[0] in variants:
                return n[0], n[1:]
        return None

    table = {}
    for combo in itertools.product(*[[v for v, _ in variants[name]] for name, _ in dims]):
        assume = dict(zip([name for name, _ in dims], combo))
        hasf = {name: dict(variants[name]) for name, _ in dims}

        def hook(b, bb, si):
            subj = si["subject"]
            on = b.switches[bb]["on"]
            pl = on.get("move") or on.get("copy")
            if si.get("path") and pl is not None and not pl["proj"]:
                pv = _paths.value_on_path(b, si["path"], pl["l"])
                if pv is not None:
                    subj = pv
            s_ = peel(subj)
            if isinstance(s_, tuple) and s_[0] == "discr":
                s_ = peel(s_[1])
            # discriminant test of an element field
            if si["enum"]:
                ef = elem_field(s_)
                if ef is not None and not ef[1]:
                    v = assume[ef[0]]
                    tgt = si["edges"].get(v, si["otherwise"])
                    return (("k", bb), {v: tgt})
                return None
            # derived == / != against a variant constant
            neg = False
            if isinstance(s_, tuple) and s_[0] == "un" and s_[1] == "Not":
                neg = True
                s_ = peel(s_[2])
            if is_call(s_, "core::cmp::PartialEq::eq", "core::cmp::PartialEq::ne") and len(s_[3]) == 2:
                a, c2 = peel(s_[3][0]), peel(s_[3][1])
                for x, y in ((a, c2), (c2, a)):
                    ef = elem_field(x)
                    if ef is not None and not ef[1] and y[0] == "agg" and y[1] == "adt":
                        v = assume[ef[0]]
                        if y[3] != v:
                            eq = False
                        elif not hasf[ef[0]].get(v):
                            eq = True
                        else:
                            return None
                        val = eq if s_[4].endswith("::eq") else (not eq)
                        if neg:
                            val = not val
                        tgt = si["edges"].get(val)
                        if tgt is None:
                            return None
                        return (("k", bb), {val: tgt})
            return None

        outcomes = set()
        for lf in _paths.explore(body, sw["edges"]["Some"], lambda t: False, lambda b_, x: False,
                                 stop_pred=lambda b_, x: x == nx.bb, switch_hook=hook, max_paths=2000):
            if lf["kind"] == "limit":
                outcomes.add(None)
            elif lf["kind"] == "stop":
                outcomes.add(False)      # back at the loop head: this element did not satisfy the test
            elif lf["kind"] == "return":
                v = _paths.value_on_path(body, [sw["bb"]] + lf["path"], 0)
                if v is not None and v[0] == "const" and v[2] in (0, 1):
                    outcomes.add(bool(v[2]))
                else:
                    outcomes.add(None)
        table[combo] = next(iter(outcomes)) if len(outcomes) == 1 else None
    return table


def flush_completion(f):
    """(body, code) of the function that does the bookkeeping once a packet's flush completed (`complete_flush`): by name
    when it is still a Connection method, else the unique synchronous function that matches on the flushed packet's kind
    (Control / Release / Retained) and marks the matching queue entry Sent -- it may have become a free function over
    `&mut RuntimeState, &mut Outbound` or a method of the packet key itself."""
    cm = conn_methods(f)
    if "complete_flush" in cm:
        return cm["complete_flush"]
    from . import outq as _outq
    cen = _outq.census(f)
    sent = set()
    for q in _outq.QUEUES:
        for (b, bb, field, val, span) in cen[q]["elem_stores"]:
            if field == "state" and _outq.is_sent(val):
                sent.add(b.name)
    cands = []
    for b in f.bodies.values():
        if b.kind not in ("fn", "assoc_fn") or f.in_fuzzing(b) or b.name in sent:
            continue
        code = f.code(b)   # (for an async function: its coroutine -- the bookkeeping may have been folded into its caller)
        has_sw = any((code.switch_info(bb)["enum"] or "").endswith("FlushedPacket") and
                     {"Control", "Release", "Retained"} <= set(code.switch_info(bb)["edges"]) for bb in code.switches if bb in code.reachable)
        if has_sw and sum(1 for c in code.calls.values() if c.bb in code.reachable and any(t in sent for t in f.call_targets(c))) >= 3:
            cands.append((b, code))
    if len(cands) != 1:
        raise AnchorLost("Connection::complete_flush", "found %d candidates for the flush-completion bookkeeping" % len(cands))
    return cands[0]


def clause_negotiated_per_connection(R, prefix, fields):
    """Values negotiated by a CONNACK hold for that connection only: on every path of the handshake that ends in success
    each of `fields` (RuntimeState) is stored by the handshake itself -- unconditionally, not only in the arm of the
    property loop that sees the property.  A field that is only overwritten when the CONNACK mentions it keeps the value
    negotiated on an earlier connection whenever the new CONNACK is silent about it (silence means the protocol default)."""
    f = R.f
    call, hb, hcode = handshake(f)
    R.touch(hcode)
    oks = []
    for bb, j, s in hcode.assigns():
        rv = s["rv"]
        if bb in hcode.reachable and s["dst"]["l"] == 0 and not s["dst"]["proj"] and "agg" in rv \
                and rv["agg"].get("variant") == "Ok":
            oks.append(bb)
    if not oks:
        raise AnchorLost("handshake-success", "the handshake builds no Ok(..) result")
    for field in fields:
        blocks = sorted(set(bb for (b, bb, j, dst, rv, s, final) in f.field_stores(RUNTIME, field) if b.name == hcode.name and final))
        ok = bool(blocks) and hcode.must_pass([0], oks, via_blocks=blocks)[0]
        # ... and what is stored does not start from the value the field had on the previous connection
        stale = None
        for (b, bb, j, dst, rv, s, final) in f.field_stores(RUNTIME, field):
            if b.name == hcode.name and final:
                t = b.rvalue_term(rv)
                from ..core import walk as _walk
                if any(isinstance(x, tuple) and x[0] == "field" and x[2] == field and x[3] == RUNTIME for x in _walk(t)):
                    stale = s["span"]
        if stale is not None:
            ok = False
        R.ob("%s/per-connection/%s" % (prefix, field), ok,
             "every successful handshake stores RuntimeState::%s itself (CONNACK value or the protocol default): a value "
             "negotiated on an earlier connection must not survive a CONNACK that is silent about it%s"
             % (field, "" if stale is None else " (the stored value is computed from the field's previous value)"),
             where=stale or (hcode.line(blocks[0]) if blocks else hb.span))


REASON = "reason_codes::ReasonCode"


def _reason_pred_eval(f, body, depth=0):
    """For a `fn(&self) -> bool` of ReasonCode whose result is a comparison of the code's wire value with constants
    (`<`, `<=`, `>=`, .., `!`, a range `contains`, another such predicate): a function discriminant -> bool; None when
    the shape is not understood."""
    from ..core import peel as _peel, is_call as _is_call
    ops = {"Lt": lambda a, b: a < b, "Le": lambda a, b: a <= b, "Gt": lambda a, b: a > b, "Ge": lambda a, b: a >= b,
           "Eq": lambda a, b: a == b, "Ne": lambda a, b: a != b}
    ex = ("Into::into", "into", "From::from", "from", "Clone::clone", "clone")

    def wire(t):
        t = _peel(t)
        if chain(t, extra=ex)[0] == ("param", "self") and not [k for k in chain(t, extra=ex)[1] if not k.startswith("@")]:
            return True
        # a private accessor returning the wire value (`self.wire_value()`)
        if t[0] == "call" and t[2] in f.bodies and depth < 3:
            hb = f.bodies[t[2]]
            return hb.arg_count == 1 and wire(hb.local_term(0))
        return False

    def cval(t):
        t = _peel(t)
        return t[2] if t[0] == "const" and isinstance(t[2], int) else None

    def ev(t, d_):
        t = _peel(t)
        if t[0] == "un" and t[1] == "Not":
            fn = ev(t[2], d_ + 1)
            return None if fn is None else (lambda d, fn=fn: not fn(d))
        if t[0] == "bin" and t[1] in ops:
            a, b = t[2], t[3]
            if wire(a) and cval(b) is not None:
                return lambda d, o=ops[t[1]], c=cval(b): o(d, c)
            if wire(b) and cval(a) is not None:
                return lambda d, o=ops[t[1]], c=cval(a): o(c, d)
            return None
        if _is_call(t, "contains") and len(t[3]) == 2 and wire(t[3][1]):
            rg = _peel(t[3][0])
            if rg[0] == "agg" and rg[4] == ["start", "end"] and cval(rg[5][0]) is not None and cval(rg[5][1]) is not None:
                incl = "Inclusive" in (rg[2] or "")
                lo, hi = cval(rg[5][0]), cval(rg[5][1])
                return (lambda d: lo <= d <= hi) if incl else (lambda d: lo <= d < hi)
            if _is_call(rg, "RangeInclusive::<Idx>::new", "new") and len(rg[3]) == 2 and cval(rg[3][0]) is not None and cval(rg[3][1]) is not None:
                lo, hi = cval(rg[3][0]), cval(rg[3][1])
                return lambda d: lo <= d <= hi
            return None
        if t[0] == "call" and t[2] in f.bodies and d_ < 3 and f.bodies[t[2]].self_ty and f.bodies[t[2]].self_ty.startswith(REASON) \
                and t[3] and chain(t[3][0])[0] == ("param", "self"):
            return _reason_pred_eval(f, f.bodies[t[2]], d_ + 1)
        return None
    return ev(body.local_term(0), depth)


def clause_reason_predicates(R, prefix):
    """Every acknowledgement handler decides "accepted / refused" with ReasonCode::success / failed / as_result.  MQTT 5
    (2.4): a reason code below 0x80 is a success, 0x80 and above a failure.  The predicates are tabulated over every
    variant of the enum (its discriminant is the wire value): `success` must be true exactly below 0x80, `failed` exactly
    from 0x80 on, and `as_result` is Ok exactly on the edge of its test that means success."""
    from ..core import peel as _peel, show as _show
    f = R.f
    variants = f.adts[REASON]["variants"]
    sb = method(f, REASON, "success")
    fb = method(f, REASON, "failed")
    R.touch(sb)
    tabs = {}
    for nm, b, want in (("success", sb, lambda d: d < 0x80), ("failed", fb, lambda d: d >= 0x80)):
        fn = _reason_pred_eval(f, b)
        ok, why = fn is not None, "not a comparison of the code's wire value with constants (%s)" % _show(_peel(b.local_term(0)))[:80]
        if fn is not None:
            bad = ["%s (0x%02x)" % (v["name"], v["discr"]) for v in variants if bool(fn(v["discr"])) != want(v["discr"])]
            ok, why = not bad, "misclassified: %s" % ", ".join(bad[:4])
        tabs[nm] = fn
        key = "%s/success-table" % prefix if nm == "success" else "%s/failed-is-not-success" % prefix
        R.ob(key, ok,
             "ReasonCode::%s is true exactly for the codes %s 0x80 (tabulated over all %d variants)%s"
             % (nm, "below" if nm == "success" else "from", len(variants), "" if ok else " — " + why), where=b.span)
    ab = method(f, REASON, "as_result")
    oka = False
    for bb in ab.switches:
        si = ab.switch_info(bb)
        sj = _peel(si["subject"])
        neg = False
        if sj[0] == "un" and sj[1] == "Not":
            sj, neg = _peel(sj[2]), True
        if sj[0] == "call" and sj[2] in (sb.name, fb.name) and si["edges"].get(True) is not None and si["edges"].get(False) is not None:
            means_success = (sj[2] == sb.name) != neg          # the True edge means "success"
            def vals(start, avoid):
                return [ab.rvalue_term(s["rv"]) for x in ab.reach([start], avoid=[avoid]) for s in ab.blocks[x]["stmts"]
                        if s["k"] == "assign" and s["dst"]["l"] == 0 and not s["dst"]["proj"] and "agg" in s["rv"]]
            tv, fv = vals(si["edges"][True], si["edges"][False]), vals(si["edges"][False], si["edges"][True])
            sv, ev_ = (tv, fv) if means_success else (fv, tv)
            oka = bool(sv) and bool(ev_) and all(v[3] == "Ok" for v in sv) and all(v[3] == "Err" for v in ev_)
    R.ob("%s/as_result" % prefix, oka, "ReasonCode::as_result is Ok exactly when success() holds", where=ab.span)


def reason_accepted_edges(f, code, packet="ConnAck"):
    """edges of `code` on which the reason code of the received <packet> was found to be a success: the Ok edge of a
    switch on `reason.as_result()` (the `?`), the false edge of `reason.failed()`, the true edge of `reason.success()`"""
    from ..core import peel as _peel, is_call as _is_call, phi_alts as _phi_alts
    out = []
    for bb in code.switches:
        if bb not in code.reachable:
            continue
        si = code.switch_info(bb)
        for alt in _phi_alts(si["subject"]):
            a = _peel(alt)
            neg = False
            if a[0] == "un" and a[1] == "Not":
                a, neg = _peel(a[2]), True
            if not (isinstance(a, tuple) and a[0] == "call") or not any(y[0] == "downcast" and y[2] == packet for y in walk(a)):
                continue
            if _is_call(a, "ReasonCode::as_result") and si["edges"].get("Ok") is not None:
                out.append((bb, si["edges"]["Ok"]))
            elif _is_call(a, "ReasonCode::failed") and si["edges"].get(neg) is not None:
                out.append((bb, si["edges"][neg]))
            elif _is_call(a, "ReasonCode::success") and si["edges"].get(not neg) is not None:
                out.append((bb, si["edges"][not neg]))
    return out


def latch_blocks(f, code):
    """blocks of `code` that latch the handle: a call that (transitively) stores false into LIVE, or that store itself
    written in place (`self.live = false;`)"""
    out = [bb for bb, c in code.calls.items() if bb in code.reachable and call_latches(f, c)]
    lf = live_field(f)
    for (b, bb, j, dst, rv, s_, final) in f.field_stores(CONN, lf):
        if b.name == code.name and bb in code.reachable:
            t = b.rvalue_term(rv)
            if t[0] == "const" and t[2] == 0:
                out.append(bb)
    return sorted(set(out))


def expand_getters_deep(f, t, depth=0):
    """expand_getter applied to every accessor call inside the term (e.g. `(self.correlation_data() as Some).0`)"""
    if depth > 6 or not isinstance(t, tuple):
        return t
    t2 = expand_getter(f, t)
    if t2 is not t and t2 != t:
        return expand_getters_deep(f, t2, depth + 1)
    out = []
    for x in t:
        if isinstance(x, tuple):
            out.append(expand_getters_deep(f, x, depth + 1))
        elif isinstance(x, list):
            out.append([expand_getters_deep(f, y, depth + 1) if isinstance(y, tuple) else y for y in x])
        else:
            out.append(x)
    return tuple(out)
