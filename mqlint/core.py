"""Fact loader, CFG, dominance/reachability, expression reconstruction (terms), call graph and
effect summaries over the `mqfacts` JSON.  Python standard library only.

Nothing here executes or interprets minimq: every function is a query over the type-checked,
resolved MIR (`mir_built`) of /repo's current source.
"""
import json
from collections import defaultdict, deque

IO_READ = "embedded_io_async::Read::read"
IO_WRITE = "embedded_io_async::Write::write"
IO_FLUSH = "embedded_io_async::Write::flush"
IO_METHODS = (IO_READ, IO_WRITE, IO_FLUSH)


class AnchorLost(Exception):
    def __init__(self, role, why=""):
        Exception.__init__(self, "%s %s" % (role, why))
        self.role = role
        self.why = why


# ----------------------------------------------------------------------------------------------
# calls


_PRIM_SIZES = {"u8": 1, "i8": 1, "bool": 1, "u16": 2, "i16": 2, "u32": 4, "i32": 4, "u64": 8, "i64": 8, "u128": 16, "i128": 16}


class Call:
    __slots__ = ("body", "bb", "fn", "path", "gargs", "resolved", "trait", "self_ty", "args", "dst",
                 "target", "span", "exp", "local", "func_op")

    def __init__(self, body, bb, t, blk):
        self.body = body
        self.bb = bb
        self.func_op = t["func"]
        fn = t["func"].get("const", {}).get("fn") if "const" in t["func"] else None
        self.fn = fn
        self.path = fn["path"] if fn else None
        self.gargs = fn["args"] if fn else []
        self.resolved = fn.get("resolved") if fn else None
        self.trait = fn.get("trait") if fn else None
        self.self_ty = fn.get("self_ty") if fn else None
        self.local = bool(fn and (fn.get("local") or fn.get("resolved_local")))
        self.args = t["args"]
        self.dst = t["dst"]
        self.target = t["t"]
        self.span = blk["span"]
        self.exp = blk.get("exp")

    @property
    def key(self):
        return self.resolved or self.path

    def is_(self, *suffixes):
        """callee path (declared or resolved) ends with one of the given suffixes"""
        for s in suffixes:
            if self.path and (self.path == s or self.path.endswith("::" + s) or self.path.endswith(s)):
                return True
            if self.resolved and (self.resolved == s or self.resolved.endswith("::" + s) or self.resolved.endswith(s)):
                return True
        return False

    def name(self):
        p = self.path or "<indirect>"
        return p.rsplit("::", 1)[-1]

    def __repr__(self):
        return "<call %s @bb%d %s>" % (self.path, self.bb, self.span)


# ----------------------------------------------------------------------------------------------
# terms (reconstructed expressions).  Tuples:
#   ('param', name_or_index)          function parameter / captured variable of a coroutine or closure
#   ('const', ty, value, item, extra) constant: value (int) and/or named const item; extra: str / fn path
#   ('field', t, name, of, variant)   field access (of = owning ADT path or 'tuple' / closure path)
#   ('deref', t) ('ref', t, mut)
#   ('downcast', t, variant)
#   ('index', t, i) ('subslice', t, from, to, from_end) ('cidx', t, n, from_end)
#   ('cast', kind, t, to)
#   ('bin', op, a, b) ('un', op, a) ('discr', t)
#   ('agg', kind, adt, variant, fields, ops)   kind in adt/tuple/array/closure/coroutine
#   ('repeat', t, n)
#   ('call', bb, key, args, path)     result of a call terminator (key = resolved or declared path)
#   ('await', t)                      output of awaiting future t
#   ('ok', t) ('residual', t)         Continue / Break payload of `?` applied to t
#   ('resume',)                       coroutine resume argument
#   ('phi', [t...])                   several reaching definitions (flow-insensitive union)
#   ('loop', local)                   cyclic definition cut
#   ('uninit', local)                 no definition found


def _has_foreign_loop(t, l, _depth=0):
    if not isinstance(t, tuple) or _depth > 60:
        return False
    if t and t[0] == "loop":
        return t[1] != l
    for x in t:
        if isinstance(x, tuple):
            if _has_foreign_loop(x, l, _depth + 1):
                return True
        elif isinstance(x, list):
            for y in x:
                if isinstance(y, tuple) and _has_foreign_loop(y, l, _depth + 1):
                    return True
    return False


def is_call(t, *suffixes):
    if not (isinstance(t, tuple) and t and t[0] == "call"):
        return False
    if not suffixes:
        return True
    for s in suffixes:
        for p in (t[2], t[4]):
            if p and (p == s or p.endswith("::" + s) or p.endswith(s)):
                return True
    return False


TRANSPARENT_WRAPPERS = (
    # callee suffix -> index of the argument whose value is passed through
    ("core::future::IntoFuture::into_future", 0),
    ("core::pin::Pin::<Ptr>::new_unchecked", 0),
    ("core::pin::Pin::<Ptr>::new", 0),
    ("core::ops::Deref::deref", 0),
    ("core::ops::DerefMut::deref_mut", 0),
    ("core::convert::AsRef::as_ref", 0),
    ("core::borrow::Borrow::borrow", 0),
    ("core::borrow::BorrowMut::borrow_mut", 0),
)


MAP_ADAPTERS = {
    "core::option::Option::<T>::map": "Some",
    "core::result::Result::<T, E>::map": "Ok",
}


def peel(t, extra=()):
    """strip reference/deref/transparent wrappers; `extra` adds callee suffixes treated as identity"""
    while True:
        if not isinstance(t, tuple):
            return t
        k = t[0]
        if k in ("deref",):
            t = t[1]
        elif k == "ref":
            t = t[1]
        elif k == "call":
            hit = False
            for suf, idx in TRANSPARENT_WRAPPERS:
                if is_call(t, suf) and len(t[3]) > idx:
                    t = t[3][idx]
                    hit = True
                    break
            if not hit:
                for suf in extra:
                    if is_call(t, suf) and t[3]:
                        t = t[3][0]
                        hit = True
                        break
            if not hit:
                return t
        else:
            return t


def chain(t, extra=()):
    """(root_term, [field/variant names...]) following field, downcast, deref, ref and transparent calls"""
    names = []
    while True:
        t = peel(t, extra)
        if not isinstance(t, tuple):
            break
        if t[0] == "field":
            names.append(t[2] if t[2] is not None else "#")
            t = t[1]
        elif t[0] == "downcast":
            names.append("@" + t[2])
            t = t[1]
        elif t[0] == "call" and len(t) > 5 and t[4] in MAP_ADAPTERS:
            t = t[5]
        elif t[0] in ("index", "cidx") and "core::ops::Index::index" in extra:
            # element access `x[i]` counts as "an element of x" for the callers that ask for element chains
            t = t[1]
        else:
            break
    names.reverse()
    return t, names


def phi_alts(t):
    if isinstance(t, tuple) and t and t[0] == "phi":
        out = []
        for a in t[1]:
            out.extend(phi_alts(a))
        return out
    return [t]


def walk(t, seen=None):
    """all sub-terms (pre-order)"""
    if seen is None:
        seen = set()
    stack = [t]
    while stack:
        x = stack.pop()
        if not isinstance(x, tuple):
            continue
        if id(x) in seen:
            continue
        seen.add(id(x))
        yield x
        for c in x[1:]:
            if isinstance(c, tuple):
                stack.append(c)
            elif isinstance(c, list):
                for e in c:
                    if isinstance(e, tuple):
                        stack.append(e)


def show(t, depth=0):
    if depth > 12:
        return "…"
    if not isinstance(t, tuple):
        return repr(t)
    k = t[0]
    d = depth + 1
    if k == "param":
        return "%s" % t[1]
    if k == "const":
        if t[3]:
            return "%s" % t[3].rsplit("::", 1)[-1] + ("=%s" % t[2] if t[2] is not None else "")
        if t[2] is not None:
            return "%s_%s" % (t[2], t[1])
        if t[4] is not None:
            return repr(t[4])
        return "const<%s>" % t[1]
    if k == "field":
        return "%s.%s" % (show(t[1], d), t[2])
    if k == "deref":
        return "*%s" % show(t[1], d)
    if k == "ref":
        return "&%s%s" % ("mut " if t[2] else "", show(t[1], d))
    if k == "downcast":
        return "(%s as %s)" % (show(t[1], d), t[2])
    if k == "call":
        nm = (t[4] or "?")
        nm = nm.split("::<")[0] if nm.count("::<") == 1 and nm.endswith(">") else nm
        short = "::".join(nm.split("::")[-2:])
        return "%s(%s)" % (short, ", ".join(show(a, d) for a in t[3]))
    if k == "await":
        return "%s.await" % show(t[1], d)
    if k == "ok":
        return "%s?" % show(t[1], d)
    if k == "residual":
        return "residual(%s)" % show(t[1], d)
    if k == "bin":
        return "%s(%s, %s)" % (t[1], show(t[2], d), show(t[3], d))
    if k == "un":
        return "%s(%s)" % (t[1], show(t[2], d))
    if k == "cast":
        return "(%s as %s)" % (show(t[2], d), t[3])
    if k == "discr":
        return "discr(%s)" % show(t[1], d)
    if k == "agg":
        if t[1] == "adt":
            nm = (t[2] or "").rsplit("::", 1)[-1] + ("::" + t[3] if t[3] else "")
            return "%s{%s}" % (nm, ", ".join("%s: %s" % (f, show(o, d)) for f, o in zip(t[4], t[5])))
        return "%s(%s)" % (t[1], ", ".join(show(o, d) for o in t[5]))
    if k == "phi":
        return "phi(%s)" % " | ".join(show(a, d) for a in t[1])
    if k == "index":
        return "%s[%s]" % (show(t[1], d), show(t[2], d))
    if k == "subslice":
        return "%s[%s..%s%s]" % (show(t[1], d), t[2], "-" if t[4] else "", t[3])
    if k == "repeat":
        return "[%s; %s]" % (show(t[1], d), t[2])
    return "%s" % (t,) if len(str(t)) < 80 else "<%s>" % k


def _simplify_try(x, cont):
    """payload of `?` applied to x.  When x is (partly) a freshly built Ok(v) / Err(e) / Some(v) -- the result of an
    inlined helper -- the payload is v (the Err / from_residual alternatives never take the Continue edge)."""
    alts = phi_alts(peel(x))
    if not any(a[0] == "agg" and a[1] == "adt" and a[2] in ("core::result::Result", "core::option::Option") for a in alts):
        return ("ok", x) if cont else ("residual", x)
    pay, rest = [], []
    for a in alts:
        if a[0] == "agg" and a[1] == "adt" and a[2] in ("core::result::Result", "core::option::Option"):
            if cont and a[3] in ("Ok", "Some") and a[5]:
                pay.append(a[5][0])
            elif not cont and a[3] in ("Err", "None"):
                pay.append(a)
        elif is_call(a, "core::ops::FromResidual::from_residual"):
            if not cont:
                rest.append(a)
        else:
            rest.append(a)
    if rest:
        pay.append(("ok", rest[0] if len(rest) == 1 else ("phi", rest)) if cont else ("residual", rest[0] if len(rest) == 1 else ("phi", rest)))
    if not pay:
        return ("ok", x) if cont else ("residual", x)
    uniq = []
    for p in pay:
        if p not in uniq:
            uniq.append(p)
    return uniq[0] if len(uniq) == 1 else ("phi", uniq)


# ----------------------------------------------------------------------------------------------


class Body:
    def __init__(self, facts, name, raw):
        self.facts = facts
        self.name = name
        self.raw = raw
        self.kind = raw["kind"]
        self.is_async = raw["is_async"]
        self.vis = raw["vis"]
        self.self_ty = raw["self_ty"]
        self.trait = raw["trait"]
        self.parent = raw["parent"]
        self.root = raw["root"]
        self.span = raw["span"]
        self.arg_count = raw["arg_count"]
        self.fn_name = raw["name"]
        if not self.fn_name and self.root:
            # closures / coroutines: name of the function they belong to
            r = self.root.split("::{closure")[0]
            self.fn_name = r.rsplit("::", 1)[-1]
        self.locals = raw["locals"]
        self.blocks = raw["blocks"]
        self.n = len(self.blocks)
        self._build_cfg()
        self._terms = {}
        self._dom = None
        self._defs = None

    # ---- CFG -------------------------------------------------------------------------------
    def _build_cfg(self):
        self.succ = [[] for _ in range(self.n)]
        self.calls = {}
        self.yields = []
        self.asserts = []
        self.returns = []
        self.switches = {}
        for i, blk in enumerate(self.blocks):
            if blk["cleanup"]:
                continue
            t = blk["term"]
            k = t["k"]
            if k == "goto":
                self.succ[i].append((t["t"], None))
            elif k == "switch":
                for v, b in t["arms"]:
                    self.succ[i].append((b, ("sw", v)))
                self.succ[i].append((t["otherwise"], ("sw", "otherwise")))
                self.switches[i] = t
            elif k == "call":
                c = Call(self, i, t, blk)
                self.calls[i] = c
                if t["t"] is not None:
                    self.succ[i].append((t["t"], None))
            elif k == "yield":
                self.yields.append((i, t["resume"], t["drop"]))
                self.succ[i].append((t["resume"], None))
            elif k == "drop":
                self.succ[i].append((t["t"], None))
            elif k == "assert":
                self.asserts.append(i)
                self.succ[i].append((t["t"], None))
            elif k == "false_edge":
                self.succ[i].append((t["real"], None))
            elif k == "false_unwind":
                self.succ[i].append((t["real"], None))
            elif k == "return":
                self.returns.append(i)
            elif k == "other":
                for b in t.get("succ", []):
                    self.succ[i].append((b, None))
        self.pred = [[] for _ in range(self.n)]
        for i in range(self.n):
            for b, _ in self.succ[i]:
                self.pred[b].append(i)
        self.reachable = self.reach([0]) if self.n else set()

    def reach(self, starts, avoid=(), avoid_edges=(), include_start=True):
        """blocks reachable from `starts` along normal edges, never entering `avoid` blocks nor taking
        `avoid_edges`.  A start block that is in `avoid` is not expanded."""
        avoid = set(avoid)
        avoid_edges = set(avoid_edges)
        seen = set()
        dq = deque()
        for s in starts:
            if s in avoid:
                continue
            if s not in seen:
                seen.add(s)
                dq.append(s)
        res = set(seen) if include_start else set()
        while dq:
            x = dq.popleft()
            for b, _ in self.succ[x]:
                if b in avoid or (x, b) in avoid_edges:
                    continue
                if b not in seen:
                    seen.add(b)
                    res.add(b)
                    dq.append(b)
                elif not include_start and b not in res:
                    res.add(b)
        return res

    def after(self, bb):
        """blocks reachable *after* the terminator of bb completed normally"""
        return self.reach([b for b, _ in self.succ[bb]])

    def must_pass(self, a_blocks, b_blocks, via_blocks=(), via_edges=()):
        """every path from any block of A to any block of B passes a `via` block/edge.
        Returns (True, None) or (False, offending B block)."""
        r = self.reach(a_blocks, avoid=via_blocks, avoid_edges=via_edges)
        for b in b_blocks:
            if b in r and b not in via_blocks:
                return False, b
        return True, None

    def dominates_edge(self, edge, bb):
        ok, _ = self.must_pass([0], [bb], via_edges=[edge])
        return ok

    def dominators(self):
        if self._dom is not None:
            return self._dom
        order = []
        seen = set()

        def dfs(s):
            stack = [(s, iter([b for b, _ in self.succ[s]]))]
            seen.add(s)
            while stack:
                node, it = stack[-1]
                adv = False
                for nb in it:
                    if nb not in seen:
                        seen.add(nb)
                        stack.append((nb, iter([b for b, _ in self.succ[nb]])))
                        adv = True
                        break
                if not adv:
                    order.append(node)
                    stack.pop()
        if self.n:
            dfs(0)
        rpo = list(reversed(order))
        idx = {b: i for i, b in enumerate(rpo)}
        idom = {0: 0}
        changed = True
        while changed:
            changed = False
            for b in rpo[1:]:
                new = None
                for p in self.pred[b]:
                    if p in idom:
                        if new is None:
                            new = p
                        else:
                            f1, f2 = p, new
                            while f1 != f2:
                                while idx[f1] > idx[f2]:
                                    f1 = idom[f1]
                                while idx[f2] > idx[f1]:
                                    f2 = idom[f2]
                            new = f1
                if new is not None and idom.get(b) != new:
                    idom[b] = new
                    changed = True
        self._dom = idom
        return idom

    def dominates(self, a, b):
        idom = self.dominators()
        if b not in idom or a not in idom:
            return False
        x = b
        while True:
            if x == a:
                return True
            if x == 0:
                return False
            x = idom[x]

    def on_cycle(self, bb):
        return bb in self.after(bb)

    # ---- definitions -------------------------------------------------------------------------
    def defs(self):
        if self._defs is not None:
            return self._defs
        d = defaultdict(list)
        for i in range(1, self.arg_count + 1):
            d[i].append(("arg", i))
        for i, blk in enumerate(self.blocks):
            if blk["cleanup"]:
                continue
            for j, s in enumerate(blk["stmts"]):
                if s["k"] == "assign" and not s["dst"]["proj"]:
                    d[s["dst"]["l"]].append(("stmt", i, j))
            t = blk["term"]
            if t["k"] == "call" and not t["dst"]["proj"]:
                d[t["dst"]["l"]].append(("call", i))
            if t["k"] == "yield" and not t["resume_arg"]["proj"]:
                d[t["resume_arg"]["l"]].append(("yield", i))
        # locals captured by `&mut` in a closure built here: the closure's stores through the capture are
        # definitions of the local as well
        for i, blk in enumerate(self.blocks):
            if blk["cleanup"]:
                continue
            for j, s in enumerate(blk["stmts"]):
                if s["k"] != "assign" or "agg" not in s["rv"]:
                    continue
                a = s["rv"]["agg"]
                if a["kind"] != "closure" or a.get("def") not in self.facts.raw["bodies"]:
                    continue
                names = a.get("fields", [])
                for k, op in enumerate(s["rv"]["ops"]):
                    pl = op.get("move") or op.get("copy")
                    if pl is None or pl["proj"] or k >= len(names):
                        continue
                    # the operand is a temporary holding `&mut local`
                    for dd in d.get(pl["l"], []):
                        if dd[0] == "stmt":
                            rv2 = self.blocks[dd[1]]["stmts"][dd[2]]["rv"]
                            if "ref" in rv2 and rv2["mut"] and not rv2["ref"]["proj"]:
                                d[rv2["ref"]["l"]].append(("closure", a["def"], names[k], i, j))
        self._defs = d
        return d

    def stores(self):
        """all assignments whose destination has projections: (bb, idx, dst_place, rvalue, stmt)"""
        out = []
        for i, blk in enumerate(self.blocks):
            if blk["cleanup"]:
                continue
            for j, s in enumerate(blk["stmts"]):
                if s["k"] == "assign" and s["dst"]["proj"]:
                    out.append((i, j, s["dst"], s["rv"], s))
        return out

    def assigns(self):
        for i, blk in enumerate(self.blocks):
            if blk["cleanup"]:
                continue
            for j, s in enumerate(blk["stmts"]):
                if s["k"] == "assign":
                    yield i, j, s

    # ---- terms -----------------------------------------------------------------------------
    def param_name(self, i):
        nm = self.locals[i]["name"]
        return nm if nm else "#%d" % i

    def local_term(self, l):
        if l in self._terms:
            v = self._terms[l]
            if v is None:
                return ("loop", l)
            return v
        self._terms[l] = None
        ds = self.defs().get(l, [])
        alts = []
        for d in ds:
            if d[0] == "arg":
                alts.append(("param", self.param_name(d[1])))
            elif d[0] == "stmt":
                s = self.blocks[d[1]]["stmts"][d[2]]
                alts.append(self.rvalue_term(s["rv"]))
            elif d[0] == "call":
                alts.append(self.call_term(d[1]))
            elif d[0] == "yield":
                alts.append(("resume",))
            elif d[0] == "closure":
                alts.extend(self._closure_store_terms(d))
        if not alts:
            if l == 0:
                t = ("uninit", 0)
            else:
                t = ("uninit", l)
        elif len(alts) == 1:
            t = alts[0]
        else:
            # drop duplicates
            uniq = []
            for a in alts:
                if a not in uniq:
                    uniq.append(a)
            t = uniq[0] if len(uniq) == 1 else ("phi", uniq)
        t = self._with_partial_stores(l, t)
        # a term that mentions a local still being computed further up (("loop", x), x != l) is relative to where *that*
        # computation cut the cycle: it is handed back but not remembered, so that a later question about this local
        # is answered on its own terms (otherwise the answer would depend on which local was asked about first)
        open_ = self.__dict__.setdefault("_open_budget", [200000])
        if open_[0] > 0 and _has_foreign_loop(t, l):
            open_[0] -= 1
            del self._terms[l]
            return t
        self._terms[l] = t
        return t

    def _with_partial_stores(self, l, t):
        """a struct local that is built once and then updated field by field: every field of its value may also hold what
        those stores put there"""
        if l <= self.arg_count or not isinstance(t, tuple):
            return t
        idx = self.__dict__.get("_ps_index")
        if idx is None:
            self._partial_store_terms(-1, {"f": -1})   # builds the index
            idx = self.__dict__.get("_ps_index") or {}
        mine = [k for k in idx if k[0] == l]
        if not mine:
            return t

        def upd(a):
            if not (a[0] == "agg" and a[1] == "adt" and not a[3] or (a[0] == "agg" and a[1] == "adt")):
                return a
            ops = list(a[5])
            names = a[4]
            changed = False
            adt = self.facts.adts.get(a[2])
            for (_, fi) in mine:
                fname = None
                if adt and len(adt["variants"]) == 1 and fi < len(adt["variants"][0]["fields"]):
                    fname = adt["variants"][0]["fields"][fi]["name"]
                if fname is None or fname not in names:
                    continue
                k = names.index(fname)
                extra = self._ps_terms(idx[(l, fi)])
                alts = []
                for x in [ops[k]] + extra:
                    if x not in alts:
                        alts.append(x)
                if len(alts) > 1:
                    ops[k] = ("phi", alts)
                    changed = True
            return (a[0], a[1], a[2], a[3], a[4], ops) if changed else a
        if t[0] == "phi":
            return ("phi", [upd(a) if isinstance(a, tuple) and a[0] == "agg" else a for a in t[1]])
        return upd(t) if t[0] == "agg" else t

    def _closure_store_terms(self, d):
        """values a closure stores through its `&mut` capture `d[2]`, expressed in this body's terms"""
        _, cdef, upvar, bi, sj = d
        cb = self.facts.bodies.get(cdef)
        if cb is None:
            return []
        agg = self.blocks[bi]["stmts"][sj]["rv"]
        names = agg["agg"].get("fields", [])
        mapping = {}
        for k, op in enumerate(agg["ops"]):
            if k < len(names):
                mapping[names[k]] = self.operand_term(op)
        out = []
        for (bb, j, dst, rv, s) in cb.stores():
            if bb not in cb.reachable:
                continue
            t = cb.place_term(dst)
            # *upvar  (the capture is a reference)
            if t == ("deref", ("param", upvar)) or t == ("param", upvar):
                out.append(subst(cb.rvalue_term(rv), mapping))
        return out

    def call_term(self, bb):
        c = self.calls[bb]
        args = [self.operand_term(a) for a in c.args]
        if c.fn is None:
            return ("call", bb, None, args, None)
        if c.path in ("core::mem::size_of", "std::mem::size_of") and not args and len(c.gargs) == 1 and c.gargs[0] in _PRIM_SIZES:
            # `size_of::<u16>()` is the constant 2
            return ("const", "usize", _PRIM_SIZES[c.gargs[0]], None, None)
        if c.path == "core::ops::FromResidual::from_residual" and args:
            # `?` applied to a value that is known to be Err(e) (result of an inlined helper): Err(From::from(e))
            a = peel(args[0])
            if a[0] == "agg" and a[1] == "adt" and a[2] == "core::result::Result" and a[3] == "Err" and a[5]:
                conv = ("call", bb, "core::convert::From::from", [a[5][0]], "core::convert::From::from")
                return ("agg", "adt", "core::result::Result", "Err", ["0"], [conv])
        if c.path in MAP_ADAPTERS and len(args) == 2:
            # `opt.map(|x| ..)`: the closure's result with x bound to the payload -- lets chain() follow projections
            # like `.map(|entry| &mut entry.state)`
            via = self._closure_result(args[1], args[0], MAP_ADAPTERS[c.path])
            if via is not None:
                return ("call", bb, c.key, args, c.path, via)
        t = ("call", bb, c.key, args, c.path)
        return t

    def _closure_result(self, clos, recv, variant):
        """return value of the closure term `clos` applied to the `variant` payload of `recv`"""
        cdef, env = None, {}
        for x in phi_alts(peel(clos)):
            if x[0] == "agg" and x[1] == "closure":
                cdef = x[2]
                env = dict(zip(x[4], x[5]))
            elif x[0] == "const" and x[4] and str(x[4]).startswith("closure:"):
                cdef = x[4][len("closure:"):]
        cb = self.facts.bodies.get(cdef) if cdef else None
        if cb is None or cb.arg_count < 2 or getattr(cb, "_in_result", False):
            return None
        cb._in_result = True
        try:
            adt = "core::option::Option" if variant == "Some" else "core::result::Result"
            payload = ("field", ("downcast", recv, variant), "0", adt, variant)
            mapping = {cb.param_name(2): payload}
            for k, v in env.items():
                mapping[k] = v
                if k.startswith("_ref__"):
                    mapping[k] = v
            return subst(cb.local_term(0), mapping)
        finally:
            cb._in_result = False

    def place_term(self, p):
        t = self.local_term(p["l"])
        # captured variables of closures / coroutines: `_1.name` or `(*_1).name`
        proj = p["proj"]
        start = 0
        if p["l"] == 1 and self.kind in ("closure", "coroutine") and proj:
            k = 0
            if proj[0] == "deref":
                k = 1
            if len(proj) > k and isinstance(proj[k], dict) and "f" in proj[k] and proj[k].get("of") == self.name:
                t = ("param", proj[k]["name"] or "#up%d" % proj[k]["f"])
                start = k + 1
        first_field_done = False
        for ei, e in enumerate(proj[start:]):
            if not first_field_done and ei == 0 and start == 0 and isinstance(e, dict) and "f" in e and not e.get("variant"):
                # `local.field` where the struct local is also updated field by field (`terms.x = ..`): those stores are
                # definitions of the field as well
                first_field_done = True
                extra = self._partial_store_terms(p["l"], e)
                if extra:
                    base = self._field(t, e)
                    alts = []
                    for a in [base] + extra:
                        if a not in alts:
                            alts.append(a)
                    t = alts[0] if len(alts) == 1 else ("phi", alts)
                    continue
            if e == "deref":
                if t[0] == "ref":
                    t = t[1]
                else:
                    t = ("deref", t)
            elif e == "opaque":
                t = ("opaque", t)
            elif "f" in e:
                t = self._field(t, e)
            elif "downcast" in e:
                t = ("downcast", t, e["downcast"])
            elif "index" in e:
                t = ("index", t, self.local_term(e["index"]))
            elif "cidx" in e:
                t = ("cidx", t, e["cidx"], e["from_end"])
            elif "subslice" in e:
                t = ("subslice", t, e["subslice"][0], e["subslice"][1], e["from_end"])
        return t

    def _partial_store_terms(self, l, e):
        """values stored by statements `_l.<field e> = rv` of this body (struct locals updated field by field)"""
        if l < 0:
            pass
        elif l <= self.arg_count or (self.locals[l].get("ty") or "").startswith(("&", "*")):
            return []
        key = (l, e["f"])
        guard = self.__dict__.setdefault("_ps_guard", set())
        if key in guard:
            return []
        idx = self.__dict__.get("_ps_index")
        if idx is None:
            idx = {}
            for (bb, j, dst, rv, s) in self.stores():
                pr = dst["proj"]
                if len(pr) == 1 and isinstance(pr[0], dict) and "f" in pr[0] and not pr[0].get("variant"):
                    idx.setdefault((dst["l"], pr[0]["f"]), []).append(rv)
            # a closure that captured `&mut local.field` (closures capture disjoint fields) and stores through it
            defs = self.defs()
            for i, blk in enumerate(self.blocks):
                if blk["cleanup"]:
                    continue
                for j, s in enumerate(blk["stmts"]):
                    if s["k"] != "assign" or "agg" not in s["rv"]:
                        continue
                    a = s["rv"]["agg"]
                    if a["kind"] != "closure" or a.get("def") not in self.facts.raw["bodies"]:
                        continue
                    names = a.get("fields", [])
                    for k, op in enumerate(s["rv"]["ops"]):
                        pl = op.get("move") or op.get("copy")
                        if pl is None or pl["proj"] or k >= len(names):
                            continue
                        for dd in defs.get(pl["l"], []):
                            if dd[0] != "stmt":
                                continue
                            rv2 = self.blocks[dd[1]]["stmts"][dd[2]]["rv"]
                            if "ref" in rv2 and rv2["mut"] and len(rv2["ref"]["proj"]) == 1 and isinstance(rv2["ref"]["proj"][0], dict) \
                                    and "f" in rv2["ref"]["proj"][0] and not rv2["ref"]["proj"][0].get("variant"):
                                idx.setdefault((rv2["ref"]["l"], rv2["ref"]["proj"][0]["f"]), []).append(
                                    {"closure_store": ("closure", a["def"], names[k], i, j)})
            self._ps_index = idx
        rvs = idx.get(key)
        if not rvs:
            return []
        guard.add(key)
        try:
            return self._ps_terms(rvs)
        finally:
            guard.discard(key)

    def _ps_terms(self, rvs):
        out = []
        for rv in rvs:
            if "closure_store" in rv:
                out.extend(self._closure_store_terms(rv["closure_store"]))
            else:
                out.append(self.rvalue_term(rv))
        return out

    def _field(self, t, e):
        name = e["name"] if e["name"] is not None else str(e["f"])
        # field of a freshly built aggregate -> the operand
        if t[0] == "agg" and t[1] in ("adt", "tuple") and not (t[3] and e.get("variant") and t[3] != e.get("variant")):
            if t[1] == "tuple":
                try:
                    return t[5][int(e["f"])]
                except Exception:
                    pass
            elif name in t[4]:
                return t[5][t[4].index(name)]
        # captured variable of a closure / coroutine whose body was inlined here (normalize.py)
        if t[0] == "agg" and t[1] in ("closure", "coroutine", "coroutine_closure") and e.get("of") == t[2] and name in t[4]:
            return t[5][t[4].index(name)]
        # several definitions, all of them freshly built tuples / structs of one type (an accumulator pair that is rebuilt on
        # every turn of a loop): the field of each
        if t[0] == "phi" and not e.get("variant"):
            alts = phi_alts(t)
            if len(alts) > 1 and all(a[0] == "agg" and a[1] == "tuple" for a in alts) and len(set(len(a[5]) for a in alts)) == 1:
                sel = []
                for a in alts:
                    x = None
                    if a[1] == "tuple":
                        try:
                            x = a[5][int(e["f"])]
                        except Exception:
                            x = None
                    elif name in a[4]:
                        x = a[5][a[4].index(name)]
                    if x is None:
                        sel = None
                        break
                    if x not in sel:
                        sel.append(x)
                if sel:
                    return sel[0] if len(sel) == 1 else ("phi", sel)
        if t[0] == "downcast":
            inner = t[1]
            v = t[2]
            # await: (poll(..) as Ready).0
            if v == "Ready" and e["f"] == 0:
                for alt in phi_alts(inner):
                    if is_call(alt, "core::future::Future::poll"):
                        fut = peel(alt[3][0]) if alt[3] else ("unknown",)
                        return ("await", fut)
            # `?`: (Try::branch(x) as Continue).0
            if e["f"] == 0 and v in ("Continue", "Break"):
                for alt in phi_alts(inner):
                    if is_call(alt, "core::ops::Try::branch"):
                        x = alt[3][0] if alt[3] else ("unknown",)
                        return _simplify_try(x, v == "Continue")
            if inner[0] == "agg" and inner[1] == "adt" and inner[3] == v and name in inner[4]:
                return inner[5][inner[4].index(name)]
            # several definitions, some of them freshly built values: the downcast selects those of variant v
            alts = phi_alts(inner)
            if len(alts) > 1 and any(a[0] == "agg" and a[1] == "adt" for a in alts):
                sel, rest = [], []
                for a in alts:
                    if a[0] == "agg" and a[1] == "adt":
                        if a[3] == v and name in a[4]:
                            sel.append(a[5][a[4].index(name)])
                    elif v in ("Ok", "Some") and is_call(a, "core::ops::FromResidual::from_residual"):
                        pass  # never the success variant
                    else:
                        rest.append(a)
                if rest:
                    r = rest[0] if len(rest) == 1 else ("phi", rest)
                    sel.append(("field", ("downcast", r, v), name, e.get("of"), e.get("variant")))
                if sel:
                    uniq = []
                    for x in sel:
                        if x not in uniq:
                            uniq.append(x)
                    return uniq[0] if len(uniq) == 1 else ("phi", uniq)
        return ("field", t, name, e.get("of"), e.get("variant"))

    def operand_term(self, o):
        if "copy" in o:
            return self.place_term(o["copy"])
        if "move" in o:
            return self.place_term(o["move"])
        if "const" in o:
            c = o["const"]
            extra = None
            if "fn" in c:
                extra = "fn:" + (c["fn"].get("resolved") or c["fn"]["path"])
            elif "closure" in c:
                extra = "closure:" + c["closure"]
            elif "str" in c:
                extra = c["str"]
            val = c.get("svalue", c.get("value"))
            item = c.get("item")
            if val is None and item and item in self.facts.consts:
                val = self.facts.consts[item].get("value")
            return ("const", c["ty"], val, item, extra)
        return ("unknown",)

    def rvalue_term(self, r):
        if "use" in r:
            return self.operand_term(r["use"])
        if "ref" in r:
            return ("ref", self.place_term(r["ref"]), r["mut"])
        if "addr" in r:
            return ("ref", self.place_term(r["addr"]), True)
        if "bin" in r:
            return ("bin", r["bin"], self.operand_term(r["a"]), self.operand_term(r["b"]))
        if "un" in r:
            return ("un", r["un"], self.operand_term(r["a"]))
        if "cast" in r:
            return ("cast", r["cast"], self.operand_term(r["a"]), r["to"])
        if "discr" in r:
            return ("discr", self.place_term(r["discr"]))
        if "agg" in r:
            a = r["agg"]
            ops = [self.operand_term(o) for o in r["ops"]]
            k = a["kind"]
            if k == "adt":
                return ("agg", "adt", a["adt"], a["variant"], a["fields"], ops)
            if k in ("closure", "coroutine", "coroutine_closure"):
                return ("agg", k, a["def"], None, a.get("fields", []), ops)
            return ("agg", k, None, None, [str(i) for i in range(len(ops))], ops)
        if "repeat" in r:
            return ("repeat", self.operand_term(r["repeat"]), r["n"])
        return ("other", r.get("other"))

    # ---- switches ----------------------------------------------------------------------------
    def switch_info(self, bb):
        """{'term': discriminant term, 'enum': adt or None, 'edges': {label: target}} where label is a
        variant name (enum), True/False (bool) or an int; plus 'otherwise'."""
        t = self.switches.get(bb)
        if t is None:
            return None
        on = t["on"]
        term = self.operand_term(on)
        info = {"bb": bb, "term": term, "enum": None, "edges": {}, "otherwise": t["otherwise"], "subject": term}
        ty = None
        if "copy" in on:
            ty = on["copy"]["ty"]
        elif "move" in on:
            ty = on["move"]["ty"]
        en = None
        subject = term
        for alt in phi_alts(term):
            if alt[0] == "discr":
                subject = alt[1]
        # enum name: look at the defining statement
        if term[0] == "discr":
            en = self._discr_enum(on)
        info["subject"] = subject
        if en and en in self.facts.adts:
            info["enum"] = en
            variants = self.facts.adts[en]["variants"]
            byd = {v["discr"]: v["name"] for v in variants}
            seen = set()
            for v, b in t["arms"]:
                nm = byd.get(v, v)
                info["edges"][nm] = b
                seen.add(nm)
            rest = [v["name"] for v in variants if v["name"] not in seen]
            info["otherwise_variants"] = rest
            # an `otherwise` that can only be one variant is that variant's edge
            if len(rest) == 1 and self.blocks[t["otherwise"]]["term"]["k"] != "unreachable":
                info["edges"][rest[0]] = t["otherwise"]
        elif ty == "bool":
            for v, b in t["arms"]:
                info["edges"][bool(v)] = b
            if len(t["arms"]) == 1:
                info["edges"][not bool(t["arms"][0][0])] = t["otherwise"]
        else:
            for v, b in t["arms"]:
                info["edges"][v] = b
        return info

    def _discr_enum(self, on):
        l = (on.get("copy") or on.get("move"))["l"]
        for d in self.defs().get(l, []):
            if d[0] == "stmt":
                rv = self.blocks[d[1]]["stmts"][d[2]]["rv"]
                if "discr" in rv:
                    return rv.get("enum")
        return None

    def edge_target(self, bb, label):
        si = self.switch_info(bb)
        if si is None:
            return None
        return si["edges"].get(label)

    # ---- convenience -------------------------------------------------------------------------
    def find_calls(self, *suffixes):
        return [c for c in self.calls.values() if c.bb in self.reachable and c.is_(*suffixes)]

    def call_arg_term(self, c, i):
        return self.operand_term(c.args[i])

    def q_edges(self, value_pred):
        """all `?` sites: switch blocks on discr(Try::branch(x)) with value_pred(x) true.
        returns list of dict(bb, cont=(src,dst), brk=(src,dst), x=term)"""
        out = []
        for bb in self.switches:
            if bb not in self.reachable:
                continue
            si = self.switch_info(bb)
            subj = si["subject"]
            for alt in phi_alts(subj):
                if is_call(alt, "core::ops::Try::branch") and alt[3]:
                    x = alt[3][0]
                    if value_pred(x):
                        out.append({"bb": bb, "x": x,
                                    "cont": (bb, si["edges"].get("Continue")),
                                    "brk": (bb, si["edges"].get("Break"))})
        return out

    def result_switches(self, value_pred):
        """switches on the discriminant of a value v with value_pred(v): returns list of switch_info"""
        out = []
        for bb in self.switches:
            if bb not in self.reachable:
                continue
            si = self.switch_info(bb)
            for alt in phi_alts(si["subject"]):
                if value_pred(alt):
                    out.append(si)
                    break
        return out

    def line(self, bb):
        return self.blocks[bb]["span"]


# ----------------------------------------------------------------------------------------------


class Facts:
    def __init__(self, path):
        from . import normalize
        raw, self.normalization = normalize.normalize_text(open(path).read())
        self.raw = raw
        self.cfg = raw.get("cfg")
        self.nonce = raw.get("nonce")
        self.adts = raw["adts"]
        self.consts = raw["consts"]
        self.impls = raw["impls"]
        self.skipped = raw["skipped_bodies"]
        self.bodies = {}
        for name, b in raw["bodies"].items():
            self.bodies[name] = Body(self, name, b)
        self._cg = None
        self._summ = {}

    # ---- lookup --------------------------------------------------------------------------------
    def find(self, fn_name, self_ty_contains=None, kind=None, module_contains=None):
        out = []
        for b in self.bodies.values():
            if b.fn_name != fn_name:
                continue
            if b.kind not in ("fn", "assoc_fn"):
                continue
            if self_ty_contains is not None and (b.self_ty is None or self_ty_contains not in b.self_ty):
                continue
            if module_contains is not None and module_contains not in b.name:
                continue
            out.append(b)
        return out

    def one(self, role, fn_name, self_ty_contains=None, module_contains=None):
        c = self.find(fn_name, self_ty_contains, module_contains=module_contains)
        if len(c) != 1:
            raise AnchorLost(role, "expected exactly one function `%s` (self type ~ %s), found %d"
                             % (fn_name, self_ty_contains, len(c)))
        return c[0]

    def code(self, b):
        """the body that contains the code of function b: its coroutine for an async fn"""
        if b.is_async:
            k = b.name + "::{closure#0}"
            if k in self.bodies:
                return self.bodies[k]
            raise AnchorLost("coroutine-of:" + b.name)
        return b

    def children(self, b):
        return [c for c in self.bodies.values() if c.parent == b.name]

    def in_fuzzing(self, b):
        return b.name.startswith("fuzzing::") or "::fuzzing::" in b.name

    # ---- call graph ------------------------------------------------------------------------
    def impl_methods(self, trait, method):
        out = []
        for im in self.impls:
            if im["trait"] == trait and method in im["methods"]:
                p = im["methods"][method]
                if p in self.bodies:
                    out.append(p)
        return out

    def call_targets(self, c):
        """names of local bodies a call may enter"""
        if c.fn is None:
            return []
        if c.resolved and c.resolved in self.bodies:
            return [c.resolved]
        if c.path in self.bodies and not (c.trait and c.resolved is None and self.bodies[c.path].trait == c.trait
                                          and self.bodies[c.path].self_ty == "Self"):
            return [c.path]
        if c.trait and c.resolved is None:
            m = c.path.rsplit("::", 1)[-1]
            return self.impl_methods(c.trait, m)
        return []

    def callgraph(self):
        if self._cg is not None:
            return self._cg
        cg = {}
        for name, b in self.bodies.items():
            outs = set()
            for c in b.calls.values():
                if c.bb not in b.reachable:
                    continue
                for t in self.call_targets(c):
                    outs.add(t)
            # closures / coroutines constructed here
            for _, _, s in b.assigns():
                rv = s["rv"]
                if "agg" in rv and rv["agg"]["kind"] in ("closure", "coroutine", "coroutine_closure"):
                    d = rv["agg"].get("def")
                    if d in self.bodies:
                        outs.add(d)
            # closures passed as zero-sized constants
            for c in b.calls.values():
                for a in c.args:
                    if "const" in a and "closure" in a["const"] and a["const"]["closure"] in self.bodies:
                        outs.add(a["const"]["closure"])
            for l in b.locals:
                if l["closure"] and l["closure"] in self.bodies and l["closure"] != name:
                    # locals of closure type that are created by aggregate are covered above; the type
                    # mention alone (e.g. the coroutine's own env) is not a call
                    pass
            cg[name] = outs
        self._cg = cg
        return cg

    def reachable_bodies(self, roots):
        cg = self.callgraph()
        seen = set()
        dq = deque(roots)
        while dq:
            x = dq.popleft()
            if x in seen or x not in cg:
                continue
            seen.add(x)
            for y in cg[x]:
                if y not in seen:
                    dq.append(y)
        return seen

    def summary(self, prop, local_pred):
        """fixpoint: set of body names for which local_pred(body) holds for the body or any callee"""
        if prop in self._summ:
            return self._summ[prop]
        cg = self.callgraph()
        s = set(n for n, b in self.bodies.items() if local_pred(b))
        rev = defaultdict(set)
        for a, outs in cg.items():
            for o in outs:
                rev[o].add(a)
        dq = deque(s)
        while dq:
            x = dq.popleft()
            for p in rev[x]:
                if p not in s:
                    s.add(p)
                    dq.append(p)
        self._summ[prop] = s
        return s

    def does_io(self):
        def pred(b):
            for c in b.calls.values():
                if c.bb in b.reachable and c.path in IO_METHODS:
                    return True
            return False
        return self.summary("does_io", pred)

    def call_does_io(self, c):
        if c.path in IO_METHODS:
            return True
        if c.path == "core::future::Future::poll":
            # polling an already created future is accounted at the call that created it
            return False
        io = self.does_io()
        return any(t in io for t in self.call_targets(c))

    def may_yield(self):
        return self.summary("may_yield", lambda b: any(y[0] in b.reachable for y in b.yields))

    # ---- field writes ------------------------------------------------------------------------
    def field_stores(self, of_suffix, field):
        """all direct stores into field `field` of ADT whose path ends with of_suffix:
        list of (body, bb, idx, place, rvalue, stmt)"""
        out = []
        for b in self.bodies.values():
            for (bb, j, dst, rv, s) in b.stores():
                if bb not in b.reachable:
                    continue
                # `let Self { flag, .. } = self; *flag = false;`: a store through a reference that was taken of a field
                if dst["proj"] and dst["proj"][0] == "deref":
                    ds_ = b.defs().get(dst["l"], [])
                    if len(ds_) == 1 and ds_[0][0] == "stmt":
                        rv_ = b.blocks[ds_[0][1]]["stmts"][ds_[0][2]]["rv"]
                        if "ref" in rv_ and rv_.get("mut") and any(isinstance(e, dict) and "f" in e for e in rv_["ref"]["proj"]):
                            dst = {"l": rv_["ref"]["l"], "proj": list(rv_["ref"]["proj"]) + list(dst["proj"][1:]), "ty": dst.get("ty")}
                last = None
                for e in dst["proj"]:
                    if isinstance(e, dict) and "f" in e:
                        last = e
                    elif e == "deref" or (isinstance(e, dict) and "downcast" in e):
                        continue
                    else:
                        last = None  # index etc. resets
                # the *final* projection must be this field (writes to sub-fields are reported by caller)
                fe = [e for e in dst["proj"] if isinstance(e, dict) and "f" in e]
                for e in fe:
                    if e["name"] == field and e["of"] and e["of"].endswith(of_suffix):
                        out.append((b, bb, j, dst, rv, s, e is dst["proj"][-1]))
                        break
        return out

    def mut_uses(self, of_suffix, field):
        """calls that receive `&mut <..>.field` (directly or via reborrow temporaries):
        list of (body, call, argument index)"""
        out = []
        for b in self.bodies.values():
            for c in b.calls.values():
                if c.bb not in b.reachable:
                    continue
                for i, a in enumerate(c.args):
                    t = b.operand_term(a)
                    for alt in phi_alts(t):
                        x = alt
                        # strip reborrows: &mut *(&mut place)
                        is_mut = False
                        while isinstance(x, tuple) and x[0] in ("ref", "deref"):
                            if x[0] == "ref" and x[2]:
                                is_mut = True
                            x = x[1]
                        if not is_mut:
                            continue
                        if x[0] == "field" and x[2] in ("0", "inner", "ids") and isinstance(x[1], tuple):
                            # the collection inside a private newtype wrapped around the field
                            y = x[1]
                            while isinstance(y, tuple) and y[0] in ("ref", "deref"):
                                y = y[1]
                            if isinstance(y, tuple) and y[0] == "field" and y[2] == field:
                                x = y
                        if x[0] == "field" and x[2] == field and x[3] and x[3].endswith(of_suffix):
                            out.append((b, c, i))
        return out


def load(path):
    return Facts(path)


# ---- additional graph helpers ----------------------------------------------------------------

def _coreach(self, targets, avoid=(), avoid_edges=()):
    """blocks from which some block of `targets` is reachable (including the targets)"""
    avoid = set(avoid)
    avoid_edges = set(avoid_edges)
    seen = set(t for t in targets if t not in avoid)
    dq = deque(seen)
    while dq:
        x = dq.popleft()
        for p in self.pred[x]:
            if p in avoid or (p, x) in avoid_edges or p in seen:
                continue
            if p not in self.reachable:
                continue
            seen.add(p)
            dq.append(p)
    return seen


def _between(self, a_blocks, b_blocks, avoid_edges=()):
    """blocks lying on some path from a block of A to a block of B (paths stop at B)"""
    fwd = self.reach(a_blocks, avoid=(), avoid_edges=avoid_edges)
    # forward reachability that does not continue past B
    stop = set(b_blocks)
    seen = set()
    dq = deque()
    for s in a_blocks:
        if s not in seen:
            seen.add(s)
            dq.append(s)
    while dq:
        x = dq.popleft()
        if x in stop:
            continue
        for b, _ in self.succ[x]:
            if (x, b) in set(avoid_edges) or b in seen:
                continue
            seen.add(b)
            dq.append(b)
    back = self.coreach(b_blocks)
    return seen & back


def _yield_blocks(self):
    return set(y[0] for y in self.yields if y[0] in self.reachable)


Body.coreach = _coreach
Body.between = _between
Body.yield_blocks = _yield_blocks

ELEM = (
    "core::iter::Iterator::next", "core::iter::IntoIterator::into_iter", "core::slice::<impl [T]>::iter_mut",
    "core::slice::<impl [T]>::iter", "core::iter::Iterator::find", "core::slice::<impl [T]>::get_mut",
    "core::slice::<impl [T]>::get", "core::slice::<impl [T]>::first_mut", "core::slice::<impl [T]>::last_mut",
    "core::ops::Index::index", "core::ops::IndexMut::index_mut", "core::iter::Iterator::rev",
    "core::iter::Iterator::enumerate", "core::iter::Iterator::skip", "core::iter::Iterator::take",
    "VecInner::<T, LenT, S>::iter_mut", "VecInner::<T, LenT, S>::iter", "VecInner::<T, LenT, S>::as_mut_slice",
    "VecInner::<T, LenT, S>::as_slice", "core::iter::Iterator::by_ref", "core::iter::Iterator::filter",
    "core::iter::Iterator::position",
)


def same_shape(a, b, depth=0):
    """structural equality of two terms ignoring the block numbers of call sites"""
    if depth > 60:
        return False
    if isinstance(a, tuple) and isinstance(b, tuple):
        if len(a) != len(b) or a[0] != b[0]:
            return False
        rng = range(1, len(a))
        for i in rng:
            if a[0] == "call" and i == 1:
                continue
            if not same_shape(a[i], b[i], depth + 1):
                return False
        return True
    if isinstance(a, list) and isinstance(b, list):
        return len(a) == len(b) and all(same_shape(x, y, depth + 1) for x, y in zip(a, b))
    return a == b


def _places_in(o, out):
    if isinstance(o, dict):
        if "l" in o and "proj" in o:
            out.append(o)
            return
        for v in o.values():
            _places_in(v, out)
    elif isinstance(o, list):
        for v in o:
            _places_in(v, out)


def _own_field_mentions(self):
    """(adt, field) of every field projection mentioned anywhere in the body (reads and writes)"""
    if getattr(self, "_mentions", None) is not None:
        return self._mentions
    out = set()
    pl = []
    for i, blk in enumerate(self.blocks):
        if blk["cleanup"] or i not in self.reachable:
            continue
        _places_in(blk["stmts"], pl)
        _places_in(blk["term"], pl)
    for p in pl:
        for e in p["proj"]:
            if isinstance(e, dict) and "f" in e and e.get("of") and e.get("name") is not None:
                out.add((e["of"], e["name"]))
    self._mentions = out
    return out


Body.field_mentions = _own_field_mentions


def _fields_touched(self, body_name, _seen=None):
    """transitive closure of field mentions over the call graph from body_name"""
    memo = self.__dict__.setdefault("_touch", {})
    if body_name in memo:
        return memo[body_name]
    names = self.reachable_bodies([body_name])
    out = set()
    for n in names:
        out |= self.bodies[n].field_mentions()
    memo[body_name] = out
    return out


Facts.fields_touched = _fields_touched


def subst(t, mapping, depth=0):
    """replace ('param', name) leaves by mapping[name] (captured variables -> outer terms)"""
    if depth > 80 or not isinstance(t, tuple):
        return t
    if t[0] == "param" and t[1] in mapping:
        return mapping[t[1]]
    out = []
    for c in t:
        if isinstance(c, tuple):
            out.append(subst(c, mapping, depth + 1))
        elif isinstance(c, list):
            out.append([subst(e, mapping, depth + 1) if isinstance(e, tuple) else e for e in c])
        else:
            out.append(c)
    return tuple(out)


def _root_local(self, op):
    """the plain local an operand ultimately denotes, looking through copies, `&local`, `&*ref` re-borrows"""
    pl = op.get("copy") or op.get("move") if isinstance(op, dict) and ("copy" in op or "move" in op) else op
    seen = set()
    while pl is not None and pl["l"] not in seen:
        if pl["proj"] and pl["proj"] != ["deref"]:
            return None
        l = pl["l"]
        seen.add(l)
        ds = self.defs().get(l, [])
        if len(ds) == 1 and ds[0][0] == "stmt":
            rv = self.blocks[ds[0][1]]["stmts"][ds[0][2]]["rv"]
            if "use" in rv:
                nxt = rv["use"].get("copy") or rv["use"].get("move")
                if nxt is not None and (not nxt["proj"] or nxt["proj"] == ["deref"]):
                    pl = nxt
                    continue
            if "ref" in rv:
                r = rv["ref"]
                if not r["proj"]:
                    # `&local`: the local itself, or -- when it merely holds a value moved / copied out of another
                    # local (the result of an inlined helper) -- the local that value was built in
                    l2 = r["l"]
                    for _ in range(8):
                        ds2 = self.defs().get(l2, [])
                        if len(ds2) != 1 or ds2[0][0] != "stmt":
                            break
                        rv2 = self.blocks[ds2[0][1]]["stmts"][ds2[0][2]]["rv"]
                        n2 = (rv2["use"].get("copy") or rv2["use"].get("move")) if "use" in rv2 else None
                        if n2 is None or n2["proj"]:
                            break
                        l2 = n2["l"]
                    return l2
                if r["proj"] == ["deref"]:
                    pl = r
                    continue
        return l if not pl["proj"] else None
    return None


Body.root_local = _root_local
