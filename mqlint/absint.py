"""Interval abstract interpretation of small loop-free integer functions over a finite partition of their
input (e.g. the 33 bit-length classes of a u32).  Sound over-approximation: the result for a class is an
interval containing every value the function can return for inputs of that class; nothing is executed on
concrete inputs.  Unsupported constructs evaluate to TOP and the caller treats non-singleton results as
undecided (never as a violation)."""

TOP = None
U = {"u8": 8, "u16": 16, "u32": 32, "u64": 64, "usize": 64, "i32": 32, "bool": 1}


def bitlen(x):
    return x.bit_length()


def join(a, b):
    if a is TOP or b is TOP:
        return TOP
    return (min(a[0], b[0]), max(a[1], b[1]))


class Interp:
    def __init__(self, body, input_pred, max_paths=512, need_result=True):
        """input_pred(place_dict) -> True when the place denotes the abstract input"""
        self.b = body
        self.input_pred = input_pred
        self.max_paths = max_paths
        self.need_result = need_result
        self.subs = []      # (minuend interval, subtrahend interval) of every subtraction evaluated

    def op(self, o, env, inp):
        if "const" in o:
            v = o["const"].get("value")
            if v is None and o["const"].get("item") and o["const"]["item"] in self.b.facts.consts and o["const"].get("ty") in U:
                # only plain integers: a newtype constant (Duration) evaluates to its raw representation (ticks)
                v = self.b.facts.consts[o["const"]["item"]].get("value")
            if v is None and o["const"].get("item", "").endswith("::BITS"):
                v = 32
            if v is None and o["const"].get("item") in self.b.facts.bodies:
                # a named constant that is computed (`const T: Duration = Duration::from_millis(T_MS)`)
                cb = self.b.facts.bodies[o["const"]["item"]]
                if cb.kind in ("const", "assoc_const") and len(cb.blocks) < 12:
                    return Interp(cb, lambda p_: False).run((0, 0))
            return (v, v) if v is not None else TOP
        p = o.get("copy") or o.get("move")
        return self.place(p, env, inp)

    def place(self, p, env, inp):
        if self.input_pred(p):
            return inp
        if not p["proj"]:
            return env.get(p["l"], TOP)
        # captured variable of a closure value built in this body (the closure was inlined by the normal form)
        cl = env.get(("clos", p["l"]))
        if cl is not None and isinstance(p["proj"][0], dict) and p["proj"][0].get("name") in cl and all(e == "deref" for e in p["proj"][1:]):
            return cl[p["proj"][0]["name"]]
        # field .0 / .1 of a checked-arithmetic tuple
        if len(p["proj"]) == 1 and isinstance(p["proj"][0], dict) and "f" in p["proj"][0] and p["proj"][0].get("of") == "tuple":
            t = env.get(("tuple", p["l"]))
            if t is not None:
                return t[p["proj"][0]["f"]]
        return TOP

    def binop(self, op, a, b, ty=None):
        if op in ("Le", "Lt", "Ge", "Gt", "Eq", "Ne"):
            if a is TOP or b is TOP:
                return (0, 1)
            if op == "Le":
                t, f = a[1] <= b[0], a[0] > b[1]
            elif op == "Lt":
                t, f = a[1] < b[0], a[0] >= b[1]
            elif op == "Ge":
                t, f = a[0] >= b[1], a[1] < b[0]
            elif op == "Gt":
                t, f = a[0] > b[1], a[1] <= b[0]
            elif op == "Eq":
                t, f = (a[0] == a[1] == b[0] == b[1]), (a[1] < b[0] or b[1] < a[0])
            else:
                f, t = (a[0] == a[1] == b[0] == b[1]), (a[1] < b[0] or b[1] < a[0])
            return (1, 1) if t else ((0, 0) if f else (0, 1))
        if a is TOP or b is TOP:
            return TOP
        if op.startswith("Add"):
            return (a[0] + b[0], a[1] + b[1])
        if op.startswith("Sub"):
            self.subs.append((a, b))
            lo, hi = a[0] - b[1], a[1] - b[0]
            return (lo, hi) if lo >= 0 else TOP
        if op.startswith("Mul"):
            return (a[0] * b[0], a[1] * b[1])
        if op == "Div":
            if b[0] <= 0:
                return TOP
            return (a[0] // b[1], a[1] // b[0])
        if op == "Rem":
            if b[0] == b[1] and b[0] > 0:
                if a[0] // b[0] == a[1] // b[0]:
                    return (a[0] % b[0], a[1] % b[0])
                return (0, b[0] - 1)
            return TOP
        if op in ("Shr", "ShrUnchecked"):
            if b[0] == b[1]:
                return (a[0] >> b[0], a[1] >> b[0])
            return TOP
        if op in ("Shl", "ShlUnchecked"):
            if b[0] == b[1]:
                return (a[0] << b[0], a[1] << b[0])
            return TOP
        if op == "BitAnd":
            if b[0] == b[1]:
                if a[0] == a[1]:
                    return (a[0] & b[0], a[0] & b[0])
                return (0, b[0])
            return TOP
        if op == "BitOr":
            if a[0] == a[1] and b[0] == b[1]:
                return (a[0] | b[0], a[0] | b[0])
            return (max(a[0], b[0]), (1 << max(bitlen(a[1]), bitlen(b[1]))) - 1)
        return TOP

    def call(self, c, args):
        p = c.path or ""
        nm = p.rsplit("::", 1)[-1]
        a = args[0] if args else TOP
        # core::time::Duration in milliseconds
        if "Duration" in p and a is not TOP:
            if nm == "as_millis":
                return a
            if nm == "as_secs":
                return (a[0] // 1000, a[1] // 1000)
            if nm == "from_millis":
                return a
            if nm == "from_secs":
                return (a[0] * 1000, a[1] * 1000)
        if nm == "leading_zeros" and a is not TOP:
            w = 32 if "u32" in p else (64 if ("u64" in p or "usize" in p) else (16 if "u16" in p else (8 if "u8" in p else None)))
            if w is None:
                return TOP
            return (w - bitlen(a[1]), w - bitlen(a[0]))
        if nm == "ilog2" and a is not TOP and a[0] > 0:
            return (bitlen(a[0]) - 1, bitlen(a[1]) - 1)
        if nm in ("max", "min") and len(args) == 2 and args[0] is not TOP and args[1] is not TOP:
            fn = max if nm == "max" else min
            return (fn(args[0][0], args[1][0]), fn(args[0][1], args[1][1]))
        if nm == "div_ceil" and len(args) == 2 and args[0] is not TOP and args[1] is not TOP and args[1][0] == args[1][1] and args[1][0] > 0:
            d = args[1][0]
            return (-(-args[0][0] // d), -(-args[0][1] // d))
        if nm in ("saturating_sub",) and len(args) == 2 and args[0] is not TOP and args[1] is not TOP:
            return (max(0, args[0][0] - args[1][1]), max(0, args[0][1] - args[1][0]))
        if nm in ("saturating_add", "wrapping_add") and len(args) == 2 and args[0] is not TOP and args[1] is not TOP:
            return (args[0][0] + args[1][0], args[0][1] + args[1][1])
        return TOP

    def run(self, inp):
        """interval of the return value for abstract input `inp`, or TOP"""
        b = self.b
        result = [None]
        count = [0]
        top = [False]

        def go(bb, env, path):
            if top[0]:
                return
            count[0] += 1
            if count[0] > self.max_paths or bb in path:
                top[0] = True
                return
            env = dict(env)
            blk = b.blocks[bb]
            for s in blk["stmts"]:
                if s["k"] != "assign" or s["dst"]["proj"]:
                    continue
                l = s["dst"]["l"]
                rv = s["rv"]
                v = TOP
                if "agg" in rv and rv["agg"]["kind"] == "closure":
                    env[("clos", l)] = {n_: self.op(o_, env, inp) for n_, o_ in zip(rv["agg"].get("fields", []), rv["ops"])}
                if "use" in rv:
                    src_ = rv["use"].get("move") or rv["use"].get("copy")
                    if src_ is not None and not src_["proj"] and ("clos", src_["l"]) in env:
                        env[("clos", l)] = env[("clos", src_["l"])]
                    v = self.op(rv["use"], env, inp)
                elif "bin" in rv:
                    x = self.op(rv["a"], env, inp)
                    y = self.op(rv["b"], env, inp)
                    v = self.binop(rv["bin"], x, y)
                    if rv["bin"].endswith("WithOverflow"):
                        env[("tuple", l)] = (v, (0, 1))
                        v = TOP
                elif "cast" in rv:
                    v = self.op(rv["a"], env, inp)
                    w = U.get(rv["to"])
                    if v is not TOP and w and v[1] >= (1 << w):
                        v = TOP
                elif "un" in rv and rv["un"] == "Not":
                    x = self.op(rv["a"], env, inp)
                    if x is not TOP and x[1] <= 1:
                        v = (1 - x[1], 1 - x[0])
                elif "ref" in rv:
                    # &place: remember as alias of the value (used for by-reference method receivers)
                    v = self.place(rv["ref"], env, inp)
                elif "agg" in rv and rv["agg"]["kind"] == "adt" and len(rv["ops"]) == 1:
                    # Some(x) / Ok(x): the payload's interval
                    v = self.op(rv["ops"][0], env, inp)
                env[l] = v
            t = blk["term"]
            k = t["k"]
            if k == "return":
                r = env.get(0, TOP)
                if r is TOP and not self.need_result:
                    return
                if r is TOP:
                    top[0] = True
                else:
                    result[0] = r if result[0] is None else join(result[0], r)
                return
            if k in ("goto",):
                return go(t["t"], env, path | {bb})
            if k == "false_edge" or k == "false_unwind":
                return go(t["real"], env, path | {bb})
            if k == "drop":
                return go(t["t"], env, path | {bb})
            if k == "assert":
                return go(t["t"], env, path | {bb})
            if k == "call":
                c = b.calls[bb]
                args = [self.op(a, env, inp) for a in t["args"]]
                if not t["dst"]["proj"]:
                    env[t["dst"]["l"]] = self.call(c, args)
                if t["t"] is None:
                    return
                return go(t["t"], env, path | {bb})
            if k == "switch":
                v = self.op(t["on"], env, inp)
                taken = False
                for val, tgt in t["arms"]:
                    if v is TOP or v[0] <= val <= v[1]:
                        if v is not TOP and v[0] == v[1]:
                            return go(tgt, env, path | {bb})
                        go(tgt, env, path | {bb})
                        taken = True
                arms = [a for a, _ in t["arms"]]
                if v is TOP or not (v[0] == v[1] and v[0] in arms):
                    # otherwise edge feasible unless v is fully covered by the arms
                    if v is TOP or any(x not in arms for x in range(v[0], min(v[1], v[0] + 64) + 1)):
                        go(t["otherwise"], env, path | {bb})
                return
            top[0] = True

        go(0, {}, frozenset())
        self.aborted = top[0]
        if top[0] or result[0] is None:
            return TOP
        return result[0]


def u32_classes():
    yield (0, 0)
    for k in range(32):
        yield (1 << k, (1 << (k + 1)) - 1)
