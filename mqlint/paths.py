"""Path enumeration with enum-variant constraints (variant-set flow) and error-variant summaries."""
import re
from .core import chain, peel, phi_alts, is_call, walk


def _payload_of(nv, pl):
    """value of `(local as V).0` when the local holds a value built on this path whose single field is known"""
    pr = pl["proj"]
    if isinstance(pr[0], dict) and "downcast" in pr[0] and isinstance(pr[1], dict) and pr[1].get("f") == 0:
        v = nv.get(pl["l"])
        if isinstance(v, tuple) and v and v[0] == "v" and len(v) > 3 and v[2] == pr[0]["downcast"]:
            return v[3]
    return None


def _resolve(nv, pl):
    """(base local, field indices) of a place whose projections are plain struct / tuple fields, looking through
    references taken on this path (`_r = &_s; (*_r).f`)"""
    base = pl["l"]
    idxs = []
    proj = list(pl["proj"])
    while proj and proj[0] == "deref":
        r = nv.get(("ref", base))
        if r is None:
            return None
        base, idxs = r[0], list(r[1])
        proj = proj[1:]
    for e in proj:
        if isinstance(e, dict) and "f" in e and not e.get("variant"):
            idxs.append(e["f"])
        else:
            return None
    return base, tuple(idxs)


def _place_val(nv, pl):
    """what the place holds on this path, when it is a tracked local or a field of a struct built on this path"""
    r = _resolve(nv, pl)
    if r is None:
        return None
    base, idxs = r
    if not idxs:
        return nv.get(base)
    if len(idxs) == 1:
        return nv.get(("fld", base, idxs[0]))
    return None


def _forget_fields(nv, l):
    for k in [k for k in nv if isinstance(k, tuple) and len(k) == 3 and k[0] == "fld" and k[1] == l]:
        nv.pop(k)


def _discr_value(body, v):
    if isinstance(v, tuple) and v and v[0] == "v":
        for vv in body.facts.adts.get(v[1], {}).get("variants", []):
            if vv["name"] == v[2]:
                return vv["discr"]
    return None


def explore(body, start_bb, root_is, mark_pred, init_constraints=None, max_paths=4000, stop_pred=None,
            switch_hook=None):
    """Enumerate acyclic paths from start_bb to blocks without successors.
    - root_is(term) -> bool : identifies the tracked value (e.g. the result of a call)
    - mark_pred(body, bb) -> bool : block `bb` contains a marking event (e.g. a latch call)
    Returns list of leaves: dict(end=bb, kind=terminator kind, marked=bool, cons={names tuple: variant |
    ('not', frozenset)}, path=[bbs])"""
    leaves = []
    init = dict(init_constraints or {})
    stack = [(start_bb, False, init, [start_bb], {})]
    count = 0
    while stack:
        bb, marked, cons, path, vals = stack.pop()
        count += 1
        # constant propagation of plain locals along this path (the `matches!(..)` / `let ok = ..` idiom):
        # a switch on a local whose value on this path is a known constant follows only that edge
        nv = None
        for s_ in body.blocks[bb]["stmts"]:
            if s_["k"] == "assign" and s_["dst"]["proj"]:
                # a store into a field of a struct whose fields are tracked on this path
                if nv is None:
                    nv = dict(vals)
                rd_ = _resolve(nv, s_["dst"])
                if rd_ is not None and len(rd_[1]) == 1:
                    sv_ = None
                    rvs_ = s_["rv"]
                    if "use" in rvs_:
                        cs_ = rvs_["use"].get("const")
                        ps_ = rvs_["use"].get("copy") or rvs_["use"].get("move")
                        if cs_ is not None and "value" in cs_:
                            sv_ = cs_["value"]
                        elif ps_ is not None:
                            sv_ = _place_val(nv, ps_)
                    elif "agg" in rvs_ and rvs_["agg"]["kind"] == "adt" and rvs_["agg"].get("variant"):
                        sv_ = ("v", rvs_["agg"]["adt"], rvs_["agg"]["variant"], None)
                    if sv_ is None:
                        nv.pop(("fld", rd_[0], rd_[1][0]), None)
                    else:
                        nv[("fld", rd_[0], rd_[1][0])] = sv_
                elif rd_ is not None:
                    _forget_fields(nv, rd_[0])
                continue
            if s_["k"] == "assign" and not s_["dst"]["proj"]:
                l_ = s_["dst"]["l"]
                rv_ = s_["rv"]
                c_ = rv_.get("use", {}).get("const") if "use" in rv_ else None
                if nv is None:
                    nv = dict(vals)
                _forget_fields(nv, l_)
                nv.pop(("ref", l_), None)
                if "agg" in rv_ and rv_["agg"]["kind"] in ("adt", "tuple") and not rv_["agg"].get("variant"):
                    # struct / tuple built on this path: what each field holds
                    for i_, op_ in enumerate(rv_["ops"]):
                        cf_ = op_.get("const")
                        pf_ = op_.get("copy") or op_.get("move")
                        fv_ = None
                        if cf_ is not None and "value" in cf_:
                            fv_ = cf_["value"]
                        elif pf_ is not None:
                            fv_ = _place_val(nv, pf_)
                        if fv_ is not None and not (isinstance(fv_, tuple) and fv_ and fv_[0] == "callres"):
                            nv[("fld", l_, i_)] = fv_
                    nv.pop(l_, None)
                    nv.pop(("a", l_), None)
                    continue
                if "ref" in rv_:
                    rr_ = _resolve(nv, rv_["ref"])
                    if rr_ is not None:
                        if rv_.get("mut"):
                            # a unique borrow may be written through: stop tracking what is behind it
                            if rr_[1]:
                                nv.pop(("fld", rr_[0], rr_[1][0]), None)
                            else:
                                _forget_fields(nv, rr_[0])
                        else:
                            nv[("ref", l_)] = rr_
                    nv.pop(l_, None)
                    nv.pop(("a", l_), None)
                    continue
                if "use" in rv_:
                    pu_ = rv_["use"].get("copy") or rv_["use"].get("move")
                    if pu_ is not None and not pu_["proj"] and ("ref", pu_["l"]) in nv:
                        nv[("ref", l_)] = nv[("ref", pu_["l"])]
                    if pu_ is not None and pu_["proj"] and len(pu_["proj"]) != 2 or \
                            (pu_ is not None and len(pu_["proj"]) == 2 and _payload_of(nv, pu_) is None):
                        fv_ = _place_val(nv, pu_)
                        if fv_ is not None and not (isinstance(fv_, tuple) and fv_ and fv_[0] == "callres"):
                            nv[l_] = fv_
                            nv.pop(("a", l_), None)
                            continue
                if "discr" in rv_ and rv_["discr"]["proj"]:
                    dv_ = _discr_value(body, _place_val(nv, rv_["discr"]))
                    if dv_ is not None:
                        nv[l_] = dv_
                        nv.pop(("a", l_), None)
                        continue
                if "agg" in rv_ and rv_["agg"]["kind"] == "adt" and rv_["agg"].get("variant"):
                    # enum value built on this path: later matches on it follow that variant only
                    pay_ = None
                    if len(rv_["ops"]) == 1:
                        op0_ = rv_["ops"][0].get("move") or rv_["ops"][0].get("copy")
                        if op0_ is not None and not op0_["proj"] and isinstance(nv.get(op0_["l"]), tuple) and nv[op0_["l"]][0] == "v":
                            pay_ = nv[op0_["l"]]
                        elif op0_ is not None and len(op0_["proj"]) == 2:
                            pay_ = _payload_of(nv, op0_)
                    nv[l_] = ("v", rv_["agg"]["adt"], rv_["agg"]["variant"], pay_)
                    nv.pop(("a", l_), None)
                    continue
                if "use" in rv_:
                    plp_ = rv_["use"].get("copy") or rv_["use"].get("move")
                    if plp_ is not None and len(plp_["proj"]) == 2:
                        pv_ = _payload_of(nv, plp_)
                        if pv_ is not None:
                            nv[l_] = pv_
                            nv.pop(("a", l_), None)
                            continue
                if "discr" in rv_ and len(rv_["discr"]["proj"]) == 2:
                    # discriminant of the payload of a value built on this path: `match r { Err(Error::Transport(e)) => ..`
                    pv_ = _payload_of(nv, rv_["discr"])
                    if isinstance(pv_, tuple) and pv_ and pv_[0] == "v":
                        dv_ = None
                        for vv_ in body.facts.adts.get(pv_[1], {}).get("variants", []):
                            if vv_["name"] == pv_[2]:
                                dv_ = vv_["discr"]
                        if dv_ is not None:
                            nv[l_] = dv_
                            continue
                if "discr" in rv_ and not rv_["discr"]["proj"] and isinstance(nv.get(rv_["discr"]["l"]), tuple) \
                        and nv[rv_["discr"]["l"]][0] == "v":
                    adt_, var_ = nv[rv_["discr"]["l"]][1], nv[rv_["discr"]["l"]][2]
                    dv_ = None
                    for vv_ in body.facts.adts.get(adt_, {}).get("variants", []):
                        if vv_["name"] == var_:
                            dv_ = vv_["discr"]
                    if dv_ is not None:
                        nv[l_] = dv_
                        continue
                if "bin" in rv_ and rv_["bin"] in ("Eq", "Ne"):
                    # comparison of two values known on this path (e.g. the discriminants a derived `==` compares)
                    def _known(o_):
                        if "const" in o_:
                            return o_["const"].get("value")
                        p_ = o_.get("copy") or o_.get("move")
                        if p_ is not None and not p_["proj"]:
                            v_ = nv.get(p_["l"])
                            if isinstance(v_, bool):
                                return int(v_)
                            if isinstance(v_, int):
                                return v_
                        return None
                    ka_, kb_ = _known(rv_["a"]), _known(rv_["b"])
                    if ka_ is not None and kb_ is not None:
                        nv[l_] = int((ka_ == kb_) == (rv_["bin"] == "Eq"))
                        nv.pop(("a", l_), None)
                        continue
                if "un" in rv_ and rv_["un"] == "Not":
                    a_ = rv_["a"].get("copy") or rv_["a"].get("move")
                    if a_ is not None and not a_["proj"] and a_["ty"] == "bool" and nv.get(a_["l"]) in (0, 1, True, False):
                        nv[l_] = 1 - int(nv[a_["l"]])
                        nv.pop(("a", l_), None)
                        continue
                if c_ is not None and "value" in c_:
                    nv[l_] = c_["value"]
                else:
                    src_ = None
                    if "use" in rv_:
                        pl_ = rv_["use"].get("copy") or rv_["use"].get("move")
                        if pl_ is not None and not pl_["proj"]:
                            src_ = pl_["l"]
                    if src_ is not None and src_ in nv:
                        nv[l_] = nv[src_]
                    else:
                        nv.pop(l_, None)
                    if src_ is not None:
                        nv[("a", l_)] = nv.get(("a", src_), src_)
                    else:
                        nv.pop(("a", l_), None)
        tk_ = body.blocks[bb]["term"]
        if tk_["k"] == "call" and not tk_["dst"]["proj"]:
            if nv is None:
                nv = dict(vals)
            # remember which call produced the value held by this local on this path
            nv[tk_["dst"]["l"]] = ("callres", bb)
            nv.pop(("a", tk_["dst"]["l"]), None)
            fn_ = (tk_.get("func") or {}).get("const", {}).get("fn") or {}
            if (fn_.get("path") or "").endswith("discriminant_value") and tk_["args"]:
                # `discriminant_value(&x)` of a value built on this path
                ap_ = tk_["args"][0].get("move") or tk_["args"][0].get("copy")
                if ap_ is not None and not ap_["proj"]:
                    rr_ = nv.get(("ref", ap_["l"]))
                    tv_ = nv.get(rr_[0]) if rr_ is not None and not rr_[1] else None
                    dv_ = _discr_value(body, tv_)
                    if dv_ is not None:
                        nv[tk_["dst"]["l"]] = dv_
        if nv is not None:
            vals = nv
        if count > max_paths * 50:
            leaves.append({"end": bb, "kind": "limit", "marked": False, "cons": cons, "path": path})
            break
        if mark_pred(body, bb):
            marked = True
        if stop_pred is not None and stop_pred(body, bb):
            leaves.append({"end": bb, "kind": "stop", "marked": marked, "cons": cons, "path": path})
            continue
        succ = body.succ[bb]
        if not succ:
            leaves.append({"end": bb, "kind": body.blocks[bb]["term"]["k"], "marked": marked, "cons": cons, "path": path})
            if len(leaves) > max_paths:
                break
            continue
        si = body.switch_info(bb) if bb in body.switches else None
        key = None
        if si is not None and si["enum"]:
            for alt in phi_alts(si["subject"]):
                root, names = chain(alt)
                tag = root_is(root)
                if tag:
                    # several tracked values: root_is may return a tag that keeps their constraints apart
                    key = tuple(names) if tag is True else (tag,) + tuple(names)
                    break
        if key is None and si is not None and switch_hook is not None:
            si_h = si
            on_ = body.switches[bb]["on"]
            pl_ = on_.get("copy") or on_.get("move")
            if pl_ is not None and not pl_["proj"]:
                cv_ = vals.get(pl_["l"])
                if isinstance(cv_, tuple) and cv_ and cv_[0] == "callres":
                    # on this path the tested local holds the result of that particular call
                    si_h = dict(si)
                    si_h["subject"] = body.call_term(cv_[1])
            si_h = dict(si_h)
            si_h["path"] = path
            hk = switch_hook(body, bb, si_h)
            if hk is not None:
                hkey, hedges = hk
                for lab, tgt in hedges.items():
                    if tgt in path:
                        continue
                    prev = cons.get(hkey)
                    if prev is not None and prev != lab:
                        continue
                    c2 = dict(cons)
                    c2[hkey] = lab
                    stack.append((tgt, marked, c2, path + [tgt], vals))
                continue
        known = None
        if bb in body.switches and key is None:
            on_ = body.switches[bb]["on"]
            pl_ = on_.get("copy") or on_.get("move")
            if pl_ is not None and not pl_["proj"] and pl_["l"] in vals and not isinstance(vals[pl_["l"]], tuple):
                known = vals[pl_["l"]]
            elif pl_ is not None and not pl_["proj"] and pl_.get("ty") == "bool":
                # a copy of a boolean that was already tested on this path (`let dup = ..; if dup {..} .. if dup || ..`)
                ra_ = vals.get(("a", pl_["l"]))
                if ra_ is not None and ra_ in vals and not isinstance(vals[ra_], tuple):
                    known = vals[ra_]
        if known is None and bb in body.switches and key is None and not (si is not None and switch_hook is not None and False):
            # remember the outcome of a test on a plain boolean local for later tests of the same local
            on_ = body.switches[bb]["on"]
            pl_ = on_.get("copy") or on_.get("move")
            if pl_ is not None and not pl_["proj"] and pl_["ty"] == "bool":
                root_ = vals.get(("a", pl_["l"]), pl_["l"])
                arms_ = body.switches[bb]["arms"]
                done_ = False
                if len(arms_) == 1:
                    v0, b0 = arms_[0]
                    ow_ = body.switches[bb]["otherwise"]
                    for (val_, tgt_) in ((v0, b0), (1 - v0, ow_)):
                        if tgt_ in path:
                            continue
                        v2 = dict(vals)
                        v2[root_] = val_
                        v2[pl_["l"]] = val_
                        stack.append((tgt_, marked, cons, path + [tgt_], v2))
                    done_ = True
                if done_:
                    continue
        if known is not None:
            tgt = None
            for v_, b_ in body.switches[bb]["arms"]:
                if v_ == known:
                    tgt = b_
            if tgt is None:
                tgt = body.switches[bb]["otherwise"]
            if tgt not in path:
                stack.append((tgt, marked, cons, path + [tgt], vals))
            continue
        if key is not None:
            explicit = set(k for k in si["edges"])
            for lab, tgt in si["edges"].items():
                if tgt in path:
                    continue
                prev = cons.get(key)
                if isinstance(prev, str) and prev != lab:
                    continue  # infeasible
                if isinstance(prev, tuple) and lab in prev[1]:
                    continue
                c2 = dict(cons)
                c2[key] = lab
                stack.append((tgt, marked, c2, path + [tgt], vals))
            ow = si["otherwise"]
            if ow not in si["edges"].values() and body.blocks[ow]["term"]["k"] != "unreachable" and ow not in path:
                c2 = dict(cons)
                prev = cons.get(key)
                if isinstance(prev, str):
                    if prev not in explicit:
                        stack.append((ow, marked, c2, path + [ow], vals))
                else:
                    ex = set(explicit)
                    if isinstance(prev, tuple):
                        ex |= set(prev[1])
                    c2[key] = ("not", frozenset(ex))
                    stack.append((ow, marked, c2, path + [ow], vals))
        else:
            for tgt, _ in succ:
                if tgt in path:
                    continue
                stack.append((tgt, marked, cons, path + [tgt], vals))
    return leaves


# ----------------------------------------------------------------------------------------------
# error-variant summaries: which `Error` variants (two levels) a function may construct and return

ERR = "Error"


def _agg_variants(t, out):
    """collect Error::X / Error::X(Y::Z) aggregates inside term t"""
    for x in walk(t):
        if x[0] == "agg" and x[1] == "adt" and x[2] == ERR and x[3]:
            inner = "*"
            if x[5]:
                a = x[5][0]
                alts = phi_alts(a)
                names = set()
                for al in alts:
                    if isinstance(al, tuple) and al[0] == "agg" and al[1] == "adt" and al[3]:
                        names.add(al[3])
                    else:
                        names.add("*")
                for n in names:
                    out.add("%s.%s" % (x[3], n))
                continue
            out.add(x[3])


def own_error_variants(body):
    out = set()
    # variant constructors used as functions, e.g. `.map_err(Error::Transport)`
    for c in body.calls.values():
        if c.bb not in body.reachable:
            continue
        for a in list(c.args) + [c.func_op]:
            fn = a.get("const", {}).get("fn") if "const" in a else None
            if fn and fn["path"].startswith(ERR + "::") and fn["path"].count("::") == 1:
                out.add("%s.*" % fn["path"].split("::")[1])
    for bb, j, s in body.assigns():
        if bb not in body.reachable:
            continue
        rv = s["rv"]
        if "agg" in rv and rv["agg"].get("adt") == ERR:
            t = body.rvalue_term(rv)
            _agg_variants(t, out)
    return out


_RES_RE = re.compile(r"core::result::Result<core::convert::Infallible, (.*)>$")


def conversion_impls(f, src_ty):
    """bodies of `impl From<src_ty> for Error<E>` / PubError"""
    out = []
    for im in f.impls:
        if im["trait"] == "core::convert::From" and (im["self_ty"].startswith("Error<") or im["self_ty"].startswith("PubError<")):
            m = im["methods"].get("from")
            if m and m in f.bodies:
                b = f.bodies[m]
                # first parameter type
                if b.arg_count >= 1 and b.locals[1]["ty"].split("<")[0] == src_ty.split("<")[0]:
                    out.append(b)
    return out


def error_variants(f, body_name, _memo=None, _stack=None):
    """over-approximate set of two-level Error variants (e.g. 'Transport.*', 'Peer.InvalidPacket',
    'WriteZero') that function `body_name` (and its local callees) can construct."""
    if _memo is None:
        _memo = f.__dict__.setdefault("_errvars", {})
    if body_name in _memo:
        return _memo[body_name]
    if _stack is None:
        _stack = set()
    if body_name in _stack:
        return set()
    _stack.add(body_name)
    b = f.bodies[body_name]
    out = set(own_error_variants(b))
    for c in b.calls.values():
        if c.bb not in b.reachable:
            continue
        # conversions performed by `?` / `.into()`
        src = None
        if c.is_("core::ops::FromResidual::from_residual") and len(c.gargs) >= 2:
            m = _RES_RE.match(c.gargs[1])
            if m:
                src = m.group(1)
        elif c.is_("core::convert::Into::into", "core::convert::From::from") and len(c.gargs) >= 2:
            if c.gargs[1].startswith("Error<") or c.gargs[0].startswith("Error<"):
                src = c.gargs[0] if c.gargs[1].startswith("Error<") else c.gargs[1]
        if src and not src.startswith("Error<"):
            for cb in conversion_impls(f, src):
                out |= error_variants(f, cb.name, _memo, _stack)
        for t in f.call_targets(c):
            tb = f.bodies[t]
            # only functions whose result can carry an Error are relevant; over-approximate with all
            out |= error_variants(f, t, _memo, _stack)
    # closures / coroutine of this function
    for t in f.callgraph().get(body_name, ()):
        if f.bodies[t].parent == body_name:
            out |= error_variants(f, t, _memo, _stack)
    _stack.discard(body_name)
    _memo[body_name] = out
    return out


def refine(variants, cons, err_key):
    """filter a set of two-level variants by path constraints.
    err_key: the names-tuple at which the Error value's discriminant is switched,
    e.g. ('@Err', '0')."""
    lvl1 = cons.get(err_key)
    res = set()
    for v in variants:
        a, _, b = v.partition(".")
        if isinstance(lvl1, str) and a != lvl1:
            continue
        if isinstance(lvl1, tuple) and a in lvl1[1]:
            continue
        k2 = err_key + ("@" + a, "0")
        lvl2 = cons.get(k2)
        if b and lvl2 is not None:
            if isinstance(lvl2, str):
                if b != "*" and b != lvl2:
                    continue
                v = "%s.%s" % (a, lvl2)
            elif isinstance(lvl2, tuple):
                if b != "*" and b in lvl2[1]:
                    continue
                if b == "*":
                    v = "%s.!%s" % (a, "|".join(sorted(lvl2[1])))
        res.add(v)
    return res


def paths_to(body, start_bb, target_bb, max_paths=4000):
    """all feasible (constant-propagated) acyclic paths from start_bb to target_bb"""
    leaves = explore(body, start_bb, lambda t: False, lambda b, bb: False, max_paths=max_paths,
                     stop_pred=lambda b, bb: bb == target_bb)
    out = []
    overflow = False
    for l in leaves:
        if l["kind"] == "limit":
            overflow = True
        if l["kind"] == "stop":
            out.append(l["path"])
    return out, overflow


def every_path_passes(body, start_bb, target_bb, via_edges=(), via_blocks=()):
    """path-sensitive must-pass: (ok, offending path | None, number of paths)"""
    ps, overflow = paths_to(body, start_bb, target_bb)
    if overflow:
        return False, ["<path limit exceeded>"], len(ps)
    ve = set(via_edges)
    vb = set(via_blocks)
    for p in ps:
        hit = any(b in vb for b in p[:-1])
        if not hit:
            for i in range(len(p) - 1):
                if (p[i], p[i + 1]) in ve:
                    hit = True
                    break
        if not hit:
            return False, p, len(ps)
    return True, None, len(ps)


def must_dataflow(body, gen_edges, kill_block):
    """forward must analysis at block granularity.  A fact is generated on `gen_edges` ((src,dst) pairs) and
    killed by the terminator/statements of blocks with kill_block(bb) true.  Returns IN: bb -> bool
    (fact holds on entry of bb on every path)."""
    gen = set(gen_edges)
    IN = {b: True for b in body.reachable}
    IN[0] = False
    order = sorted(body.reachable)
    changed = True
    while changed:
        changed = False
        for b in order:
            if b == 0:
                continue
            preds = [p for p in body.pred[b] if p in body.reachable]
            val = bool(preds)
            for p in preds:
                if (p, b) in gen:
                    e = True
                else:
                    e = IN[p] and not kill_block(p)
                val = val and e
            if val != IN[b]:
                IN[b] = val
                changed = True
    return IN


def value_on_path(body, path, local=0, upto=None):
    """term of `local` at the end of `path` (a list of blocks), following whole-local moves / copies (and `!x`) back
    along the path (so that `tmp = Err(..); ret = move tmp; _0 = move ret` reads Err(..) on that path); deeper
    operands are the usual flow-insensitive terms"""
    seq = []   # (local, kind, payload)
    for pos, bb in enumerate(path):
        if upto is not None and pos > upto:
            break
        for j, s in enumerate(body.blocks[bb]["stmts"]):
            if s["k"] == "assign" and not s["dst"]["proj"]:
                seq.append((s["dst"]["l"], "stmt", s["rv"]))
        c = body.calls.get(bb)
        if c is not None and not c.dst["proj"]:
            seq.append((c.dst["l"], "call", bb))

    def val(cur, i, hops):
        while i >= 0:
            l, kind, pay = seq[i]
            if l != cur:
                i -= 1
                continue
            if kind == "call":
                cobj = body.calls.get(pay)
                if cobj is not None and cobj.path == "core::ops::FromResidual::from_residual" and cobj.args and hops < 24:
                    # `?` on a value that is Err(e) on this path: Err(From::from(e))
                    apl = cobj.args[0].get("move") or cobj.args[0].get("copy")
                    if apl is not None and not apl["proj"]:
                        a = val(apl["l"], i - 1, hops + 1)
                        if isinstance(a, tuple) and a[0] == "agg" and a[1] == "adt" and a[2] == "core::result::Result" and a[3] == "Err" and a[5]:
                            conv = ("call", pay, "core::convert::From::from", [a[5][0]], "core::convert::From::from")
                            return ("agg", "adt", "core::result::Result", "Err", ["0"], [conv])
                return body.call_term(pay)
            rv = pay
            if hops < 24:
                if "use" in rv:
                    pl = rv["use"].get("move") or rv["use"].get("copy")
                    if pl is not None and not pl["proj"]:
                        return val(pl["l"], i - 1, hops + 1)
                    # payload of a value built on this path: `(x as V).0` with x = V(..)
                    if pl is not None and len(pl["proj"]) == 2 and isinstance(pl["proj"][0], dict) and "downcast" in pl["proj"][0] \
                            and isinstance(pl["proj"][1], dict) and pl["proj"][1].get("f") == 0:
                        base = val(pl["l"], i - 1, hops + 1)
                        if isinstance(base, tuple) and base[0] == "agg" and base[1] == "adt" and base[3] == pl["proj"][0]["downcast"] and base[5]:
                            return base[5][0]
                    # component of a tuple / struct built on this path (closure arguments travel as a tuple)
                    if pl is not None and len(pl["proj"]) == 1 and isinstance(pl["proj"][0], dict) and "f" in pl["proj"][0] \
                            and not pl["proj"][0].get("variant"):
                        base = val(pl["l"], i - 1, hops + 1)
                        if isinstance(base, tuple) and base[0] == "agg" and base[1] in ("tuple", "adt") and not base[3]:
                            k_ = pl["proj"][0]["f"]
                            if base[1] == "tuple" and k_ < len(base[5]):
                                return base[5][k_]
                            nm_ = pl["proj"][0].get("name")
                            if base[1] == "adt" and nm_ in base[4]:
                                return base[5][base[4].index(nm_)]
                    # result component of a checked operation computed on this path: `(_t.0)` with _t = Add(a, b)
                    if pl is not None and len(pl["proj"]) == 1 and isinstance(pl["proj"][0], dict) and pl["proj"][0].get("f") == 0 \
                            and not pl["proj"][0].get("variant"):
                        base = val(pl["l"], i - 1, hops + 1)
                        if isinstance(base, tuple) and base[0] == "bin" and base[1].endswith("WithOverflow"):
                            return ("field", base, "0", None, None)
                if "un" in rv and rv["un"] == "Not":
                    pl = rv["a"].get("move") or rv["a"].get("copy")
                    if pl is not None and not pl["proj"]:
                        return ("un", "Not", val(pl["l"], i - 1, hops + 1))
                if ("bin" in rv or "cast" in rv) and hops < 24:
                    # small expression trees (flag bytes): operands that are plain locals are read along the path
                    def opv(o_):
                        pl_ = o_.get("move") or o_.get("copy")
                        if pl_ is not None and not pl_["proj"]:
                            v_ = val(pl_["l"], i - 1, hops + 1)
                            if v_ is not None:
                                return v_
                        return body.operand_term(o_)
                    if "bin" in rv:
                        return ("bin", rv["bin"], opv(rv["a"]), opv(rv["b"]))
                    return ("cast", rv["cast"], opv(rv["a"]), rv["to"])
                if "agg" in rv and rv["agg"]["kind"] in ("adt", "tuple") and rv["ops"]:
                    # operands that are plain locals are read along the path as well
                    t = body.rvalue_term(rv)
                    ops2 = []
                    for k, op in enumerate(rv["ops"]):
                        pl = op.get("move") or op.get("copy")
                        if pl is not None and not pl["proj"]:
                            v2 = val(pl["l"], i - 1, hops + 1)
                            ops2.append(v2 if v2 is not None else t[5][k])
                        elif pl is not None and len(pl["proj"]) == 2 and isinstance(pl["proj"][0], dict) and "downcast" in pl["proj"][0] \
                                and isinstance(pl["proj"][1], dict) and pl["proj"][1].get("f") == 0:
                            # the payload of a value built on this path (`Err((r as Err).0)` re-wrapping r's error)
                            base = val(pl["l"], i - 1, hops + 1)
                            if isinstance(base, tuple) and base[0] == "agg" and base[1] == "adt" and base[3] == pl["proj"][0]["downcast"] and base[5]:
                                ops2.append(base[5][0])
                            else:
                                ops2.append(t[5][k])
                        else:
                            ops2.append(t[5][k])
                    return (t[0], t[1], t[2], t[3], t[4], ops2)
            return body.rvalue_term(rv)
        return body.local_term(cur) if hops else None

    return val(local, len(seq) - 1, 0)
