"""Enumeration of panic-capable sites (Assert terminators and calls to panicking library functions) over a set of
bodies, with the dominating comparison guards of each site in a canonical form."""
from .core import chain, peel, phi_alts, is_call, walk, show

PANICKY = {
    "unwrap": "Option/Result::unwrap", "expect": "Option/Result::expect", "unwrap_err": "unwrap_err", "expect_err": "expect_err",
    "index": "slice indexing", "index_mut": "slice indexing", "copy_from_slice": "copy_from_slice (length mismatch panics)",
    "copy_within": "copy_within (range check)", "panic_fmt": "explicit panic", "panic": "explicit panic",
    "panic_cold_explicit": "explicit panic", "swap_remove": "Vec::swap_remove (index check)", "remove": "Vec::remove (index check)",
    "split_at": "split_at", "split_at_mut": "split_at_mut", "insert": "Vec::insert", "unreachable_display": "unreachable!",
    "from_str": None,
}


def _plain(t, depth=0):
    """named scalar constants read as their value (so that `part > LAST_PART_MAX` and `part > 0x0F` compare equal)"""
    if depth > 40 or not isinstance(t, tuple):
        return t
    if t[0] == "const" and t[2] is not None and t[3]:
        return ("const", t[1], t[2], None, None)
    out = []
    for c in t:
        if isinstance(c, tuple):
            out.append(_plain(c, depth + 1))
        elif isinstance(c, list):
            out.append([_plain(e, depth + 1) if isinstance(e, tuple) else e for e in c])
        else:
            out.append(c)
    return tuple(out)


_show = show


def show(t, depth=0):
    return _show(_plain(t), depth)


def short_fn(b):
    n = b.name
    for pre in ("mqtt_client::session::", "packets::_::_serde::", "mqtt_client::"):
        n = n.replace(pre, "")
    return n


def canon_cmp(t):
    """canonical (op, lhs, rhs) with op in <, <=, ==, != of a comparison term, or None"""
    t = peel(t)
    if isinstance(t, tuple) and t[0] == "un" and t[1] == "Not":
        c = canon_cmp(t[2])
        if c is None:
            return None
        op, a, b = c
        neg = {"<": (">=",), "<=": (">",), "==": ("!=",), "!=": ("==",)}
        if op == "<":
            return ("<=", b, a)
        if op == "<=":
            return ("<", b, a)
        return ("!=" if op == "==" else "==", a, b)
    if not (isinstance(t, tuple) and t[0] == "bin" and t[1] in ("Lt", "Le", "Gt", "Ge", "Eq", "Ne")):
        if is_call(t, "is_empty") and t[3]:
            return ("==", "len(%s)" % show(peel(t[3][0])), "0")
        if is_call(t, "PartialOrd::lt", "PartialOrd::le", "PartialOrd::gt", "PartialOrd::ge") and len(t[3]) == 2:
            op = {"lt": "Lt", "le": "Le", "gt": "Gt", "ge": "Ge"}[(t[4] or "").rsplit("::", 1)[-1]]
            return canon_cmp(("bin", op, peel(t[3][0]), peel(t[3][1])))
        return None
    op = t[1]
    a, b = show(peel(t[2])), show(peel(t[3]))
    if op == "Gt":
        return ("<", b, a)
    if op == "Ge":
        return ("<=", b, a)
    if op == "Lt":
        return ("<", a, b)
    if op == "Le":
        return ("<=", a, b)
    if op == "Eq":
        return ("==",) + tuple(sorted((a, b)))
    return ("!=",) + tuple(sorted((a, b)))


def negate(c):
    op, a, b = c
    if op == "<":
        return ("<=", b, a)
    if op == "<=":
        return ("<", b, a)
    if op == "==":
        return ("!=", a, b)
    return ("==", a, b)


def guards(body, bb):
    """comparisons known to hold at block bb: canonical strings 'a < b' of every comparison switch whose edge dominates bb"""
    out = []
    for sbb in body.switches:
        if sbb not in body.reachable:
            continue
        si = body.switch_info(sbb)
        c = canon_cmp(si["subject"])
        if c is None:
            continue
        for lab in (True, False):
            tgt = si["edges"].get(lab)
            if tgt is None:
                continue
            if body.must_pass([0], [bb], via_edges=[(sbb, tgt)])[0] and bb != sbb:
                cc = c if lab else negate(c)
                out.append("%s %s %s" % (cc[1], cc[0], cc[2]))
    # Option/Result edges that dominate (e.g. `let Some(i) = position(..)`)
    for sbb in body.switches:
        if sbb not in body.reachable:
            continue
        si = body.switch_info(sbb)
        if si["enum"] in ("core::option::Option", "core::result::Result"):
            for lab, tgt in si["edges"].items():
                if isinstance(lab, str) and body.must_pass([0], [bb], via_edges=[(sbb, tgt)])[0] and bb != sbb:
                    out.append("%s is %s" % (show(peel(si["subject"]))[:80], lab))
    return sorted(set(out))


def enumerate_sites(f, bodies):
    """list of dict(fn, kind, what, ordinal key, span, body, bb, const (assert condition constant-true), guards)"""
    from . import valueset
    sites = []
    for b in bodies:
        cnt = {}
        items = []
        for bb in sorted(b.asserts):
            if bb in b.reachable:
                t = b.blocks[bb]["term"]
                items.append((bb, "assert", t["msg"].replace("Overflow:", "overflow-"), t))
        for c in sorted(b.calls.values(), key=lambda c: c.bb):
            if c.bb in b.reachable and c.path:
                nm = c.path.rsplit("::", 1)[-1].split("::<")[0]
                if nm in PANICKY and PANICKY[nm] and not c.path.startswith("packets::_::_serde") and not c.path.startswith("serde::"):
                    if nm in ("index", "index_mut") and "Index" not in c.path:
                        continue
                    if nm in ("remove", "insert", "swap_remove") and "VecInner" not in c.path and "Vec" not in c.path:
                        continue
                    items.append((c.bb, "call", nm, c))
        for (bb, kind, what, obj) in items:
            k = "%s:%s" % (kind, what)
            cnt[k] = cnt.get(k, 0) + 1
            const_ok = False
            detail = ""
            if kind == "assert":
                cond = b.operand_term(obj["cond"])
                vs = valueset.evaluate(f, cond)
                # comparison of constants (shift amount < bit width etc.)
                cc = peel(cond)
                if cc[0] == "bin" and cc[1] in ("Lt", "Le") and cc[2][0] == "const" and cc[3][0] == "const" and cc[2][2] is not None and cc[3][2] is not None:
                    const_ok = (cc[2][2] < cc[3][2]) if cc[1] == "Lt" else (cc[2][2] <= cc[3][2])
                    const_ok = const_ok == obj["expected"]
                detail = show(cond)[:160]
            else:
                detail = ", ".join(show(b.operand_term(a))[:90] for a in obj.args[:3])
            sites.append({"fn": short_fn(b), "key": "%s/%s#%d" % (short_fn(b), k, cnt[k]), "kind": kind, "what": what,
                          "span": b.blocks[bb]["span"], "body": b, "bb": bb, "const": const_ok, "detail": detail,
                          "exp": b.blocks[bb].get("exp")})
    return sites


# ----------------------------------------------------------------------------------------------
# structured facts that hold at a block (from dominating edges), for automatic discharge


def _positive(x, out, depth=0):
    """x is known to be Some / Ok: derive comparisons from the call that produced it"""
    if depth > 6:
        return
    for a in phi_alts(peel(x)):
        a = peel(a)
        if not isinstance(a, tuple):
            continue
        if a[0] in ("ok",):
            _positive(a[1], out, depth + 1)
        elif is_call(a, "Option::<T>::ok_or", "Option::<T>::ok_or_else", "Result::<T, E>::map_err", "Option::<T>::copied",
                     "Option::<T>::cloned", "Result::<T, E>::ok") and a[3]:
            _positive(a[3][0], out, depth + 1)
        elif is_call(a, "core::slice::<impl [T]>::get", "core::slice::<impl [T]>::get_mut") and len(a[3]) == 2:
            idx = peel(a[3][1])
            if not (idx[0] == "agg"):
                out.append(("lt", show(idx), "len(%s)" % show(peel(a[3][0])), True))
        elif is_call(a, "checked_sub") and len(a[3]) == 2:
            out.append(("le", show(peel(a[3][1])), show(peel(a[3][0])), False))


def facts(body, bb):
    """list of (op, lhs, rhs, rhs_is_len) with op in lt/le that hold whenever block bb is reached"""
    out = []
    for sbb in body.switches:
        if sbb not in body.reachable or sbb == bb:
            continue
        si = body.switch_info(sbb)
        c = canon_cmp(si["subject"])
        for lab, tgt in si["edges"].items():
            if tgt is None or not body.must_pass([0], [bb], via_edges=[(sbb, tgt)])[0]:
                continue
            if c is not None and lab in (True, False):
                cc = c if lab else negate(c)
                if cc[0] in ("<", "<="):
                    out.append(("lt" if cc[0] == "<" else "le", cc[1], cc[2], cc[2].startswith("len(") or "::len(" in cc[2]))
                elif cc[0] == "!=":
                    out.append(("ne", cc[1], cc[2], False))
            if lab in ("Some", "Ok", "Continue"):
                subj = si["subject"]
                if lab == "Continue":
                    for alt in phi_alts(subj):
                        if is_call(alt, "core::ops::Try::branch") and alt[3]:
                            _positive(alt[3][0], out)
                else:
                    _positive(subj, out)
    return out
