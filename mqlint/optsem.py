"""Evaluation of terms and small functions under an assumption about an Option-valued place ("packet_length is None",
"packet_length is Some(L)").  This gives one reading to the many spellings of the same test:

    match x { Some(v) => p(v), None => false }      x.is_some_and(|v| p(v))      x.map(|v| p(v)).unwrap_or(false)
    x.map_or(false, |v| p(v))                       if let Some(v) = x { p(v) } else { false }

Only the documented semantics of the std combinators is used; closures are read from their MIR bodies."""
from .core import chain, peel, phi_alts, is_call, walk, show, subst
from . import paths

OPT = "core::option::Option"


def payload_term(x):
    return ("field", ("downcast", x, "Some"), "0", OPT, "Some")


class Assume:
    """x (identified by `match(term) -> bool` on the peeled term) is None or Some"""

    def __init__(self, match, state):
        self.match = match
        self.state = state


def _state(t, assumes):
    """'None' / 'Some' / None for an Option-valued term t"""
    x = peel(t)
    for _ in range(6):
        if is_call(x, "Option::<T>::as_ref", "Option::<T>::as_mut", "Option::<T>::copied", "Option::<&T>::copied",
                   "Option::<&T>::cloned", "Option::<T>::as_deref", "core::clone::Clone::clone") and x[3]:
            x = peel(x[3][0])
        else:
            break
    if isinstance(x, tuple) and x[0] == "agg" and x[1] == "adt" and x[2] == OPT:
        return x[3], x, (x[5][0] if x[5] else None)
    for a in assumes:
        if a.match(x):
            return a.state, x, payload_term(x)
    return None, x, None


def _closure(body, clos, arg):
    """result term of closure term `clos` applied to `arg`"""
    cdef, env = None, {}
    for x in phi_alts(peel(clos)):
        if x[0] == "agg" and x[1] == "closure":
            cdef = x[2]
            env = dict(zip(x[4], x[5]))
        elif x[0] == "const" and x[4] and str(x[4]).startswith("closure:"):
            cdef = x[4][len("closure:"):]
    cb = body.facts.bodies.get(cdef) if cdef else None
    if cb is None or cb.arg_count < 2:
        return None
    mapping = {cb.param_name(2): arg}
    mapping.update(env)
    return subst(cb.local_term(0), mapping)


FALSE = ("const", "bool", 0, None, None)
TRUE = ("const", "bool", 1, None, None)


def simplify(body, t, assumes, depth=0):
    """t with the Option combinators resolved under the assumptions"""
    if depth > 12 or not isinstance(t, tuple):
        return t
    p = peel(t)
    if not isinstance(p, tuple):
        return t
    k = p[0]
    if k == "phi":
        alts = []
        for a in p[1]:
            s = simplify(body, a, assumes, depth + 1)
            if s not in alts:
                alts.append(s)
        return alts[0] if len(alts) == 1 else ("phi", alts)
    if k == "un":
        inner = simplify(body, p[2], assumes, depth + 1)
        if p[1] == "Not" and inner[0] == "const" and inner[2] in (0, 1):
            return TRUE if inner[2] == 0 else FALSE
        return ("un", p[1], inner)
    if k == "bin":
        return ("bin", p[1], simplify(body, p[2], assumes, depth + 1), simplify(body, p[3], assumes, depth + 1))
    if k != "call" or not p[3]:
        return p
    recv = simplify(body, p[3][0], assumes, depth + 1)
    st, x, pay = _state(recv, assumes)
    if is_call(p, "Option::<T>::is_none"):
        return p if st is None else (TRUE if st == "None" else FALSE)
    if is_call(p, "Option::<T>::is_some"):
        return p if st is None else (TRUE if st == "Some" else FALSE)
    if is_call(p, "Option::<T>::is_some_and") and len(p[3]) == 2 and st is not None:
        if st == "None":
            return FALSE
        r = _closure(body, p[3][1], pay)
        return simplify(body, r, assumes, depth + 1) if r is not None else p
    if is_call(p, "Option::<T>::is_none_or") and len(p[3]) == 2 and st is not None:
        if st == "None":
            return TRUE
        r = _closure(body, p[3][1], pay)
        return simplify(body, r, assumes, depth + 1) if r is not None else p
    if is_call(p, "Option::<T>::map_or") and len(p[3]) == 3 and st is not None:
        if st == "None":
            return simplify(body, p[3][1], assumes, depth + 1)
        r = _closure(body, p[3][2], pay)
        return simplify(body, r, assumes, depth + 1) if r is not None else p
    if is_call(p, "Option::<T>::unwrap_or") and len(p[3]) == 2 and st is not None:
        if st == "None":
            return simplify(body, p[3][1], assumes, depth + 1)
        return pay
    if is_call(p, "Option::<T>::unwrap_or_default") and st == "Some":
        return pay
    if is_call(p, "Option::<T>::map") and len(p[3]) == 2 and st is not None:
        if st == "None":
            return ("agg", "adt", OPT, "None", [], [])
        r = _closure(body, p[3][1], pay)
        if r is None:
            return p
        return ("agg", "adt", OPT, "Some", ["0"], [simplify(body, r, assumes, depth + 1)])
    if is_call(p, "Option::<T>::and_then") and len(p[3]) == 2 and st is not None:
        if st == "None":
            return ("agg", "adt", OPT, "None", [], [])
        r = _closure(body, p[3][1], pay)
        return simplify(body, r, assumes, depth + 1) if r is not None else p
    if is_call(p, "Option::<T>::or") and len(p[3]) == 2 and st is not None:
        return recv if st == "Some" else simplify(body, p[3][1], assumes, depth + 1)
    return p


def returns_under(body, root_is, names, state, extra_assumes=()):
    """set of (simplified) values function `body` returns when the Option at chain (root_is(root), names) is `state`.
    Handles both the match / if-let form (path constraints) and the combinator form (simplify)."""
    key = tuple(names)

    def m(x):
        r, n = chain(x)
        return bool(root_is(r)) and n == list(names)
    assumes = [Assume(m, state)] + list(extra_assumes)
    out = []
    for lf in paths.explore(body, 0, root_is, lambda b, bb: False, init_constraints={key: state}):
        if lf["kind"] == "limit":
            return None
        if lf["kind"] != "return":
            continue
        v = paths.value_on_path(body, lf["path"], 0)
        if v is None:
            continue
        for a in phi_alts(v):
            s = simplify(body, a, assumes)
            if s not in out:
                out.append(s)
    return out


def _field_assume(field, state):
    """assumption on `<anything>.field` (an Option-typed field identified by its name at the end of the chain)"""
    def m(x):
        r, n = chain(x)
        return (bool(n) and n[-1] == field) or (not n and r == ("param", field))
    return Assume(m, state)


def decide(body, field_states, max_paths=4000, mark_blocks=()):
    """Outcomes of a loop-free function under assumptions {option field name: 'None' | 'Some'}:
    list of dict(value=simplified return term, true=[tests that held], false=[tests that failed]) -- one per feasible path.
    Tests whose outcome follows from the assumptions are resolved (only the feasible edge is explored)."""
    assumes = [_field_assume(k, v) for k, v in field_states.items()]
    init = {}
    for bb in body.switches:
        si = body.switch_info(bb)
        if si["enum"] != OPT:
            continue
        for alt in phi_alts(si["subject"]):
            r, n = chain(alt)
            if n and n[-1] in field_states and r[0] == "param":
                init[("o",) + tuple(n)] = field_states[n[-1]]
            elif not n and r[0] == "param" and r[1] in field_states:
                init[("o",)] = field_states[r[1]]

    def root_is(r):
        return "o" if isinstance(r, tuple) and r[0] == "param" else False

    seen_tests = {}

    def hook(b, bb, si):
        on = b.switches[bb]["on"]
        pl = on.get("move") or on.get("copy")
        if pl is None or pl.get("ty") != "bool":
            return None
        subj_t = si["subject"]
        if si.get("path") and not pl["proj"]:
            # the value tested on *this* path (a local may hold `false` on one path and a comparison on another)
            pv = paths.value_on_path(b, si["path"], pl["l"])
            if pv is not None:
                subj_t = pv
        subj = simplify(b, subj_t, assumes)
        t, fl = si["edges"].get(True), si["edges"].get(False)
        if subj[0] == "const" and subj[2] in (0, 1):
            tgt = t if subj[2] == 1 else fl
            return (("k", bb), {bool(subj[2]): tgt}) if tgt is not None else None
        if t is None or fl is None:
            return None
        seen_tests[show(subj)] = subj
        return (("t", show(subj)), {True: t, False: fl})

    out = []
    mb = set(mark_blocks)
    for lf in paths.explore(body, 0, root_is, lambda b, x: x in mb, init_constraints=init, switch_hook=hook, max_paths=max_paths):
        if lf["kind"] == "limit":
            return None
        if lf["kind"] != "return":
            continue
        v = paths.value_on_path(body, lf["path"], 0)
        vals = []
        for a in (phi_alts(v) if v is not None else []):
            s = simplify(body, a, assumes)
            if s not in vals:
                vals.append(s)
        tr = [k[1] for k, lab in lf["cons"].items() if isinstance(k, tuple) and k and k[0] == "t" and lab is True]
        fa = [k[1] for k, lab in lf["cons"].items() if isinstance(k, tuple) and k and k[0] == "t" and lab is False]
        out.append({"values": vals, "true": [seen_tests.get(x, x) for x in tr], "false": [seen_tests.get(x, x) for x in fa], "path": lf["path"],
                    "marked": lf["marked"]})
    return out
