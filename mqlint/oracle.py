"""Oracle tables transcribed from the MQTT Version 5.0 OASIS Standard (07 March 2019).  Every row cites its
section.  Where the standard leaves the client freedom, the cell is a don't-care (None) so that no check can
demand more than the property states."""

# 2.1.2 MQTT Control Packet type (Table 2-1)
PACKET_TYPE = {
    "Connect": 1, "ConnAck": 2, "Publish": 3, "PubAck": 4, "PubRec": 5, "PubRel": 6, "PubComp": 7,
    "Subscribe": 8, "SubAck": 9, "Unsubscribe": 10, "UnsubAck": 11, "PingReq": 12, "PingResp": 13,
    "Disconnect": 14, "Auth": 15,
}
CLIENT_SENT = ("Connect", "Publish", "PubAck", "PubRec", "PubRel", "PubComp", "Subscribe", "Unsubscribe", "PingReq",
               "Disconnect")
SERVER_SENT = ("ConnAck", "Publish", "PubAck", "PubRec", "PubRel", "PubComp", "SubAck", "UnsubAck", "PingResp",
               "Disconnect")


# 2.1.3 Flags (Table 2-2): fixed value per type; PUBLISH: DUP(3) QoS(2-1) RETAIN(0), QoS 3 is malformed (3.3.1.2)
def legal_flags(kind):
    if kind == "Publish":
        return set(x for x in range(16) if (x >> 1) & 3 != 3)
    if kind in ("PubRel", "Subscribe", "Unsubscribe"):
        return {0b0010}
    return {0}


# 2.2.2.2 Property (Table 2-4): identifier -> (name, wire type)
# wire types: byte, u16, u32, varint, utf8, binary, utf8pair
PROPERTY = {
    0x01: ("PayloadFormatIndicator", "byte"),
    0x02: ("MessageExpiryInterval", "u32"),
    0x03: ("ContentType", "utf8"),
    0x08: ("ResponseTopic", "utf8"),
    0x09: ("CorrelationData", "binary"),
    0x0B: ("SubscriptionIdentifier", "varint"),
    0x11: ("SessionExpiryInterval", "u32"),
    0x12: ("AssignedClientIdentifier", "utf8"),
    0x13: ("ServerKeepAlive", "u16"),
    0x15: ("AuthenticationMethod", "utf8"),
    0x16: ("AuthenticationData", "binary"),
    0x17: ("RequestProblemInformation", "byte"),
    0x18: ("WillDelayInterval", "u32"),
    0x19: ("RequestResponseInformation", "byte"),
    0x1A: ("ResponseInformation", "utf8"),
    0x1C: ("ServerReference", "utf8"),
    0x1F: ("ReasonString", "utf8"),
    0x21: ("ReceiveMaximum", "u16"),
    0x22: ("TopicAliasMaximum", "u16"),
    0x23: ("TopicAlias", "u16"),
    0x24: ("MaximumQoS", "byte"),
    0x25: ("RetainAvailable", "byte"),
    0x26: ("UserProperty", "utf8pair"),
    0x27: ("MaximumPacketSize", "u32"),
    0x28: ("WildcardSubscriptionAvailable", "byte"),
    0x29: ("SubscriptionIdentifierAvailable", "byte"),
    0x2A: ("SharedSubscriptionAvailable", "byte"),
}
PROPERTY_BY_NAME = {v[0]: (k, v[1]) for k, v in PROPERTY.items()}
WIRE_WIDTH = {"byte": 1, "u16": 2, "u32": 4}

# Table 2-4, column "Packet / Will Properties": which properties a *client* may attach per context.
# PUBLISH 3.3.2.3; Will 3.1.3.2; SUBSCRIBE 3.8.2.1; UNSUBSCRIBE 3.10.2.1; DISCONNECT 3.14.2.2.
# A client MUST NOT send Subscription Identifier in PUBLISH (3.3.4), Server Reference is listed for DISCONNECT in
# Table 2-4 without a client/server restriction in 3.14.2.2.5 ("The Server sends ..."): don't care.
MUST_ACCEPT = {
    "Publish": {"PayloadFormatIndicator", "MessageExpiryInterval", "ContentType", "ResponseTopic", "CorrelationData",
                "TopicAlias", "UserProperty"},
    "Will": {"WillDelayInterval", "PayloadFormatIndicator", "MessageExpiryInterval", "ContentType", "ResponseTopic",
             "CorrelationData", "UserProperty"},
    "Subscribe": {"SubscriptionIdentifier", "UserProperty"},
    "Unsubscribe": {"UserProperty"},
    "Disconnect": {"SessionExpiryInterval", "ReasonString", "UserProperty"},
}
DONT_CARE = {
    "Disconnect": {"ServerReference"},
    "Publish": set(), "Will": set(), "Subscribe": set(), "Unsubscribe": set(),
}

# value restrictions for properties a client can send (must-reject values)
# PayloadFormatIndicator 0|1 (3.3.2.3.2); SubscriptionIdentifier 1..268435455 (3.8.2.1.2); TopicAlias != 0
# (3.3.2.3.4); RequestProblemInformation / RequestResponseInformation 0|1 (3.1.2.11.6-7); MaximumQoS 0|1 (3.2.2.3.4)
VALUE_RULES = {
    "PayloadFormatIndicator": ("le", 1),
    "SubscriptionIdentifier": ("range", 1, 0x0FFFFFFF),
    "TopicAlias": ("nonzero",),
}

# 3.1.2.3 Connect Flags: bit positions
CONNECT_FLAGS = {"clean_start": 1, "will_flag": 2, "will_qos_shift": 3, "will_retain": 5, "password": 6, "user_name": 7}
# 3.8.3.1 Subscription Options
SUB_OPTIONS = {"qos_mask": 0b11, "no_local": 2, "retain_as_published": 3, "retain_handling_shift": 4}
# 3.3.1 PUBLISH fixed header flags
PUBLISH_FLAGS = {"retain": 0, "qos_shift": 1, "dup": 3}

# 4.9 Flow control: packets that return send quota
QUOTA_RETURN = {"PubAck": "always", "PubComp": "always", "PubRec": "failure-only"}
