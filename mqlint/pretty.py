"""Human-readable rendering of the fact file (development aid and --explain output)."""
import json, sys


def place_s(p):
    s = "_%d" % p["l"]
    for e in p["proj"]:
        if e == "deref":
            s = "(*%s)" % s
        elif e == "opaque":
            s = "%s.<opaque>" % s
        elif "f" in e:
            s = "%s.%s" % (s, e["name"] if e["name"] is not None else e["f"])
        elif "downcast" in e:
            s = "(%s as %s)" % (s, e["downcast"])
        elif "index" in e:
            s = "%s[_%d]" % (s, e["index"])
        elif "cidx" in e:
            s = "%s[%s%d]" % (s, "-" if e["from_end"] else "", e["cidx"])
        elif "subslice" in e:
            s = "%s[%d..%s%d]" % (s, e["subslice"][0], "-" if e["from_end"] else "", e["subslice"][1])
    return s


def callee_s(fn):
    a = ("::<" + ", ".join(fn["args"]) + ">") if fn["args"] else ""
    r = (" => " + fn["resolved"]) if fn.get("resolved") else ""
    return fn["path"] + a + r


def op_s(o):
    if "copy" in o:
        return place_s(o["copy"])
    if "move" in o:
        return "move " + place_s(o["move"])
    if "const" in o:
        c = o["const"]
        if "fn" in c:
            return "fn " + callee_s(c["fn"])
        if "value" in c:
            v = "const %s_%s" % (c.get("svalue", c["value"]), c["ty"])
            if "item" in c:
                v += "{%s}" % c["item"]
            return v
        if "item" in c:
            return "const {%s}" % c["item"]
        if "str" in c:
            return "const %r" % c["str"]
        return "const <%s>" % c["ty"]
    return "?"


def rv_s(r):
    if "use" in r:
        return op_s(r["use"])
    if "ref" in r:
        return ("&mut " if r["mut"] else ("&fake " if r.get("fake") else "&")) + place_s(r["ref"])
    if "addr" in r:
        return "&raw " + place_s(r["addr"])
    if "bin" in r:
        return "%s(%s, %s)" % (r["bin"], op_s(r["a"]), op_s(r["b"]))
    if "un" in r:
        return "%s(%s)" % (r["un"], op_s(r["a"]))
    if "cast" in r:
        return "%s as %s (%s)" % (op_s(r["a"]), r["to"], r["cast"])
    if "discr" in r:
        return "discriminant(%s)" % place_s(r["discr"])
    if "agg" in r:
        a = r["agg"]
        k = a["kind"]
        ops = [op_s(o) for o in r["ops"]]
        if k == "adt":
            nm = a["adt"] + ("::" + a["variant"] if a["variant"] else "")
            return "%s { %s }" % (nm, ", ".join("%s: %s" % (f, o) for f, o in zip(a["fields"], ops)))
        if k in ("closure", "coroutine", "coroutine_closure"):
            return "%s %s [%s]" % (k, a["def"], ", ".join("%s: %s" % (f, o) for f, o in zip(a.get("fields", []), ops)))
        return "%s(%s)" % (k, ", ".join(ops))
    if "repeat" in r:
        return "[%s; %s]" % (op_s(r["repeat"]), r["n"])
    return "other(%s)" % r.get("other")


def term_s(t):
    k = t["k"]
    if k == "goto":
        return "goto -> bb%d" % t["t"]
    if k == "switch":
        return "switchInt(%s) -> [%s, otherwise: bb%d]" % (
            op_s(t["on"]), ", ".join("%d: bb%d" % (v, b) for v, b in t["arms"]), t["otherwise"])
    if k == "call":
        return "%s = %s(%s) -> %s" % (place_s(t["dst"]), op_s(t["func"]), ", ".join(op_s(a) for a in t["args"]),
                                      "bb%d" % t["t"] if t["t"] is not None else "!")
    if k == "yield":
        return "yield(%s) -> [resume: bb%d, drop: %s]" % (op_s(t["value"]), t["resume"], t["drop"])
    if k == "drop":
        return "drop(%s) -> bb%d" % (place_s(t["place"]), t["t"])
    if k == "assert":
        return "assert(%s == %s, %s) -> bb%d" % (op_s(t["cond"]), t["expected"], t["msg"], t["t"])
    if k == "false_edge":
        return "falseEdge -> [real: bb%d, imaginary: bb%d]" % (t["real"], t["imaginary"])
    if k == "false_unwind":
        return "falseUnwind -> bb%d" % t["real"]
    return k


def dump_body(name, b, out=sys.stdout, cleanup=False):
    out.write("fn %s  [%s vis=%s async=%s self=%s trait=%s] @ %s\n" % (
        name, b["kind"], b["vis"], b["is_async"], b["self_ty"], b["trait"], b["span"]))
    for i, l in enumerate(b["locals"]):
        out.write("    let _%d: %s%s%s\n" % (i, l["ty"], ("  // " + l["name"]) if l["name"] else "",
                                            ("  closure=" + l["closure"]) if l["closure"] else ""))
    for d in b["debug"]:
        if d["place"]["proj"]:
            out.write("    debug %s => %s\n" % (d["name"], place_s(d["place"])))
    for i, bl in enumerate(b["blocks"]):
        if bl["cleanup"] and not cleanup:
            continue
        out.write("  bb%d%s:\n" % (i, " (cleanup)" if bl["cleanup"] else ""))
        for s in bl["stmts"]:
            if s["k"] == "assign":
                out.write("    %s = %s    // %s%s\n" % (place_s(s["dst"]), rv_s(s["rv"]), s["span"],
                                                       (" " + s["exp"]) if s.get("exp") else ""))
            elif s["k"] == "set_discr":
                out.write("    discriminant(%s) = %s\n" % (place_s(s["dst"]), s["variant"]))
        t = bl["term"]
        out.write("    %s    // %s%s\n" % (term_s(t), bl["span"], (" " + bl["exp"]) if bl.get("exp") else ""))


if __name__ == "__main__":
    d = json.load(open(sys.argv[1]))
    pats = sys.argv[2:]
    for name, b in d["bodies"].items():
        if not pats or any(p in name for p in pats):
            dump_body(name, b)
            print()
