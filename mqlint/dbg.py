"""development aid: python3 -m mqlint.dbg <facts.json> <body substring> -> switches, calls and terms"""
import sys
from . import core
from .core import show

f = core.load(sys.argv[1])
for name, b in f.bodies.items():
    if not any(p in name for p in sys.argv[2:]):
        continue
    print("==", name)
    for bb in sorted(b.calls):
        c = b.calls[bb]
        if bb not in b.reachable:
            continue
        print("  bb%d call %s -> %s  args=[%s]  %s" % (bb, c.key, c.target, "; ".join(show(b.operand_term(a)) for a in c.args), c.span))
    for bb in sorted(b.switches):
        if bb not in b.reachable:
            continue
        si = b.switch_info(bb)
        print("  bb%d switch on %s  enum=%s edges=%s" % (bb, show(si["subject"]), si["enum"], si["edges"]))
    for (bb, j, dst, rv, s) in b.stores():
        if bb in b.reachable:
            print("  bb%d store %s <- %s   %s" % (bb, show(b.place_term(dst)), show(b.rvalue_term(rv)), s["span"]))
    print("  _0 =", show(b.local_term(0))[:600])
