//! Type-level witnesses for minimq properties: each `compile_fail,E0xxx` doctest must FAIL to compile with exactly
//! that error, and its twin — identical except for the offending line — must compile.  Run with
//! `cargo +nightly test --doc --offline` (the error codes are only checked on nightly).
#![allow(dead_code)]

use embedded_io_async::{ErrorType, Read, Write};

/// A transport that is never ready; the witnesses are only type-checked, never run.
pub struct NullIo;

impl ErrorType for NullIo {
    type Error = embedded_io::ErrorKind;
}

impl Read for NullIo {
    async fn read(&mut self, _buf: &mut [u8]) -> Result<usize, Self::Error> {
        core::future::pending().await
    }
}

impl Write for NullIo {
    async fn write(&mut self, _buf: &[u8]) -> Result<usize, Self::Error> {
        core::future::pending().await
    }
    async fn flush(&mut self) -> Result<(), Self::Error> {
        core::future::pending().await
    }
}

pub fn session(storage: &mut [u8]) -> minimq::Session<'_> {
    minimq::Session::new(minimq::ConfigBuilder::from_buffer(storage, 256).unwrap())
}

/// W1 (C04): a delivered inbound message borrows the connection; while it is alive no other operation can touch the
/// receive buffer it points into.
///
/// ```compile_fail,E0499
/// async fn w1() {
///     let mut storage = [0u8; 1024];
///     let mut session = mqwitness::session(&mut storage);
///     let mut conn = session.connect(mqwitness::NullIo).await.unwrap();
///     let message = conn.recv().await.unwrap();
///     let _ = conn.poll().await; // second mutable borrow while `message` is alive
///     let _ = message.topic();
/// }
/// ```
///
/// Twin (compiles): the message is dropped before the next operation.
/// ```
/// async fn w1_twin() {
///     let mut storage = [0u8; 1024];
///     let mut session = mqwitness::session(&mut storage);
///     let mut conn = session.connect(mqwitness::NullIo).await.unwrap();
///     let message = conn.recv().await.unwrap();
///     let _ = message.topic();
///     let _ = conn.poll().await;
/// }
/// ```
pub struct W1;

/// W2 (C12): the transport is moved into `connect`; a new connection needs a new transport value.
///
/// ```compile_fail,E0382
/// async fn w2() {
///     let mut storage = [0u8; 1024];
///     let mut session = mqwitness::session(&mut storage);
///     let io = mqwitness::NullIo;
///     let _ = session.connect(io).await;
///     let _ = session.connect(io).await; // use of moved value
/// }
/// ```
///
/// Twin (compiles):
/// ```
/// async fn w2_twin() {
///     let mut storage = [0u8; 1024];
///     let mut session = mqwitness::session(&mut storage);
///     let io = mqwitness::NullIo;
///     let _ = session.connect(io).await;
///     let _ = session.connect(mqwitness::NullIo).await;
/// }
/// ```
pub struct W2;

/// W3 (C11/C12): one live handle per session — `connect` cannot be called while a `Connection` borrows the session.
///
/// ```compile_fail,E0499
/// async fn w3() {
///     let mut storage = [0u8; 1024];
///     let mut session = mqwitness::session(&mut storage);
///     let first = session.connect(mqwitness::NullIo).await.unwrap();
///     let second = session.connect(mqwitness::NullIo).await; // session is still mutably borrowed
///     let _ = first.is_connected();
///     let _ = second;
/// }
/// ```
///
/// Twin (compiles): the first handle is gone before the second connect.
/// ```
/// async fn w3_twin() {
///     let mut storage = [0u8; 1024];
///     let mut session = mqwitness::session(&mut storage);
///     let first = session.connect(mqwitness::NullIo).await.unwrap();
///     let _ = first.is_connected();
///     drop(first);
///     let second = session.connect(mqwitness::NullIo).await;
///     let _ = second;
/// }
/// ```
pub struct W3;

/// W4 (C20): `reply` is optional by type — without a response topic there is no publication to send.
///
/// ```compile_fail,E0308
/// async fn w4() {
///     let mut storage = [0u8; 1024];
///     let mut session = mqwitness::session(&mut storage);
///     let mut conn = session.connect(mqwitness::NullIo).await.unwrap();
///     let message = conn.recv().await.unwrap();
///     let reply: minimq::Publication<'_, &[u8]> = message.reply(&b"pong"[..]); // Option<Publication> expected
///     let _ = reply;
/// }
/// ```
///
/// Twin (compiles):
/// ```
/// async fn w4_twin() {
///     let mut storage = [0u8; 1024];
///     let mut session = mqwitness::session(&mut storage);
///     let mut conn = session.connect(mqwitness::NullIo).await.unwrap();
///     let message = conn.recv().await.unwrap();
///     let reply: Option<minimq::Publication<'_, &[u8]>> = message.reply(&b"pong"[..]);
///     let _ = reply;
/// }
/// ```
pub struct W4;

/// W5 (C07): operation handles cannot be forged — `Op` has no public constructor and no public fields.
///
/// ```compile_fail,E0451
/// fn w5() {
///     let _forged = minimq::Op { kind: todo!(), packet_id: 1, generation: 0 };
/// }
/// ```
pub struct W5;
