#!/bin/sh
# Build the fact extractor and warm the dependency metadata for every analysed configuration (offline).
set -e
cd "$(dirname "$0")"
export CARGO_NET_OFFLINE=true
(cd driver && cargo build --release --offline)
python3 - <<'PY'
import sys
sys.path.insert(0, ".")
from concurrent.futures import ThreadPoolExecutor
from mqlint import engine
def warm(c):
    f = engine.load_facts(c)
    return c, len(f.bodies)
with ThreadPoolExecutor(max_workers=3) as ex:
    for c, n in ex.map(warm, ["default", "nodefault", "fuzzing"]):
        print("warmed %s: %d bodies" % (c, n))
PY
