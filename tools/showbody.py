#!/usr/bin/env python3
"""tools/showbody.py <facts.json> <fn-substring> [from-block [n]] : print the normalised blocks of a body (debugging aid)"""
import sys, json
sys.path.insert(0, "/verif")
from mqlint import core


def pl(p):
    s = "_%d" % p["l"]
    for e in p["proj"]:
        if e == "deref":
            s = "(*%s)" % s
        elif isinstance(e, dict) and "f" in e:
            s = "%s.%s" % (s, e.get("name", e["f"]))
        elif isinstance(e, dict) and "downcast" in e:
            s = "(%s as %s)" % (s, e["downcast"])
        else:
            s = "%s[%s]" % (s, json.dumps(e))
    return s


def op(o):
    if "move" in o:
        return "move " + pl(o["move"])
    if "copy" in o:
        return pl(o["copy"])
    c = o["const"]
    if c.get("fn"):
        return "fn:" + c["fn"]["path"]
    return "const %s" % (c.get("val") if c.get("val") is not None else c.get("ty"))


def rv(r):
    if "use" in r:
        return op(r["use"])
    if "ref" in r:
        return "&%s%s" % ("mut " if r.get("mut") else "", pl(r["ref"]))
    if "agg" in r:
        a = r["agg"]
        return "%s::%s{%s}" % (a.get("adt") or a["kind"], a.get("variant"), ", ".join(op(x) for x in r.get("ops", a.get("ops", []))))
    if "discr" in r:
        return "discr(%s)" % pl(r["discr"])
    return json.dumps(r)[:160]


f = core.Facts(sys.argv[1])
start = int(sys.argv[3]) if len(sys.argv) > 3 else 0
n = int(sys.argv[4]) if len(sys.argv) > 4 else 10000
for b in f.bodies.values():
    if sys.argv[2] in b.name:
        print("=====", b.name, b.kind, len(b.blocks))
        for i, bl in enumerate(b.blocks):
            if i < start or i >= start + n or bl["cleanup"] or i not in b.reachable:
                continue
            print("bb%d%s:" % (i, " [inl]" if bl.get("inl") else ""))
            for s in bl["stmts"]:
                if s["k"] == "assign":
                    print("    %s = %s" % (pl(s["dst"]), rv(s["rv"])))
                else:
                    print("    " + json.dumps(s)[:120])
            t = bl["term"]
            if t["k"] == "call":
                print("    %s = call %s(%s) -> bb%s" % (pl(t["dst"]), op(t["func"]), ", ".join(op(a) for a in t["args"]), t.get("t")))
            elif t["k"] == "switch":
                print("    switch %s %s" % (op(t["on"]), json.dumps({k: v for k, v in t.items() if k not in ("k", "on")})[:200]))
            else:
                print("    " + json.dumps(t)[:200])
