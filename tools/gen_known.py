#!/usr/bin/env python3
"""tools/gen_known.py : regenerate mqlint/known_fns.json (reference list of functions with signatures and structural
fingerprints) from /repo's *pinned* tree.  Run only when /repo is at the reference commit."""
import json, os, sys
sys.path.insert(0, "/verif")
os.environ["MQ_NO_NORMALIZE"] = "1"
from mqlint import engine, normalize
out = {}
for cfg in ("default", "nodefault", "fuzzing"):
    f = engine.load_facts(cfg)
    out[cfg] = normalize.snapshot(f.raw)
    print(cfg, len(out[cfg]["fns"]), "functions", len(out[cfg]["adts"]), "types")
json.dump(out, open(normalize.KNOWN_PATH, "w"), indent=0, sort_keys=True)
