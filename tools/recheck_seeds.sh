#!/bin/sh
# re-run every registered check against every filed seed (applies each patch to /repo, restores it afterwards)
cd "$(dirname "$0")/.."
for d in seeded/*/; do
  s=$(basename "$d")
  p=$(python3 -c "import json;print(json.load(open('seeded/$s/meta.json'))['property'])")
  python3 tools/confirm_seed.py "$s" "/nonexistent" "$p" --checks-only --from-filed 2>&1 | python3 -c "
import sys,json
t=sys.stdin.read()
try:
    i=t.index('{'); j=t.rindex('}')
    d=json.loads(t[i:j+1])
    print(d['seed'], 'caught_by', d.get('caught_by'), d.get('error',''))
    for p,r in d.get('checks_with_change_applied',{}).items():
        if r['failing_keys']: print('   ',p, r['failing_keys'])
except Exception as e:
    print('ERR', t[-400:])
"
done
git -C /repo status --short
