#!/bin/sh
# tools/scratch.sh <name> : fresh scratch copy of /repo's working tree under /tmp/mqs/<name>
set -e
mkdir -p /tmp/mqs
rm -rf "/tmp/mqs/$1"
rsync -a --exclude target --exclude .git --exclude fuzz/target /repo/ "/tmp/mqs/$1/"
echo "/tmp/mqs/$1"
