#!/usr/bin/env python3
"""tools/devfacts.py <repo-dir> <out-dir> : extract raw fact files (default, nodefault) for development (MQ_DEV_FACTS=<out-dir>)"""
import sys, os, shutil
sys.path.insert(0, "/verif")
from mqlint import engine
repo, out = sys.argv[1], sys.argv[2]
os.makedirs(out, exist_ok=True)
for cfg in ("default", "nodefault"):
    fp, nonce = engine.extract(cfg, repo, "-dev")
    shutil.copy(fp, os.path.join(out, "%s.json" % cfg))
    shutil.rmtree(os.path.dirname(fp), ignore_errors=True)
print(out)
