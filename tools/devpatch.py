#!/usr/bin/env python3
"""tools/devpatch.py <patch> <name> : scratch copy + patch + raw facts under /tmp/mqs/dev-<name> (scratch kept at /tmp/mqs/src-<name>)"""
import sys, os, subprocess, shutil
sys.path.insert(0, "/verif")
from mqlint import engine
patch, name = sys.argv[1], sys.argv[2]
d = "/tmp/mqs/src-" + name
shutil.rmtree(d, ignore_errors=True)
subprocess.check_call(["rsync", "-a", "--exclude", "target", "--exclude", ".git", "--exclude", "fuzz/target", engine.REPO + "/", d + "/"])
subprocess.check_call(["patch", "-p1", "-s", "-i", os.path.abspath(patch)], cwd=d)
out = "/tmp/mqs/dev-" + name
os.makedirs(out, exist_ok=True)
for cfg in ("default", "nodefault"):
    fp, nonce = engine.extract(cfg, d, "-dev")
    shutil.copy(fp, os.path.join(out, "%s.json" % cfg))
    shutil.rmtree(os.path.dirname(fp), ignore_errors=True)
print(d, out)
