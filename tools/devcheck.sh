#!/bin/sh
# tools/devcheck.sh <name> [props...] : run properties on pre-extracted facts /tmp/mqs/dev-<name> (sources /tmp/mqs/<srcdir>); prints failing keys
n=$1; shift
src=/tmp/mqs/src-$n; [ -d "$src" ] || src=/tmp/mqs/$n
MQ_DEV_FACTS=/tmp/mqs/dev-$n NOBASE=1 W=${W:-400} python3 "$(dirname "$0")/try_refactor.py" "$src" "$@" 2>&1 | grep -A${A:-1} FAIL
