#!/usr/bin/env python3
"""tools/confirm_seed.py <seed-id> <agent worktree> <property> [--needs "..."]

Independently confirms a seeded change produced by a sub-agent and files it under /verif/seeded/<seed-id>/:
  1. fresh scratch copy of /repo (never /repo itself): the demonstration passes without the change,
  2. with the change: the whole existing suite still passes and the demonstration fails,
  3. the change is applied to /repo with `git apply`, every claimed check is run, and /repo is restored
     with `git checkout -- .` straight afterwards.
Writes patch.diff, seed_demo.rs, agent_README.md and meta.json."""
import json
import os
import re
import shutil
import subprocess
import sys
import time

VERIF = os.path.dirname(os.path.dirname(os.path.abspath(__file__)))
REPO = "/repo"


def sh(cmd, cwd=None, env=None, timeout=3600):
    e = dict(os.environ)
    e["CARGO_NET_OFFLINE"] = "true"
    if env:
        e.update(env)
    p = subprocess.run(cmd, shell=True, cwd=cwd, env=e, stdout=subprocess.PIPE, stderr=subprocess.STDOUT, text=True, timeout=timeout)
    return p.returncode, p.stdout


def summarize_tests(out):
    ok = sum(int(m.group(1)) for m in re.finditer(r"test result: \w+\. (\d+) passed", out))
    failed = sum(int(m.group(1)) for m in re.finditer(r"test result: \w+\. \d+ passed; (\d+) failed", out))
    return ok, failed


def main():
    sid, wt, prop = sys.argv[1], sys.argv[2], sys.argv[3]
    needs = ""
    if "--needs" in sys.argv:
        needs = sys.argv[sys.argv.index("--needs") + 1]
    dst = os.path.join(VERIF, "seeded", sid)
    os.makedirs(dst, exist_ok=True)
    seed = os.path.join(wt, "SEED")
    if "--from-filed" not in sys.argv:
        for fn in ("patch.diff", "seed_demo.rs"):
            shutil.copy(os.path.join(seed, fn), os.path.join(dst, fn))
    if "--from-filed" not in sys.argv and os.path.exists(os.path.join(seed, "README.md")):
        shutil.copy(os.path.join(seed, "README.md"), os.path.join(dst, "agent_README.md"))
    meta = {"seed": sid, "property": prop, "needs": needs, "ran": [], "confirmed": False}
    tests_only = "--tests-only" in sys.argv
    checks_only = "--checks-only" in sys.argv
    prev = json.load(open(os.path.join(dst, "meta.json"))) if os.path.exists(os.path.join(dst, "meta.json")) else None
    if checks_only and prev is not None:
        meta = prev
    elif tests_only and prev is not None:
        for k in ("checks_with_change_applied", "caught_by", "caught_by_own_property"):
            if k in prev:
                meta[k] = prev[k]
    nj = os.path.join(VERIF, "seeded", "needs.json")
    if not needs and os.path.exists(nj):
        needs = json.load(open(nj)).get(sid, "")
    if needs:
        meta["needs"] = needs
    meta["breaks"] = "property %s (see properties.jsonl) -- demonstrated by seed_demo.rs, which fails with patch.diff applied and passes without" % prop

    if not checks_only:
      scratch = "/tmp/mqs/seed-%s" % sid
      # shared between *sequential* confirmations; parallel batches must each set MQ_SEED_TARGET to a directory of their own
      target = os.environ.get("MQ_SEED_TARGET", "/tmp/mqs/seed-target")
      shutil.rmtree(scratch, ignore_errors=True)
      os.makedirs("/tmp/mqs", exist_ok=True)
      # a clean copy of the pinned commit (not of the working tree, which another confirmation may have patched)
      os.makedirs(scratch)
      subprocess.check_call("git -C %s archive HEAD | tar -x -C %s" % (REPO, scratch), shell=True)
      shutil.copy(os.path.join(dst, "seed_demo.rs"), os.path.join(scratch, "tests", "seed_demo.rs"))
      env = {"CARGO_TARGET_DIR": target}
      # 1. demo without the change
      rc, out = sh("cargo test --offline --test seed_demo 2>&1 | tail -40", cwd=scratch, env=env)
      ok1, f1 = summarize_tests(out)
      meta["ran"].append({"cmd": "cargo test --offline --test seed_demo   (unmodified source)", "passed": ok1, "failed": f1})
      # 2. with the change
      rc, out = sh("patch -p1 -s < %s" % os.path.join(dst, "patch.diff"), cwd=scratch)
      if rc != 0:
          meta["error"] = "patch does not apply: " + out[-400:]
          json.dump(meta, open(os.path.join(dst, "meta.json"), "w"), indent=1)
          print(json.dumps(meta, indent=1))
          return 1
      rc, out = sh("cargo test --offline --test seed_demo 2>&1 | tail -60", cwd=scratch, env=env)
      ok2, f2 = summarize_tests(out)
      meta["ran"].append({"cmd": "cargo test --offline --test seed_demo   (with patch.diff)", "passed": ok2, "failed": f2,
                          "tail": out[-1200:]})
      os.remove(os.path.join(scratch, "tests", "seed_demo.rs"))
      rc, out = sh("cargo test --workspace --no-fail-fast --offline 2>&1 | grep -E 'test result|FAILED|panicked' | head -20", cwd=scratch, env=env)
      ok3, f3 = summarize_tests(out)
      meta["ran"].append({"cmd": "cargo test --workspace --no-fail-fast --offline   (with patch.diff, existing suite only)",
                          "passed": ok3, "failed": f3})
      shutil.rmtree(scratch, ignore_errors=True)
      meta["confirmed"] = (f1 == 0 and ok1 > 0 and f2 > 0 and f3 == 0 and ok3 >= 135)

    # 3. run the registered checks against /repo with the change applied
    st = subprocess.run(["git", "-C", REPO, "status", "--porcelain"], capture_output=True, text=True).stdout.strip()
    if tests_only:
        pass
    elif st:
        meta["error"] = "/repo working tree not clean; not applying"
    else:
        man = json.load(open(os.path.join(VERIF, "MANIFEST.json")))
        rc, out = sh("git -C %s apply %s" % (REPO, os.path.join(dst, "patch.diff")))
        results = {}
        try:
            if rc != 0:
                meta["error"] = "git apply on /repo failed: " + out[-300:]
            else:
                # all registered checks on one extraction of the facts (`./check ALL` runs each property's quick check)
                rc2, out2 = sh("./check ALL --tier quick", cwd=VERIF)
                cur_fail, cur_viol = [], 0
                for l in out2.splitlines():
                    if l.startswith("FAIL "):
                        cur_fail.append(l[5:].strip())
                    elif l.startswith("VIOLATION"):
                        cur_viol += 1
                    else:
                        m_ = re.match(r"^(C\d\d): \d+ obligations, .* (\d+) violations", l)
                        if m_:
                            results[m_.group(1)] = {"exit": 1 if int(m_.group(2)) else 0, "violations": cur_viol, "failing_keys": cur_fail}
                            cur_fail, cur_viol = [], 0
        finally:
            sh("git -C %s checkout -- ." % REPO)
        meta["checks_with_change_applied"] = results
        meta["caught_by"] = sorted(p for p, r in results.items() if r["exit"] == 1)
        meta["caught_by_own_property"] = prop in meta["caught_by"]
        # restore evidence of the unchanged tree for the checks that fired
        if meta["caught_by"]:
            sh("./check ALL --tier quick", cwd=VERIF)
    meta["at"] = time.strftime("%Y-%m-%dT%H:%M:%SZ", time.gmtime())
    json.dump(meta, open(os.path.join(dst, "meta.json"), "w"), indent=1)
    print(json.dumps({k: meta[k] for k in meta if k != "ran"}, indent=1))
    for r in meta["ran"]:
        print(r["cmd"], "->", r["passed"], "passed,", r["failed"], "failed")
    return 0


if __name__ == "__main__":
    sys.exit(main())
