#!/usr/bin/env python3
"""Regenerates /verif/MANIFEST.json from the table below (keeps the manifest valid at all times)."""
import json
import os
import sys

VERIF = os.path.dirname(os.path.dirname(os.path.abspath(__file__)))

TRUST = ("Trusted base: rustc nightly front end + MIR construction; the mqfacts serialisation; the MQTT 5 oracle "
         "tables in mqlint/oracle.py; the transparent-callee table. Rules are anchored on public API names, external "
         "items and the state named in the property anchors: renaming anchored state makes the check fail closed "
         "(ANCHOR-LOST / FLOOR) although behaviour is unchanged; renaming private helpers does not.")

# id -> (technique, text, design_ref) ; absent => not claimed
CLAIMED = {
    "C11": ("must-dataflow (LIVE-known-true) + variant-set flow on error edges + who-may-write over mir_built",
            "Static analysis, structural clauses only: at every transport call inside a Connection method LIVE is known "
            "true on all paths; every public operation tests LIVE first and its dead branch does nothing; every error "
            "exit that can carry a fatal variant passes the latch; Error::Disconnected is only built latched; only "
            "Session::connect makes LIVE true. These are necessary conditions of C11 visible on every path of the "
            "resolved program (all fault kinds x all I/O sites are covered because every site and every error edge is "
            "an obligation); the behaviour over whole fault sequences is not executed or modelled. In every operation with its own LIVE test no error is built before the test: a dead handle is answered by the gate, never by an argument check placed in front of it.",
            "DESIGN.md §4 C11"),
    "C02": ("who-may-mutate census of the outbound queues + dominance/must-pass on mir_built + call-site wiring",
            "Static analysis, structural clauses only: enqueue dominates the first write in publish and is await-free; "
            "the retained list shrinks only in the ack removal (called only from the four ack arms with that packet's "
            "identifier) and in clear() (only via the session reset on the session_present==false edge); send progress "
            "is re-armed only on (re)connect or by the latch; flush completion marks the entry of the same kind and id "
            "Sent; no order-breaking queue operation; re-arm is paired with the DUP patch and resets every retained entry "
            "to Write{0} unconditionally. These are inductive "
            "who-may-mutate facts that hold for histories of any length and every crash point because they quantify "
            "over all call sites and paths; retransmission byte-identity and counting are not computed. The acknowledgement removal takes out exactly the entry it looked up by identifier (index provenance), its lookup does not depend on data that changes while the packet is in flight, and the entry is removed before the reason code is examined; the arena clauses of C17 are evaluated here as well. The removal function reports true exactly on the paths that removed an entry. Every successful handshake stores the broker's Maximum Packet Size itself (CONNACK value or none), so a limit of an earlier connection cannot refuse the replay. ReasonCode::success is tabulated over every variant against the 0x80 boundary. The session reset is placed on the no-session edge of an accepted CONNACK (C05's clause). The recorded resume offset of a partly written packet is the count reported and every write starts at it (C13's store rule, C15's write rule): nothing is re-sent within one connection. Every PUBACK reaches the retained removal (no early return in front of it).",
            "DESIGN.md §4 C02"),
    "C01": ("must-dataflow (DRAINED) + table extraction/value-set folding of fixed-header flags vs MQTT 5 Table 2-2 + "
            "dominance/wiring on mir_built",
            "Static analysis, structural clauses only: every direct transport write of a public operation is preceded by a "
            "successful drain (else a packet could start inside a partially written one); type nibble, flag value sets, "
            "their composition in finalize and the in-place DUP patch are compared cell by cell with MQTT 5 for every "
            "packet kind the client can send or retain; replay restarts all three queues at byte 0; CONNECT is the first "
            "I/O and nothing follows a DISCONNECT without the latch; remaining-length and slice wiring; fresh/in-progress "
            "decision tables. Three genuine defects are listed as known findings. The byte stream itself is not produced "
            "or parsed: these are necessary conditions that hold for every schedule because they quantify over all paths. Also evaluated here because the stream is only well-formed if they hold: Varint::encoded_len agrees with the varint encoder (abstract interpretation), and the arena clauses of C17 (views behind retained bytes, arena writers, compaction, offset/len wiring). The identifier allocator never yields 0 (C07's clause, evaluated here: identifier 0 is malformed). CONNECT flags, subscription options and PUBLISH flags are compared bit by bit with MQTT 5 (C09's tables). Header QoS bits and identifier allocation use the same effective QoS (C19's rule); property-block sizes, 16-bit length prefixes and serializer field order (C09's rules); a packet accepted in part is not flushed or dropped (C13's rule).",
            "DESIGN.md §4 C01"),
    "C03": ("path-sensitive must-pass (constant-propagated path enumeration) + who-may-mutate census + wiring on mir_built",
            "Static analysis, structural clauses only: every feasible path to the PUBREL enqueue passes the success edge of "
            "the retained-removal and of the PUBREC reason check and carries the PUBREC's identifier; release entries are "
            "removed only by the PUBCOMP arm with that identifier; no order-breaking operation on the release queue; "
            "PUBREL is serialised from the step's identifier and release entries are re-armed for replay. Interleavings of "
            "several exchanges are covered through these per-entry invariants, not enumerated. The PUBCOMP removal takes out exactly the entry it looked up (index provenance: position over the whole list, or over the tail plus one). The removal functions report true exactly when they removed an entry; the PUBREC's lookup of the PUBLISH tests the identifier only (a replayed PUBLISH has DUP set). ReasonCode::success is tabulated over every variant against the 0x80 boundary; a completed PUBREL flush marks the release entry of that identifier. A PUBREC that removed the PUBLISH and carried a success code always queues the release entry. No path through the PUBREC or PUBCOMP arm leaves the handler before the removal was attempted (a test in front of it would consume the acknowledgement).",
            "DESIGN.md §4 C03"),
    "C04": ("path-sensitive must-pass over the inbound handler arms + wiring + who-may-mutate on mir_built",
            "Static analysis, structural clauses only: in the PUBLISH arm every feasible delivering path (QoS 1) / non-error "
            "path (QoS 2) passes the PUBACK / PUBREC enqueue with the inbound identifier; a QoS 2 delivery implies the "
            "identifier was just recorded, recording only when not already pending; every non-error PUBREL path queues a "
            "PUBCOMP with the table-correct reason and forgets the identifier; acks are serialised off-arena into their own "
            "queue; the reset clears pending identifiers; the delivered message is re-decoded from exactly the consumed prefix "
            "of the untouched receive buffer with fields passed through. Decoder correctness for arbitrary bytes is C08/C09. The session reset that forgets pending inbound identifiers is placed on the no-session edge, on every path, before the handshake can fail for another reason. Nothing in the inbound PUBLISH arm consults the client's own in-flight tables (broker and client identifiers are separate spaces). No await point lies between taking a PUBLISH out of the reader and returning it to the caller (C13's clause). A packet of exactly the advertised Maximum Packet Size fits the receive window (C14's clause). The property iterator advances by exactly what each property occupied; an acknowledgement accepted in part by the transport is neither flushed nor dropped (C13's rule). The completion bookkeeping of a flushed acknowledgement is reached only over the success edge of the flush.",
            "DESIGN.md §4 C04"),
    "C05": ("wiring (expression reconstruction incl. closure captures) + dominance/must-pass on the handshake's mir_built",
            "Static analysis, structural clauses only: clean_start = !session_present and the client id wiring of CONNECT; "
            "session_present is set only by the handshake after reason code and all properties were accepted; the reset runs "
            "exactly on the no-session edge, before anything else in the handshake can fail, clears outbound and inbound "
            "in-flight state and bumps the generation; the ConnectEvent follows session_present; new identifiers are "
            "allocated only after a successful drain. Broker behaviour is not modelled. The re-arm reached from Session::connect resets every entry of every queue unconditionally. The status decision compares generations before identifiers (C18's table, evaluated here). The identifier CONNECT carries may be read from several state fields (configured / assigned); each is written only at construction and by the handshake from the CONNACK's Assigned Client Identifier. Which CONNACK reason codes count as success is ReasonCode::success, tabulated over every variant against the 0x80 boundary. No removal reorders the retained or release list (C02's / C17's clause).",
            "DESIGN.md §4 C05"),
    "C06": ("who-may-write + value-shape matching + path-sensitive must-pass with correlated reason-code tests + "
            "interprocedural dependence (fields touched by the callees of the stored value) on mir_built",
            "Static analysis, structural clauses only: quota writers; the clamped initial window and its dependence on the "
            "publishes still in flight at (re)connect; decrement tied to the successful enqueue and await-free; the gate "
            "dominates encoding; increments have the shape min(q+1,max), occur only in the PUBACK / PUBCOMP / failing-PUBREC "
            "arms, only after the matching removal, and on every such path. The counting invariant over histories follows "
            "from these per-operation facts and is not itself computed. max_inflight() is a constant no larger than the capacity of either table an exchange passes through; the in-flight count entering the stored quota is read after the fresh-session reset. The removal functions whose result credits the window report true exactly when an entry was removed; both window fields are stored by every successful handshake. No PUBREL follows a failing PUBREC (C03's clause; its PUBCOMP would credit a second slot); ReasonCode::success tabulated. The in-flight count taken off a resumed window reads the packet type only, never the send state. No arm of the CONNACK property walk returns success or leaves the loop early: a Receive Maximum encoded after another property is still honoured.",
            "DESIGN.md §4 C06"),
    "C07": ("type-level fact (NonZeroU16) + wiring of every identifier sink to the allocator + must-pass over the "
            "allocator's lookups on mir_built",
            "Static analysis, structural clauses only: identifiers are non-zero by type; every identifier-bearing header, "
            "enqueue and handle takes the allocator's result of the same operation; the allocator returns an identifier "
            "only after looking that very value up in the retained and release lists and finding it absent. With the last "
            "clause the clause set is the property (for the in-flight sets the crate keeps). Non-zero holds by type, by a test of the value handed out, or by the invariant that every store to the counter is provably non-zero. The tables the allocator consults lose only the entry an acknowledgement names (index provenance). Header QoS bits and identifier allocation use the same effective QoS (C19's rule). An identifier leaves the retained list on a successful PUBREC only to enter the release list. An empty list proves absence like a failed lookup (the true edge of is_empty / len == 0 on that very list).",
            "DESIGN.md §4 C07"),
    "C12": ("dominance over Session::connect + store-shape of the reset functions + provenance of the CONNECT buffer",
            "Static analysis, structural clauses only: reader reset, timer reset and the unconditional re-arm of all queues "
            "dominate the handshake on every path and connect() has no exit that bypasses the handshake; CONNECT is the first "
            "I/O; the CONNECT scratch must not depend on in-flight state (known finding: it is the arena tail). Because the "
            "resets are unconditional the clause holds for every prior history (all crash points of all operations) without "
            "enumerating them. Broker behaviour is not modelled. What CONNECT advertises (Receive Maximum, Maximum Packet Size, Session Expiry) is computed from configuration and capacities, never from in-flight state. The window of a reconnected session is not charged for publishes discarded with the previous broker session. Compaction reclaims every hole (no return of compact bypasses the pass over the retained list), so the free tail CONNECT is encoded into is as large as the retained packets allow (C17's compact / used groups). The four negotiated runtime fields are stored by every successful handshake from the CONNACK or the default, never from their previous value. Nothing from a CONNACK reaches session state while its property block is examined, by store or by a call handed &mut of a state field (C08's rule). A CONNECT that exactly fills the free tail is encoded: the serializer's bounds tests use the whole buffer (C09's rule).",
            "DESIGN.md §4 C12"),
    "C13": ("taint of transport byte counts vs. await points (Yield terminators of the pre-transform coroutine MIR) over "
            "the call tree + await-freedom of critical sections",
            "Static analysis, structural clauses only: for every transport read/write in the call tree of the cancel-safe "
            "operations the byte count is committed to session state (or returned to a caller that commits it) before the "
            "next await on every path, so dropping the future at any await loses no progress; allocation..enqueue sections "
            "are await-free; enqueue precedes the first write; progress setters store what they are given. One genuine "
            "defect (disconnect via write_all) is a known finding. Equality of cancelled and uncancelled runs is not decided. The keep-alive's already-queued test sees a PINGREQ in state Write and in state Flush (truth table of the per-entry test). Setter parameters are resolved by position (a transposed signature is seen at the call site); a flush resumed after a cancellation is booked on the entry of the same queue and identifier (C02's clause). The flush after a write is reached only over the written + count >= len edge; every direct transport write of an operation is preceded by a drain (C01's rule; its known finding on disconnect_with is listed here as well). Completion bookkeeping only after a successful flush; at every transport call the latch is known unset (C11's rule).",
            "DESIGN.md §4 C13"),
    "C14": ("sibling agreement of the size predicates + must-pass (path-sensitive where needed) of size checks before "
            "every write/enqueue + wiring of the advertised and the broker limit",
            "Static analysis, structural clauses only: the four predicates are `len > max as usize` and answer PacketTooLarge; "
            "each transport write and each enqueue is dominated by the success edge of a size check of the very packet; "
            "CONNECT advertises the receive-buffer length and the broker limit is written only from the CONNACK; the receive "
            "window is sliced only within the buffer. Sizes around the limit are not enumerated. Every successful handshake stores the limit itself, so it is the limit of the current CONNACK. The reader's refusal of an oversize packet latches the handle (C11's inbound latch clauses). The CONNACK property walk reaches every property.",
            "DESIGN.md §4 C14"),
    "C09": ("table extraction from MIR (match arms, generic arguments, aggregates) compared cell by cell with MQTT 5 and "
            "between sibling tables; value-set folding of flag bytes with control-dependence guards; interval abstract "
            "interpretation of Varint::encoded_len; field-order extraction of every serializer",
            "Static analysis, structural clauses only: 27 properties x (identifier, written wire type, read wire type, size "
            "formula) vs MQTT 5 Table 2-4 and vs each other; Properties::size vs what serialize emits per representation; "
            "encoded_len vs the varint boundaries for every bit-length class; CONNECT flags, subscription options and "
            "PUBLISH flags bit by bit with their guards; CONNECT field wiring and the field order of all packet "
            "serializers; checked u16 length prefixes. This covers all property kinds x packets without enumerating "
            "values. Byte-level round trips and user payload closures are not decided. Properties::size adds up encoded sizes, never element counts. The integer primitives of serializer and deserializer are big-endian in stream order. The publication builder keeps a correlation entry whatever user properties are installed before or after it (C20's clauses). Header QoS and identifier allocation use the same effective QoS (C19's rule). The serializer's three bounds tests refuse exactly when the data does not fit (linear-inequality reading of the guard: L - I - n < 0), so nothing that fits is refused and nothing that does not is written; CONNECT's Maximum Packet Size is the receive-buffer length widened to u32 (C14's clause).",
            "DESIGN.md §4 C09"),
    "C10": ("who-may-write + dependence (fields read by the ping-due test) + dominance/post-dominance + decision-table "
            "extraction (truth table of the due test over the Option states) + interval abstract interpretation of the "
            "send-interval function on mir_built — structure of the mechanism and one arithmetic clause",
            "PARTIAL: static analysis decides only the structure of keep-alive — who arms/clears the two deadlines and with "
            "which value shape, that the ping-due test depends only on keep-alive state, that every completed flush refreshes "
            "the schedule, that expiry is tested before servicing and latches, that the read is raced against the minimum of "
            "both deadlines, one shared constant, zero disables, and (by interval abstract interpretation over keep-alive "
            "classes) that the PINGREQ lead time is positive and below the keep-alive for every keep-alive >= 1 s. Every other "
            "arithmetic or temporal aspect (the observed gap never exceeding the keep-alive, coincidences at the deadlines, "
            ">= vs >) is NOT decided: it needs a model of time. service() (which tests the PINGRESP deadline first) is called only when no complete inbound packet is waiting. The CONNACK property walk reaches every property (a Server Keep Alive after another property is still honoured).",
            "DESIGN.md §4 C10"),
    "C15": ("wiring of partial-I/O counts + value-set evaluation of the reader's look-ahead on mir_built",
            "PARTIAL: static analysis decides only that partial-I/O counts are what advances state: commit(count of this "
            "read), read_bytes += count, window from read_bytes, bounded look-ahead while the length is unknown, "
            "bytes[written..] resume, cursor advance by the accepted count, zero-length I/O handling, take buffer[..len]. "
            "Equality of whole runs under different chunkings is a relation between executions and is NOT decided. Every queued entry restarts from byte 0 on a new transport (C01's clause): an offset counted on one transport never selects the bytes sent on the next. The drive loop reports Idle / Advanced only when no outbound step remains; the step/setter clauses of C13. The packet reader is reset before every handshake (C12's rule).",
            "DESIGN.md §4 C15"),
    "C17": ("who-may-write / who-may-borrow-mutably census of the arena + dominance (compact before every view) + wiring",
            "Static analysis, structural clauses only: every mutable arena view is buf[used..] after a dominating compact; "
            "only compact and the DUP patch otherwise write arena bytes; the patch shape; compact's copy/bookkeeping/cursor "
            "shape and order; (offset,len) wiring encoder -> retained entry -> step -> slice; writers of `used`; free space "
            "is a function of the retained entries. Leak freedom over long histories is argued from these who-may-write "
            "facts (they hold for histories of any length), not measured; compact's arithmetic is not evaluated. An acknowledgement with a failure code still releases the retained packet (entry removed before the reason code is examined, in all five arms). No return of compact bypasses the pass over the list; the in-flight count charged to a fresh window is read after the reset (C06's clause). The receive window is stored afresh by every handshake, never derived from the previous connection's value (shared per-connection clause).",
            "DESIGN.md §4 C17"),
    "C18": ("decision-table extraction of Session::status by constraint-tracking path enumeration + wiring + path-sensitive "
            "must-pass in the five acknowledgement arms",
            "Static analysis, structural clauses only: status table (generation first; retained / release-list membership "
            "per kind); lookups compare identifiers; handle creation wiring (kind, allocator id, current generation, only "
            "after enqueue); in each ack arm removal precedes the reason check, the failure is returned and surfaced, and a "
            "failing PUBREC leaves no release entry. Identifier reuse is C07. The session reset that invalidates handles is placed on the no-session edge, on every path, before any other failure of the handshake. An acknowledgement finds the entry it names: the lookup tests the identifier only, nothing that changes while the packet is in flight, removes that entry and reports the removal. Each status query of the handle answers with the session's query of the same name; ReasonCode::success tabulated.",
            "DESIGN.md §4 C18"),
    "C19": ("decision-table extraction (135 cells) and interval extraction of value predicates vs MQTT 5; sibling coverage "
            "valid_for vs serialize; dominance of validation over every effect; wiring of the effective QoS",
            "Static analysis, structural clauses only: is_valid_for table vs MQTT 5 (must-accept / must-reject / don't-care); "
            "value predicates as intervals; valid_for covers everything serialize emits; validation with the right context "
            "dominates allocation, encode, enqueue, quota and writes; empty lists refused first; downgraded QoS used "
            "everywhere; DISCONNECT scratch (known finding). All 27 kinds x 5 contexts are decided as table cells. Tearing the handle down counts among the traces a refused request must not leave. Every exit that reports a fatal error has passed the latch the operations' live gate tests (C11's clauses); Maximum QoS is stored by every successful handshake. Every operation tests the latch first (C11's entry rule). The CONNACK property walk reaches every property (a Maximum QoS after another property is still honoured).",
            "DESIGN.md §4 C19"),
    "C20": ("wiring chain (expression reconstruction) from inbound property lookup to the reply publication + "
            "fallible-conversion census",
            "Static analysis, structural clauses only: each link of the chain response_topic/correlation_data -> "
            "response_target -> publication -> correlate/with_correlation -> with_properties keeps exactly the requester's "
            "topic and correlation data; lookups are independent fresh iterations (position independent); owned copies use "
            "only fallible conversions mapped to BufferTooSmall. Byte-level encoding is C09. Every property identifier decodes to its own Property variant (nothing else can turn into ResponseTopic / CorrelationData). No return of with_properties bypasses the test for a correlation entry. The property iterator advances by exactly what each property occupied; a correlated block's declared size is the sum of encoded sizes (C09's rule). Correlation data and response topic of every length up to 65535 are written with a checked two-byte length (C09's rule).",
            "DESIGN.md §4 C20"),
    "C08": ("panic-site enumeration over the inbound call graph (MIR Assert terminators + panicking callees) with "
            "guard-dominance re-verification; decode-table extraction vs MQTT 5; shape analysis of the varint reader; "
            "variant-set flow for the unreachable!() sites",
            "Static analysis, structural clauses only: every panic-capable site reachable from the inbound entry points is an "
            "obligation discharged by a constant condition, a type-level fact, or a named dominating guard that is re-checked "
            "on the current tree (a new site or a lost guard is a violation); type dispatch, flag nibble per type, QoS 3, the "
            "trailing-payload whitelist and the varint bounds/overlong test against MQTT 5; the unreachable!() sites are dead "
            "by variant flow; decode/protocol errors latch (C11 inbound clauses); the packet reader is reset before every handshake (C12's rule); every property identifier decodes to its own variant and the property iterator advances by exactly what each property occupied. 'No panic for any byte string' is thereby a "
            "finite obligation list instead of a sampled input space. Exact field values are decided only through the C09 "
            "type/layout tables. Nothing from a CONNACK is written into session state while its property block is still being examined. Both variable-byte-integer readers take the low seven bits of each byte, shift the group by seven per byte index and combine it with the groups read so far.",
            "DESIGN.md §4 C08"),
}

NOT_APPLICABLE = {
    "C16": "liveness / bounded progress over the reachable state space under a fairness assumption: no ranking function "
           "or progress measure is visible in the shape of the code, and 'bounded number of steps and bytes' quantifies "
           "over runtime values; a sound static argument is out of reach for this technique family (DESIGN.md §7)",
}

PENDING_REASON = "not claimed in this revision: the static rule set for this property is not implemented yet (see DESIGN.md §4)"


def main():
    props = [json.loads(l) for l in open(os.path.join(VERIF, "properties.jsonl"))]
    checks = []
    na = []
    for p in props:
        pid = p["id"]
        if pid in CLAIMED:
            tech, text, ref = CLAIMED[pid]
            checks.append({
                "property_id": pid,
                "quick_cmd": "./check %s --tier quick" % pid,
                "thorough_cmd": "./check %s --tier thorough" % pid,
                "evidence_file": "evidence/%s.json" % pid,
                "replay_cmd_template": "./check %s --replay {path}" % pid,
                "engine": "mqlint",
                "level_claimed": {"category": "other", "text": text, "design_ref": ref},
                "level_note": TRUST,
                "technique": tech,
            })
        elif pid in NOT_APPLICABLE:
            na.append({"property_id": pid, "reason": NOT_APPLICABLE[pid]})
        else:
            na.append({"property_id": pid, "reason": PENDING_REASON})
    m = {
        "version": 1,
        "setup_cmd": "./setup.sh",
        "hooks": {
            "guard": "minimq_verif",
            "enable": "none needed: the checks read the compiler's MIR of the unmodified sources (no instrumentation in /repo)",
            "baseline_off_cmd": "cd /repo && cargo test --workspace --no-fail-fast --offline",
            "source_commits": [],
            "add_only": True,
        },
        "engines": [
            {"name": "mqfacts", "path": "driver/", "serves_properties": sorted(CLAIMED),
             "kind_free_text": "rustc_private driver (nightly): dumps mir_built of every body of minimq, with resolved "
                               "callees, named projections, ADT/const/impl tables, as JSON; run as RUSTC_WORKSPACE_WRAPPER "
                               "under cargo +nightly check on /repo's working tree on every check"},
            {"name": "mqlint", "path": "mqlint/", "serves_properties": sorted(CLAIMED),
             "kind_free_text": "python3 (stdlib): CFG, dominance/must-pass, must-dataflow, expression reconstruction, "
                               "call graph + effect summaries, variant-set flow, table extraction vs MQTT 5 oracle"},
        ],
        "checks": checks,
        "notes": "Technique family: static analysis only. Every claimed check decides named structural clauses of its "
                 "property (necessary conditions visible in the resolved program), never the behaviour as a whole; "
                 "see DESIGN.md §0 and §4. Genuine defects found on the pinned tree are listed in known_findings.json.",
        "not_applicable": na,
    }
    json.dump(m, open(os.path.join(VERIF, "MANIFEST.json"), "w"), indent=1)
    print("MANIFEST.json: %d checks, %d not_applicable" % (len(checks), len(na)))


if __name__ == "__main__":
    main()
