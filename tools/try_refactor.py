#!/usr/bin/env python3
"""tools/try_refactor.py <patch-or-dir> [props...] : apply a patch to a scratch copy and list new failing keys with messages"""
import sys, os, subprocess, shutil
sys.path.insert(0, "/verif")
from mqlint import engine, selftest
src = sys.argv[1]
props = [p.upper() for p in sys.argv[2:]] or ["C%02d" % i for i in range(1, 21) if i != 16]
if os.path.isdir(src):
    d = src; made = False
else:
    d = selftest.make_scratch("try"); made = True
    r = subprocess.run(["patch", "-p1", "-s", "-i", os.path.abspath(src)], cwd=d)
    if r.returncode: sys.exit("patch failed")
try:
    base = selftest.baseline_failures(props, ("default", "nodefault")) if not os.environ.get("NOBASE") else {}
    facts = {c: engine.load_facts(c, d, "-try") for c in ("default", "nodefault")}
    for p in props:
        mod, runs = engine.run_property(p, "quick", facts)
        seen = set()
        for r in runs:
            for o in r.obs:
                if not o.ok and o.key not in base.get(p, set()) and o.key not in seen:
                    seen.add(o.key)
                    print("FAIL %s\n     %s" % (o.key, (getattr(o, "msg", "") or "")[:int(os.environ.get("W", "300"))].replace("\n", "\n     ")))
finally:
    if made and not os.environ.get("KEEP"):
        shutil.rmtree(d, ignore_errors=True)
    elif made:
        print("kept", d)
