//! mqfacts: a rustc_private driver that dumps the *built* MIR (before borrowck, drop elaboration and
//! the coroutine state transform) of every body of the crate being compiled as JSON facts.
//!
//! Used as RUSTC_WORKSPACE_WRAPPER: argv[1] is the real rustc, the rest are rustc's arguments.
//! Output: $MQFACTS_OUT/<crate>.json when MQFACTS_OUT is set and the crate name equals
//! $MQFACTS_CRATE (default "minimq"). Everything else is compiled unchanged.
#![feature(rustc_private)]
#![allow(clippy::all)]

extern crate rustc_abi;
extern crate rustc_driver;
extern crate rustc_hir;
extern crate rustc_interface;
extern crate rustc_middle;
extern crate rustc_span;

use std::collections::BTreeMap;
use std::fmt::Write as _;

use rustc_driver::{Callbacks, Compilation};
use rustc_hir::def::DefKind;
use rustc_hir::def_id::{DefId, LocalDefId, LOCAL_CRATE};
use rustc_interface::interface::Compiler;
use rustc_middle::mir::{
    self, AggregateKind, BasicBlock, Body, BorrowKind, CastKind, Const, ConstValue, Operand,
    Place, PlaceElem, Rvalue, StatementKind, TerminatorKind,
};
use rustc_middle::ty::print::with_no_trimmed_paths;
use rustc_middle::ty::{self, GenericArgsRef, Instance, Ty, TyCtxt, TypingEnv};
use rustc_span::Span;

struct Cb;

fn esc(s: &str) -> String {
    let mut o = String::with_capacity(s.len() + 2);
    o.push('"');
    for c in s.chars() {
        match c {
            '"' => o.push_str("\\\""),
            '\\' => o.push_str("\\\\"),
            '\n' => o.push_str("\\n"),
            '\r' => o.push_str("\\r"),
            '\t' => o.push_str("\\t"),
            c if (c as u32) < 0x20 => {
                let _ = write!(o, "\\u{:04x}", c as u32);
            }
            c => o.push(c),
        }
    }
    o.push('"');
    o
}

fn opt_str(s: Option<String>) -> String {
    match s {
        Some(s) => esc(&s),
        None => "null".to_string(),
    }
}

struct Cx<'tcx> {
    tcx: TyCtxt<'tcx>,
    adts: BTreeMap<String, DefId>,
    const_items: BTreeMap<String, DefId>,
}

impl<'tcx> Cx<'tcx> {
    fn path(&self, d: DefId) -> String {
        with_no_trimmed_paths!(self.tcx.def_path_str(d))
    }

    fn ty_s(&self, t: Ty<'tcx>) -> String {
        with_no_trimmed_paths!(t.to_string())
    }

    fn span_s(&self, sp: Span) -> String {
        let sp = sp.source_callsite();
        let sm = self.tcx.sess.source_map();
        let loc = sm.lookup_char_pos(sp.lo());
        let name = match &loc.file.name {
            rustc_span::FileName::Real(r) => match r.local_path() {
                Some(p) => p.to_string_lossy().to_string(),
                None => format!("{:?}", loc.file.name),
            },
            other => format!("{:?}", other),
        };
        format!("{}:{}:{}", name, loc.line, loc.col.0 + 1)
    }

    fn exp_s(&self, sp: Span) -> String {
        if !sp.from_expansion() {
            return "null".into();
        }
        let d = sp.ctxt().outer_expn_data();
        match d.kind {
            rustc_span::ExpnKind::Macro(_, name) => esc(&format!("macro:{}", name)),
            rustc_span::ExpnKind::Desugaring(k) => esc(&format!("desugar:{:?}", k)),
            rustc_span::ExpnKind::AstPass(_) => esc("astpass"),
            rustc_span::ExpnKind::Root => "null".into(),
        }
    }

    fn place(&mut self, body: &Body<'tcx>, p: Place<'tcx>) -> String {
        let tcx = self.tcx;
        let mut o = String::new();
        let _ = write!(o, "{{\"l\":{},\"proj\":[", p.local.as_usize());
        let mut pty = mir::PlaceTy::from_ty(body.local_decls[p.local].ty);
        let mut first = true;
        for elem in p.projection.iter() {
            if !first {
                o.push(',');
            }
            first = false;
            match elem {
                PlaceElem::Deref => o.push_str("\"deref\""),
                PlaceElem::Field(f, _fty) => {
                    let base = pty.ty;
                    let mut name: Option<String> = None;
                    let mut of: Option<String> = None;
                    let mut variant: Option<String> = None;
                    match base.kind() {
                        ty::Adt(adt, _) => {
                            { let k = self.path(adt.did()); self.adts.insert(k, adt.did()); }
                            of = Some(self.path(adt.did()));
                            let vidx = pty.variant_index.unwrap_or(rustc_abi::FIRST_VARIANT);
                            if vidx.as_usize() < adt.variants().len() {
                                let v = adt.variant(vidx);
                                if adt.is_enum() {
                                    variant = Some(v.name.to_string());
                                }
                                if f.as_usize() < v.fields.len() {
                                    name = Some(v.fields[f].name.to_string());
                                }
                            }
                        }
                        ty::Closure(d, _) | ty::Coroutine(d, _) | ty::CoroutineClosure(d, _) => {
                            of = Some(self.path(*d));
                            if let Some(ld) = d.as_local() {
                                let names = tcx.closure_saved_names_of_captured_variables(ld);
                                if let Some(n) = names.get(f) {
                                    name = Some(n.to_string());
                                }
                            }
                        }
                        ty::Tuple(_) => {
                            of = Some("tuple".into());
                            name = Some(f.as_usize().to_string());
                        }
                        _ => {}
                    }
                    let _ = write!(
                        o,
                        "{{\"f\":{},\"name\":{},\"of\":{},\"variant\":{}}}",
                        f.as_usize(),
                        opt_str(name),
                        opt_str(of),
                        opt_str(variant)
                    );
                }
                PlaceElem::Index(l) => {
                    let _ = write!(o, "{{\"index\":{}}}", l.as_usize());
                }
                PlaceElem::ConstantIndex { offset, from_end, .. } => {
                    let _ = write!(o, "{{\"cidx\":{},\"from_end\":{}}}", offset, from_end);
                }
                PlaceElem::Subslice { from, to, from_end } => {
                    let _ = write!(o, "{{\"subslice\":[{},{}],\"from_end\":{}}}", from, to, from_end);
                }
                PlaceElem::Downcast(sym, vidx) => {
                    let n = match sym {
                        Some(s) => s.to_string(),
                        None => match pty.ty.kind() {
                            ty::Adt(adt, _) if vidx.as_usize() < adt.variants().len() => {
                                adt.variant(vidx).name.to_string()
                            }
                            _ => format!("#{}", vidx.as_usize()),
                        },
                    };
                    if let ty::Adt(adt, _) = pty.ty.kind() {
                        { let k = self.path(adt.did()); self.adts.insert(k, adt.did()); }
                    }
                    let _ = write!(o, "{{\"downcast\":{}}}", esc(&n));
                }
                _ => o.push_str("\"opaque\""),
            }
            pty = pty.projection_ty(tcx, elem);
        }
        let _ = write!(o, "],\"ty\":{}}}", esc(&self.ty_s(pty.ty)));
        o
    }

    fn callee(&mut self, body_def: LocalDefId, def: DefId, args: GenericArgsRef<'tcx>) -> String {
        let tcx = self.tcx;
        let path = self.path(def);
        let mut o = String::new();
        let _ = write!(o, "{{\"path\":{},\"args\":[", esc(&path));
        let mut first = true;
        for a in args.iter() {
            if !first {
                o.push(',');
            }
            first = false;
            let s = with_no_trimmed_paths!(a.to_string());
            o.push_str(&esc(&s));
        }
        o.push(']');
        // trait item?
        let mut trait_s: Option<String> = None;
        let mut self_ty: Option<String> = None;
        if let Some(tr) = tcx.trait_of_assoc(def) {
            trait_s = Some(self.path(tr));
            if args.len() > 0 {
                if let Some(t) = args[0].as_type() {
                    self_ty = Some(self.ty_s(t));
                }
            }
        } else if let Some(imp) = tcx.inherent_impl_of_assoc(def) {
            let t = tcx.type_of(imp).instantiate_identity().skip_norm_wip();
            self_ty = Some(self.ty_s(t));
        }
        // resolution
        let mut resolved: Option<String> = None;
        let mut resolved_local = false;
        if matches!(tcx.def_kind(def), DefKind::Fn | DefKind::AssocFn) {
            let env = TypingEnv::post_analysis(tcx, body_def);
            if let Ok(Some(inst)) = Instance::try_resolve(tcx, env, def, args) {
                let rd = inst.def_id();
                if rd != def {
                    resolved = Some(self.path(rd));
                }
                resolved_local = rd.is_local();
                if resolved.is_none() {
                    resolved_local = def.is_local();
                }
                if let ty::InstanceKind::Item(_) = inst.def {
                } else {
                    // shims (closure call shims, drop glue, virtual) are noted
                    let _ = write!(o, ",\"shim\":{}", esc(&format!("{:?}", inst.def).chars().take(60).collect::<String>()));
                }
            }
        }
        let _ = write!(
            o,
            ",\"trait\":{},\"self_ty\":{},\"resolved\":{},\"local\":{},\"resolved_local\":{}}}",
            opt_str(trait_s),
            opt_str(self_ty),
            opt_str(resolved),
            def.is_local(),
            resolved_local
        );
        o
    }

    fn konst(&mut self, body_def: LocalDefId, c: &mir::ConstOperand<'tcx>) -> String {
        let tcx = self.tcx;
        let ty = c.const_.ty();
        let mut o = String::new();
        let _ = write!(o, "{{\"const\":{{\"ty\":{}", esc(&self.ty_s(ty)));
        match ty.kind() {
            ty::FnDef(def, args) => {
                let cs = self.callee(body_def, *def, args);
                let _ = write!(o, ",\"fn\":{}", cs);
            }
            ty::Closure(def, _) => {
                let _ = write!(o, ",\"closure\":{}", esc(&self.path(*def)));
            }
            _ => {}
        }
        match c.const_ {
            Const::Val(v, _) => {
                if let ConstValue::Scalar(s) = v {
                    if let Ok(i) = s.try_to_scalar_int() {
                        let size = i.size();
                        let bits = i.to_bits(size);
                        let _ = write!(o, ",\"value\":{}", bits);
                        if ty.is_signed() {
                            let sv = size.sign_extend(bits);
                            let _ = write!(o, ",\"svalue\":{}", sv);
                        }
                    }
                } else if let ConstValue::ZeroSized = v {
                    o.push_str(",\"zst\":true");
                } else if let ConstValue::Slice { .. } = v {
                    if let Some(bytes) = v.try_get_slice_bytes_for_diagnostics(tcx) {
                        if let Ok(s) = std::str::from_utf8(bytes) {
                            let _ = write!(o, ",\"str\":{}", esc(s));
                        }
                    }
                }
            }
            Const::Unevaluated(u, _) => {
                let _ = write!(o, ",\"item\":{}", esc(&self.path(u.def)));
                if u.promoted.is_none()
                    && matches!(tcx.def_kind(u.def), DefKind::Const { .. } | DefKind::AssocConst { .. })
                {
                    { let k = self.path(u.def); self.const_items.insert(k, u.def); }
                }
            }
            Const::Ty(_, ct) => {
                let s = with_no_trimmed_paths!(ct.to_string());
                let _ = write!(o, ",\"tyconst\":{}", esc(&s));
                if let Some(i) = ct.try_to_leaf() {
                    let size = i.size();
                    let bits = i.to_bits(size);
                    let _ = write!(o, ",\"value\":{}", bits);
                    if ty.is_signed() {
                        let _ = write!(o, ",\"svalue\":{}", size.sign_extend(bits));
                    }
                }
            }
        }
        o.push_str("}}");
        o
    }

    fn operand(&mut self, body_def: LocalDefId, body: &Body<'tcx>, op: &Operand<'tcx>) -> String {
        match op {
            Operand::Copy(p) => format!("{{\"copy\":{}}}", self.place(body, *p)),
            Operand::Move(p) => format!("{{\"move\":{}}}", self.place(body, *p)),
            Operand::Constant(c) => self.konst(body_def, c),
            _ => "{\"other_operand\":true}".to_string(),
        }
    }

    fn rvalue(&mut self, body_def: LocalDefId, body: &Body<'tcx>, rv: &Rvalue<'tcx>) -> String {
        let tcx = self.tcx;
        match rv {
            Rvalue::Use(op, _) => format!("{{\"use\":{}}}", self.operand(body_def, body, op)),
            Rvalue::Repeat(op, n) => {
                let nv = n.try_to_target_usize(tcx);
                format!(
                    "{{\"repeat\":{},\"n\":{},\"n_expr\":{}}}",
                    self.operand(body_def, body, op),
                    match nv {
                        Some(v) => v.to_string(),
                        None => "null".into(),
                    },
                    esc(&with_no_trimmed_paths!(n.to_string()))
                )
            }
            Rvalue::Ref(_, bk, p) => {
                let m = matches!(bk, BorrowKind::Mut { .. });
                let fake = matches!(bk, BorrowKind::Fake(_));
                format!("{{\"ref\":{},\"mut\":{},\"fake\":{}}}", self.place(body, *p), m, fake)
            }
            Rvalue::RawPtr(_, p) => format!("{{\"addr\":{}}}", self.place(body, *p)),
            Rvalue::Cast(k, op, ty) => {
                let ks = match k {
                    CastKind::IntToInt => "IntToInt".to_string(),
                    CastKind::PointerCoercion(pc, _) => format!("PointerCoercion:{:?}", pc),
                    other => format!("{:?}", other),
                };
                format!(
                    "{{\"cast\":{},\"a\":{},\"to\":{}}}",
                    esc(&ks),
                    self.operand(body_def, body, op),
                    esc(&self.ty_s(*ty))
                )
            }
            Rvalue::BinaryOp(op, ab) => {
                let (a, b) = &**ab;
                format!(
                    "{{\"bin\":{},\"a\":{},\"b\":{}}}",
                    esc(&format!("{:?}", op)),
                    self.operand(body_def, body, a),
                    self.operand(body_def, body, b)
                )
            }
            Rvalue::UnaryOp(op, a) => format!(
                "{{\"un\":{},\"a\":{}}}",
                esc(&format!("{:?}", op)),
                self.operand(body_def, body, a)
            ),
            Rvalue::Discriminant(p) => {
                let pty = p.ty(&body.local_decls, tcx).ty;
                let mut en: Option<String> = None;
                if let ty::Adt(adt, _) = pty.kind() {
                    { let k = self.path(adt.did()); self.adts.insert(k, adt.did()); }
                    en = Some(self.path(adt.did()));
                }
                format!("{{\"discr\":{},\"enum\":{}}}", self.place(body, *p), opt_str(en))
            }
            Rvalue::Aggregate(kind, ops) => {
                let mut o = String::from("{\"agg\":{");
                match &**kind {
                    AggregateKind::Array(t) => {
                        let _ = write!(o, "\"kind\":\"array\",\"elem\":{}", esc(&self.ty_s(*t)));
                    }
                    AggregateKind::Tuple => o.push_str("\"kind\":\"tuple\""),
                    AggregateKind::Adt(did, vidx, _args, _, _) => {
                        { let k = self.path(*did); self.adts.insert(k, *did); }
                        let adt = tcx.adt_def(*did);
                        let v = adt.variant(*vidx);
                        let _ = write!(
                            o,
                            "\"kind\":\"adt\",\"adt\":{},\"variant\":{},\"fields\":[",
                            esc(&self.path(*did)),
                            if adt.is_enum() { esc(&v.name.to_string()) } else { "null".into() }
                        );
                        let mut first = true;
                        for f in v.fields.iter() {
                            if !first {
                                o.push(',');
                            }
                            first = false;
                            o.push_str(&esc(&f.name.to_string()));
                        }
                        o.push(']');
                    }
                    AggregateKind::Closure(did, _) => {
                        let _ = write!(o, "\"kind\":\"closure\",\"def\":{}", esc(&self.path(*did)));
                        self.upvar_names(&mut o, *did);
                    }
                    AggregateKind::Coroutine(did, _) => {
                        let _ = write!(o, "\"kind\":\"coroutine\",\"def\":{}", esc(&self.path(*did)));
                        self.upvar_names(&mut o, *did);
                    }
                    AggregateKind::CoroutineClosure(did, _) => {
                        let _ = write!(o, "\"kind\":\"coroutine_closure\",\"def\":{}", esc(&self.path(*did)));
                        self.upvar_names(&mut o, *did);
                    }
                    AggregateKind::RawPtr(..) => o.push_str("\"kind\":\"rawptr\""),
                }
                o.push_str("},\"ops\":[");
                let mut first = true;
                for op in ops.iter() {
                    if !first {
                        o.push(',');
                    }
                    first = false;
                    o.push_str(&self.operand(body_def, body, op));
                }
                o.push_str("]}");
                o
            }
            Rvalue::CopyForDeref(p) => format!("{{\"use\":{{\"copy\":{}}}}}", self.place(body, *p)),
            other => format!("{{\"other\":{}}}", esc(&format!("{:?}", other).chars().take(120).collect::<String>())),
        }
    }

    fn upvar_names(&self, o: &mut String, did: DefId) {
        if let Some(ld) = did.as_local() {
            let names = self.tcx.closure_saved_names_of_captured_variables(ld);
            o.push_str(",\"fields\":[");
            let mut first = true;
            for n in names.iter() {
                if !first {
                    o.push(',');
                }
                first = false;
                o.push_str(&esc(&n.to_string()));
            }
            o.push(']');
        }
    }

    fn bb(b: BasicBlock) -> usize {
        b.as_usize()
    }

    fn optbb(b: Option<BasicBlock>) -> String {
        match b {
            Some(b) => b.as_usize().to_string(),
            None => "null".into(),
        }
    }

    fn unwind_bb(u: &mir::UnwindAction) -> String {
        match u {
            mir::UnwindAction::Cleanup(b) => b.as_usize().to_string(),
            _ => "null".into(),
        }
    }

    fn body(&mut self, def: LocalDefId, body: &Body<'tcx>) -> String {
        let tcx = self.tcx;
        let did = def.to_def_id();
        let mut o = String::new();
        let kind = tcx.def_kind(did);
        let kind_s = match kind {
            DefKind::Fn => "fn",
            DefKind::AssocFn => "assoc_fn",
            DefKind::Closure => {
                if tcx.is_coroutine(did) {
                    "coroutine"
                } else {
                    "closure"
                }
            }
            DefKind::Const { .. } => "const",
            DefKind::AssocConst { .. } => "assoc_const",
            DefKind::AnonConst => "anon_const",
            DefKind::InlineConst => "inline_const",
            DefKind::Static { .. } => "static",
            _ => "other",
        };
        let parent = tcx.opt_local_parent(def).map(|p| self.path(p.to_def_id()));
        let is_fn = matches!(kind, DefKind::Fn | DefKind::AssocFn);
        let is_async = is_fn && tcx.asyncness(did).is_async();
        let vis = if is_fn {
            let v = tcx.visibility(did);
            if v.is_public() {
                "pub".to_string()
            } else {
                match v {
                    ty::Visibility::Restricted(m) => {
                        if m == tcx.parent_module_from_def_id(def).to_def_id() {
                            "private".to_string()
                        } else if m.is_crate_root() {
                            "crate".to_string()
                        } else {
                            format!("in:{}", self.path(m))
                        }
                    }
                    ty::Visibility::Public => "pub".to_string(),
                }
            }
        } else {
            "n/a".to_string()
        };
        // impl info (for assoc fns and for closures nested in them, via typeck root)
        let root = tcx.typeck_root_def_id(did);
        let mut self_ty: Option<String> = None;
        let mut trait_s: Option<String> = None;
        if matches!(tcx.def_kind(root), DefKind::AssocFn | DefKind::AssocConst { .. }) {
            let p = tcx.parent(root);
            if let DefKind::Impl { of_trait } = tcx.def_kind(p) {
                let t = tcx.type_of(p).instantiate_identity().skip_norm_wip();
                self_ty = Some(self.ty_s(t));
                if of_trait {
                    let tr = tcx.impl_trait_ref(p).instantiate_identity().skip_norm_wip();
                    trait_s = Some(self.path(tr.def_id));
                }
            } else if let DefKind::Trait = tcx.def_kind(p) {
                trait_s = Some(self.path(p));
                self_ty = Some("Self".into());
            }
        }
        let _ = write!(
            o,
            "{{\"kind\":{},\"parent\":{},\"root\":{},\"is_async\":{},\"vis\":{},\"self_ty\":{},\"trait\":{},\"span\":{},\"arg_count\":{},\"name\":{},\"generics\":{}",
            esc(kind_s),
            opt_str(parent),
            esc(&self.path(root)),
            is_async,
            esc(&vis),
            opt_str(self_ty),
            opt_str(trait_s),
            esc(&self.span_s(body.span)),
            body.arg_count,
            esc(&tcx.opt_item_name(did).map(|s| s.to_string()).unwrap_or_default()),
            {
                let g = tcx.generics_of(root);
                let v: Vec<String> = (0..g.count()).map(|i| esc(&g.param_at(i, tcx).name.to_string())).collect();
                format!("[{}]", v.join(","))
            },
        );
        // locals
        let mut names: BTreeMap<usize, String> = BTreeMap::new();
        let mut dbg = String::from("[");
        let mut first = true;
        for v in body.var_debug_info.iter() {
            if let mir::VarDebugInfoContents::Place(p) = v.value {
                if p.projection.is_empty() {
                    names.entry(p.local.as_usize()).or_insert_with(|| v.name.to_string());
                }
                if !first {
                    dbg.push(',');
                }
                first = false;
                let _ = write!(dbg, "{{\"name\":{},\"place\":{}}}", esc(&v.name.to_string()), self.place(body, p));
            }
        }
        dbg.push(']');
        o.push_str(",\"locals\":[");
        let mut first = true;
        for (l, d) in body.local_decls.iter_enumerated() {
            if !first {
                o.push(',');
            }
            first = false;
            let cl = match d.ty.peel_refs().kind() {
                ty::Closure(dd, _) | ty::Coroutine(dd, _) | ty::CoroutineClosure(dd, _) => Some(self.path(*dd)),
                _ => None,
            };
            let _ = write!(
                o,
                "{{\"ty\":{},\"name\":{},\"closure\":{},\"mut\":{}}}",
                esc(&self.ty_s(d.ty)),
                opt_str(names.get(&l.as_usize()).cloned()),
                opt_str(cl),
                d.mutability.is_mut()
            );
        }
        o.push_str("],\"debug\":");
        o.push_str(&dbg);
        // blocks
        o.push_str(",\"blocks\":[");
        let mut firstb = true;
        for (_bbi, data) in body.basic_blocks.iter_enumerated() {
            if !firstb {
                o.push(',');
            }
            firstb = false;
            let _ = write!(o, "{{\"cleanup\":{},\"stmts\":[", data.is_cleanup);
            let mut firsts = true;
            for st in data.statements.iter() {
                let s = match &st.kind {
                    StatementKind::Assign(b) => {
                        let (p, rv) = &**b;
                        Some(format!(
                            "{{\"k\":\"assign\",\"dst\":{},\"rv\":{},\"span\":{},\"exp\":{}}}",
                            self.place(body, *p),
                            self.rvalue(def, body, rv),
                            esc(&self.span_s(st.source_info.span)),
                            self.exp_s(st.source_info.span)
                        ))
                    }
                    StatementKind::SetDiscriminant { place, variant_index } => {
                        let pty = place.ty(&body.local_decls, tcx).ty;
                        let vn = match pty.kind() {
                            ty::Adt(adt, _) => adt.variant(*variant_index).name.to_string(),
                            _ => format!("#{}", variant_index.as_usize()),
                        };
                        Some(format!(
                            "{{\"k\":\"set_discr\",\"dst\":{},\"variant\":{},\"span\":{}}}",
                            self.place(body, **place),
                            esc(&vn),
                            esc(&self.span_s(st.source_info.span))
                        ))
                    }
                    StatementKind::StorageDead(l) => Some(format!("{{\"k\":\"dead\",\"l\":{}}}", l.as_usize())),
                    _ => None,
                };
                if let Some(s) = s {
                    if !firsts {
                        o.push(',');
                    }
                    firsts = false;
                    o.push_str(&s);
                }
            }
            o.push_str("],\"term\":");
            let term = data.terminator();
            let t = match &term.kind {
                TerminatorKind::Goto { target } => format!("{{\"k\":\"goto\",\"t\":{}}}", Self::bb(*target)),
                TerminatorKind::SwitchInt { discr, targets } => {
                    let mut s = format!("{{\"k\":\"switch\",\"on\":{},\"arms\":[", self.operand(def, body, discr));
                    let mut f = true;
                    for (v, b) in targets.iter() {
                        if !f {
                            s.push(',');
                        }
                        f = false;
                        let _ = write!(s, "[{},{}]", v, Self::bb(b));
                    }
                    let _ = write!(s, "],\"otherwise\":{}}}", Self::bb(targets.otherwise()));
                    s
                }
                TerminatorKind::Return => "{\"k\":\"return\"}".into(),
                TerminatorKind::Unreachable => "{\"k\":\"unreachable\"}".into(),
                TerminatorKind::UnwindResume => "{\"k\":\"resume\"}".into(),
                TerminatorKind::UnwindTerminate(_) => "{\"k\":\"terminate\"}".into(),
                TerminatorKind::CoroutineDrop => "{\"k\":\"coroutine_drop\"}".into(),
                TerminatorKind::Drop { place, target, unwind, .. } => format!(
                    "{{\"k\":\"drop\",\"place\":{},\"t\":{},\"unwind\":{}}}",
                    self.place(body, *place),
                    Self::bb(*target),
                    Self::unwind_bb(unwind)
                ),
                TerminatorKind::Call { func, args, destination, target, unwind, fn_span, .. } => {
                    let mut s = String::from("{\"k\":\"call\",\"func\":");
                    s.push_str(&self.operand(def, body, func));
                    s.push_str(",\"args\":[");
                    let mut f = true;
                    for a in args.iter() {
                        if !f {
                            s.push(',');
                        }
                        f = false;
                        s.push_str(&self.operand(def, body, &a.node));
                    }
                    let _ = write!(
                        s,
                        "],\"dst\":{},\"t\":{},\"unwind\":{},\"fn_span\":{}}}",
                        self.place(body, *destination),
                        Self::optbb(*target),
                        Self::unwind_bb(unwind),
                        esc(&self.span_s(*fn_span))
                    );
                    s
                }
                TerminatorKind::TailCall { .. } => "{\"k\":\"other\",\"desc\":\"tailcall\",\"succ\":[]}".into(),
                TerminatorKind::Assert { cond, expected, msg, target, unwind } => {
                    let m = match &**msg {
                        mir::AssertKind::BoundsCheck { .. } => "BoundsCheck".to_string(),
                        mir::AssertKind::Overflow(op, ..) => format!("Overflow:{:?}", op),
                        mir::AssertKind::OverflowNeg(_) => "OverflowNeg".to_string(),
                        mir::AssertKind::DivisionByZero(_) => "DivisionByZero".to_string(),
                        mir::AssertKind::RemainderByZero(_) => "RemainderByZero".to_string(),
                        other => format!("{:?}", other).chars().take(40).collect(),
                    };
                    format!(
                        "{{\"k\":\"assert\",\"cond\":{},\"expected\":{},\"msg\":{},\"t\":{},\"unwind\":{}}}",
                        self.operand(def, body, cond),
                        expected,
                        esc(&m),
                        Self::bb(*target),
                        Self::unwind_bb(unwind)
                    )
                }
                TerminatorKind::Yield { value, resume, resume_arg, drop } => format!(
                    "{{\"k\":\"yield\",\"value\":{},\"resume\":{},\"resume_arg\":{},\"drop\":{}}}",
                    self.operand(def, body, value),
                    Self::bb(*resume),
                    self.place(body, *resume_arg),
                    Self::optbb(*drop)
                ),
                TerminatorKind::FalseEdge { real_target, imaginary_target } => format!(
                    "{{\"k\":\"false_edge\",\"real\":{},\"imaginary\":{}}}",
                    Self::bb(*real_target),
                    Self::bb(*imaginary_target)
                ),
                TerminatorKind::FalseUnwind { real_target, .. } => {
                    format!("{{\"k\":\"false_unwind\",\"real\":{}}}", Self::bb(*real_target))
                }
                TerminatorKind::InlineAsm { targets, .. } => {
                    let mut s = String::from("{\"k\":\"other\",\"desc\":\"asm\",\"succ\":[");
                    let mut f = true;
                    for t in targets.iter() {
                        if !f {
                            s.push(',');
                        }
                        f = false;
                        let _ = write!(s, "{}", Self::bb(*t));
                    }
                    s.push_str("]}");
                    s
                }
            };
            o.push_str(&t);
            let _ = write!(
                o,
                ",\"span\":{},\"exp\":{}}}",
                esc(&self.span_s(term.source_info.span)),
                self.exp_s(term.source_info.span)
            );
        }
        o.push_str("]}");
        o
    }

    fn adt_table(&mut self) -> String {
        let tcx = self.tcx;
        let mut o = String::from("{");
        let mut first = true;
        let adts: Vec<DefId> = self.adts.values().copied().collect();
        for d in adts {
            let adt = tcx.adt_def(d);
            if !first {
                o.push(',');
            }
            first = false;
            let kind = if adt.is_enum() {
                "enum"
            } else if adt.is_union() {
                "union"
            } else {
                "struct"
            };
            let _ = write!(o, "{}:{{\"kind\":\"{}\",\"local\":{},\"variants\":[", esc(&self.path(d)), kind, d.is_local());
            let mut fv = true;
            let discrs: Vec<u128> = if adt.is_enum() {
                adt.discriminants(tcx).map(|(_, dv)| dv.val).collect()
            } else {
                vec![0]
            };
            for (i, v) in adt.variants().iter().enumerate() {
                if !fv {
                    o.push(',');
                }
                fv = false;
                let _ = write!(
                    o,
                    "{{\"name\":{},\"discr\":{},\"fields\":[",
                    esc(&v.name.to_string()),
                    discrs.get(i).copied().unwrap_or(0)
                );
                let mut ff = true;
                for f in v.fields.iter() {
                    if !ff {
                        o.push(',');
                    }
                    ff = false;
                    let fty = tcx.type_of(f.did).instantiate_identity().skip_norm_wip();
                    let _ = write!(o, "{{\"name\":{},\"ty\":{}}}", esc(&f.name.to_string()), esc(&self.ty_s(fty)));
                }
                o.push_str("]}");
            }
            o.push_str("]}");
        }
        o.push('}');
        o
    }

    fn const_table(&mut self) -> String {
        let tcx = self.tcx;
        let mut o = String::from("{");
        let mut first = true;
        let items: Vec<DefId> = self.const_items.values().copied().collect();
        for d in items {
            let generics = tcx.generics_of(d);
            if generics.count() != 0 {
                continue;
            }
            let ty = tcx.type_of(d).instantiate_identity().skip_norm_wip();
            let mut val = "null".to_string();
            if let Ok(v) = tcx.const_eval_poly(d) {
                if let ConstValue::Scalar(s) = v {
                    if let Ok(i) = s.try_to_scalar_int() {
                        val = i.to_bits(i.size()).to_string();
                    }
                }
            }
            if !first {
                o.push(',');
            }
            first = false;
            let _ = write!(o, "{}:{{\"ty\":{},\"value\":{}}}", esc(&self.path(d)), esc(&self.ty_s(ty)), val);
        }
        o.push('}');
        o
    }

    fn impl_table(&mut self) -> String {
        let tcx = self.tcx;
        let mut o = String::from("[");
        let mut first = true;
        for id in tcx.hir_free_items() {
            let did = id.owner_id.to_def_id();
            if let DefKind::Impl { of_trait } = tcx.def_kind(did) {
                let t = tcx.type_of(did).instantiate_identity().skip_norm_wip();
                let trait_s = if of_trait {
                    let tr = tcx.impl_trait_ref(did).instantiate_identity().skip_norm_wip();
                    Some(self.path(tr.def_id))
                } else {
                    None
                };
                if !first {
                    o.push(',');
                }
                first = false;
                let _ = write!(
                    o,
                    "{{\"trait\":{},\"self_ty\":{},\"span\":{},\"consts\":{{",
                    opt_str(trait_s),
                    esc(&self.ty_s(t)),
                    esc(&self.span_s(tcx.def_span(did)))
                );
                let mut fc = true;
                let mut methods = String::new();
                let mut fm = true;
                for item in tcx.associated_items(did).in_definition_order() {
                    match item.kind {
                        ty::AssocKind::Const { .. } => {
                            let mut val = "null".to_string();
                            if tcx.generics_of(item.def_id).own_counts().types == 0 {
                                // evaluate with identity args is only possible for non-generic consts;
                                // lifetimes are erased by const_eval_poly.
                                if let Ok(ConstValue::Scalar(s)) = tcx.const_eval_poly(item.def_id) {
                                    if let Ok(i) = s.try_to_scalar_int() {
                                        val = i.to_bits(i.size()).to_string();
                                    }
                                }
                            }
                            if !fc {
                                o.push(',');
                            }
                            fc = false;
                            let _ = write!(o, "{}:{}", esc(&item.name().to_string()), val);
                        }
                        ty::AssocKind::Fn { .. } => {
                            if !fm {
                                methods.push(',');
                            }
                            fm = false;
                            let _ = write!(methods, "{}:{}", esc(&item.name().to_string()), esc(&self.path(item.def_id)));
                        }
                        _ => {}
                    }
                }
                let _ = write!(o, "}},\"methods\":{{{}}}}}", methods);
            }
        }
        o.push(']');
        o
    }
}

impl Callbacks for Cb {
    fn after_expansion<'tcx>(&mut self, _c: &Compiler, tcx: TyCtxt<'tcx>) -> Compilation {
        let want = std::env::var("MQFACTS_CRATE").unwrap_or_else(|_| "minimq".to_string());
        let out = match std::env::var("MQFACTS_OUT") {
            Ok(o) => o,
            Err(_) => return Compilation::Continue,
        };
        let krate = tcx.crate_name(LOCAL_CRATE).to_string();
        if krate != want {
            return Compilation::Continue;
        }
        // pass 1: clone every built MIR body before anything can steal it
        let mut bodies: Vec<(LocalDefId, Body<'tcx>)> = Vec::new();
        let mut skipped: Vec<String> = Vec::new();
        for def in tcx.hir_body_owners() {
            let st = tcx.mir_built(def);
            if st.is_stolen() {
                skipped.push(with_no_trimmed_paths!(tcx.def_path_str(def.to_def_id())));
                continue;
            }
            let b = st.borrow().clone();
            bodies.push((def, b));
        }

        let mut cx = Cx { tcx, adts: BTreeMap::new(), const_items: BTreeMap::new() };
        let mut o = String::new();
        let _ = write!(
            o,
            "{{\"crate\":{},\"nonce\":{},\"cfg\":{},\"rustc\":{},\"test_harness\":{},\"skipped_bodies\":[",
            esc(&krate),
            esc(&std::env::var("MQFACTS_NONCE").unwrap_or_default()),
            esc(&std::env::var("MQFACTS_CFG").unwrap_or_default()),
            esc(&rustc_version()),
            tcx.sess.is_test_crate()
        );
        for (i, s) in skipped.iter().enumerate() {
            if i > 0 {
                o.push(',');
            }
            o.push_str(&esc(s));
        }
        o.push_str("],\"bodies\":{");
        let mut first = true;
        for (def, body) in bodies.iter() {
            if !first {
                o.push(',');
            }
            first = false;
            let p = cx.path(def.to_def_id());
            let _ = write!(o, "{}:{}", esc(&p), cx.body(*def, body));
        }
        o.push_str("},\"impls\":");
        o.push_str(&cx.impl_table());
        o.push_str(",\"adts\":");
        o.push_str(&cx.adt_table());
        o.push_str(",\"consts\":");
        o.push_str(&cx.const_table());
        o.push('}');

        let suffix = std::env::var("MQFACTS_CFG").unwrap_or_else(|_| "cfg".into());
        let path = format!("{}/{}-{}.json", out, krate, suffix);
        let tmp = format!("{}.tmp.{}", path, std::process::id());
        std::fs::write(&tmp, o).expect("mqfacts: cannot write facts");
        std::fs::rename(&tmp, &path).expect("mqfacts: cannot rename facts");
        Compilation::Continue
    }
}

fn rustc_version() -> String {
    option_env!("CFG_VERSION").unwrap_or("nightly").to_string()
}

fn main() -> std::process::ExitCode {
    let mut args: Vec<String> = std::env::args().collect();
    // RUSTC_WORKSPACE_WRAPPER: argv[1] is the path of the real rustc
    if args.len() > 1 && (args[1].ends_with("rustc") || args[1].contains("/rustc")) {
        args.remove(1);
    }
    rustc_driver::install_ice_hook("https://example.invalid/mqfacts", |_| ());
    rustc_driver::catch_with_exit_code(|| rustc_driver::run_compiler(&args, &mut Cb))
}
